#!/venv/bin/python
"""Single entry point:  run_check.py <ID> [--tier quick|thorough] [--replay FILE] [--sub NAME ...]

exit 0  property held on everything explored (KNOWN-FINDING lines may be printed)
exit 1  VIOLATION property=<id> replay=<path>
exit 2  harness error (never a VIOLATION line)
"""
import argparse
import importlib
import json
import os
import sys

sys.path.insert(0, os.path.dirname(os.path.abspath(__file__)))
from vf import env  # noqa: E402

env.ensure_env()


def main():
    ap = argparse.ArgumentParser()
    ap.add_argument("pid")
    ap.add_argument("--tier", default=os.environ.get("VERIF_TIER", "quick"),
                    choices=["quick", "thorough"])
    ap.add_argument("--replay")
    ap.add_argument("--sub", action="append")
    ap.add_argument("--jobs", type=int, default=int(os.environ.get("VF_JOBS", "16")))
    a = ap.parse_args()
    seed = int(os.environ.get("VERIF_SEED", "1") or "1")
    try:
        env.import_darsia()
        from vf import runner

        mod = importlib.import_module(f"vf.props.{a.pid.lower()}")
        prop = mod.PROP
    except Exception as e:  # noqa
        import traceback

        traceback.print_exc()
        print(f"HARNESS-ERROR cannot set up {a.pid}: {e}", file=sys.stderr)
        return 2
    if a.replay:
        with open(a.replay) as fh:
            rec = json.load(fh)
        runner._PROP = prop

        def one():
            try:
                return ("v", runner.run_single(prop, rec["sub"], rec["case"]))
            except runner.HarnessError as e:
                return ("h", str(e))

        r = runner.run_isolated([one], 1, float(os.environ.get("VF_TASK_TIMEOUT", "5400")))[0]
        if r[0] == "died":
            v = {"kind": f"crash:process-killed:{runner._signal_name(r[1])}",
                 "message": "the process evaluating this case was killed inside the library or a compiled routine"}
        elif r[0] == "ok" and r[1][0] == "v":
            v = r[1][1]
        else:
            print(f"HARNESS-ERROR {r[1] if r[0] != 'ok' else r[1][1]}", file=sys.stderr)
            return 2
        if v is None:
            print(f"replay passes: {a.replay}", file=sys.stderr)
            return 0
        print(f"VIOLATION property={prop.pid} replay={a.replay}")
        print(f"  # sub={rec['sub']} kind={v['kind']} {v['message'][:400]}")
        return 1
    return runner.main_check(prop, a.tier, seed, only_subs=a.sub, jobs=a.jobs)


if __name__ == "__main__":
    sys.exit(main())
