#!/bin/sh
# re-run the confirmation (demo + quick check, unit tests skipped) of filed seeded changes matching a pattern
cd "$(dirname "$0")/.."
for d in seeded/$1; do
  python3 tools/confirm_seed.py "$d" --skip-tests 2>&1 | tail -1 | cut -c1-60,150-400
done
