#!/bin/sh
# confirm every seeded change under /tmp/seed*-*/seed_out that is not yet filed in /verif/seeded
cd "$(dirname "$0")/.."
for d in /tmp/seed*-C*/seed_out/C*; do
  [ -f "$d/meta.json" ] && [ -f "$d/patch.diff" ] && [ -f "$d/demo.py" ] || continue
  id=$(basename "$d")
  [ -f "seeded/$id/meta.json" ] && continue
  python3 tools/confirm_seed.py "$d"
done
