#!/usr/bin/env python3
"""Sensitivity harness: apply one small edit (or a patch file) to a scratch copy of the
repository, run the quick check(s) against it with VF_REPO, report, delete the copy.

  tools/mutant.py --pid C01 --file src/darsia/x.py --old 'a' --new 'b' [--nth 1] [--tests]
  tools/mutant.py --pid C01 --patch some.diff [--tests]
"""
import argparse
import os
import shutil
import subprocess
import sys
import tempfile

VERIF = os.path.dirname(os.path.dirname(os.path.abspath(__file__)))


def main():
    ap = argparse.ArgumentParser()
    ap.add_argument("--pid", action="append", required=True)
    ap.add_argument("--file")
    ap.add_argument("--old")
    ap.add_argument("--new")
    ap.add_argument("--nth", type=int, default=0, help="0 = must be unique; k = k-th occurrence")
    ap.add_argument("--patch")
    ap.add_argument("--tests", action="store_true", help="also run the pinned unit tests")
    ap.add_argument("--tier", default="quick")
    ap.add_argument("--sub", action="append")
    ap.add_argument("--seed", default="1")
    a = ap.parse_args()
    scratch = tempfile.mkdtemp(prefix="vf-mut.", dir="/var/tmp")
    try:
        subprocess.check_call(["rsync", "-a", "--exclude", ".git", "/repo/", scratch + "/"])
        if a.patch:
            subprocess.check_call(["patch", "-p1", "-s", "-d", scratch, "-i", os.path.abspath(a.patch)])
        else:
            p = os.path.join(scratch, a.file)
            s = open(p).read()
            cnt = s.count(a.old)
            if a.nth == 0:
                if cnt != 1:
                    print(f"MUTANT-ERROR: pattern occurs {cnt} times in {a.file}")
                    return 3
                s = s.replace(a.old, a.new)
            else:
                parts = s.split(a.old)
                if cnt < a.nth:
                    print(f"MUTANT-ERROR: pattern occurs only {cnt} times")
                    return 3
                s = a.old.join(parts[: a.nth]) + a.new + a.old.join(parts[a.nth:])
            open(p, "w").write(s)
        rc_all = 0
        if a.tests:
            env = dict(os.environ, PYTHONPATH=os.path.join(scratch, "src"), MPLBACKEND="Agg")
            r = subprocess.run(
                ["/venv/bin/python", "-m", "pytest", "-q", "-p", "no:cacheprovider", "-x",
                 "tests/unit", "-n", "8"], cwd=scratch, env=env, capture_output=True, text=True)
            tail = [l for l in r.stdout.splitlines() if "passed" in l or "failed" in l][-1:]
            print("unit tests on mutant:", tail)
        for pid in a.pid:
            env = dict(os.environ, VF_REPO=scratch, VERIF_SEED=a.seed, VF_NO_EVIDENCE="1")
            cmd = ["/venv/bin/python", os.path.join(VERIF, "run_check.py"), pid, "--tier", a.tier]
            for s_ in a.sub or []:
                cmd += ["--sub", s_]
            r = subprocess.run(cmd, env=env, capture_output=True, text=True, cwd=VERIF)
            lines = [l for l in r.stdout.splitlines() if l.startswith("VIOLATION") or l.startswith("  #")]
            verdict = "CAUGHT" if r.returncode == 1 else ("MISSED" if r.returncode == 0 else "HARNESS-ERROR")
            print(f"[{pid}] exit={r.returncode} {verdict}")
            for l in lines[:8]:
                print("   ", l[:300])
            if r.returncode == 2:
                print(r.stderr[-2000:])
            rc_all = max(rc_all, 0 if r.returncode == 1 else 1)
        return rc_all
    finally:
        shutil.rmtree(scratch, ignore_errors=True)


if __name__ == "__main__":
    sys.exit(main())
