#!/usr/bin/env python3
"""Apply one proposed fix diff to /repo as a 'fix:' commit (after the pinned unit tests pass),
copy its shrunk replay into replays/<ID>/ and record it in known_findings.json.

tools/apply_fix.py DIFF PID "commit subject" "commit body" REPLAY_SRC REPLAY_NAME "what failed"
"""
import json
import os
import shutil
import subprocess
import sys

VERIF = os.path.dirname(os.path.dirname(os.path.abspath(__file__)))


def sh(cmd, **kw):
    return subprocess.run(cmd, shell=True, capture_output=True, text=True, **kw)


def main():
    diff, pid, subject, body, replay_src, replay_name, what = sys.argv[1:8]
    assert subject.startswith("fix:")
    r = sh(f"patch -p1 --dry-run -d /repo -i {os.path.abspath(diff)}")
    if r.returncode != 0:
        print("PATCH DOES NOT APPLY\n", r.stdout, r.stderr)
        return 1
    sh(f"patch -p1 -d /repo -i {os.path.abspath(diff)}")
    sh("find /repo -name '*.orig' -delete")
    t = sh("cd /repo && MPLBACKEND=Agg /venv/bin/python -m pytest -q -p no:cacheprovider tests/unit -n 6 2>&1 | tail -3")
    line = [l for l in t.stdout.splitlines() if "passed" in l or "failed" in l or "error" in l]
    print("tests:", line)
    import re
    if not line or "123 passed" not in line[-1] or re.search(r"\b\d+ (failed|error)", line[-1]):
        print("UNIT TESTS CHANGED - reverting")
        sh("git -C /repo checkout -- .")
        return 1
    msg = subject + "\n\n" + body
    sh("git -C /repo add -A src")
    c = subprocess.run(["git", "-C", "/repo", "commit", "-q", "-m", msg], capture_output=True, text=True)
    if c.returncode != 0:
        print("commit failed", c.stdout, c.stderr)
        return 1
    sha = sh("git -C /repo rev-parse --short HEAD").stdout.strip()
    replays = []
    if replay_src and replay_src != "-":
        os.makedirs(os.path.join(VERIF, "replays", pid), exist_ok=True)
        dst = os.path.join("replays", pid, replay_name)
        shutil.copy(replay_src, os.path.join(VERIF, dst))
        replays = [dst]
    kf = os.path.join(VERIF, "known_findings.json")
    k = json.load(open(kf))
    k["fixed"].append({"property": pid, "commit": sha, "what": f"fixed: property={pid} {sha} {what}",
                       "replays": replays})
    json.dump(k, open(kf, "w"), indent=1)
    print("committed", sha)
    return 0


if __name__ == "__main__":
    sys.exit(main())
