#!/usr/bin/env python3
"""Regenerate /verif/MANIFEST.json from the table below (keeps it valid at all times)."""
import json
import os

VERIF = os.path.dirname(os.path.dirname(os.path.abspath(__file__)))

# id -> (technique, level text, level note, design section)
CLAIMED = {
    "C01": (
        "Hypothesis-generated image geometries vs an independent affine reference map plus "
        "interior-point and typed-point round-trips",
        "Thousands of generated geometries (1-3-D, single-voxel axes, voxel sizes 1e-4..1e4, origins up "
        "to 1e6 voxel sizes away, all payload kinds) are evaluated on every voxel plus a halo of "
        "out-of-range indices, in all call forms; the oracle is a 15-line reference map written from "
        "the documented convention. Sampling cannot prove all floats, hence exploration.",
        "RefCS convention table is trusted; points within max(1e-6, 64 eps(|x|+|o|)/h) of a voxel face "
        "are not asserted.",
        "4/C01",
    ),
    "C02": (
        "Hypothesis-generated extraction programs (1-4 steps of subregion in three forms / time_slice / "
        "time_interval) against an explicit offset-tracking model; series assembly round-trips",
        "After every step of a generated program the child image is compared with a model that tracks "
        "the integer offset into the root array, the selected time indices and the root reference "
        "coordinate system: exact data block, placement of every voxel corner, time/date bookkeeping, "
        "equivalence of the three ROI forms, append/stack round-trips.",
        "RefCS convention trusted; empty selections, negative indices and stepped slices are not generated.",
        "4/C02",
    ),
    "C03": (
        "Hypothesis-generated geometries / weights / data and integrate() call histories vs an einsum "
        "reference, linearity and resolution metamorphic relations, fresh-object differential",
        "Weighted-sum reference on dyadic payloads (exact), linearity, the same piecewise-constant field "
        "supplied at coarser / finer resolutions, histories of up to five calls on one object compared "
        "call by call with a fresh object, normalisation.",
        "cv2 INTER_AREA trusted as conservative for pure down-sampling / integer up-sampling; mixed "
        "up/down factors not generated.",
        "4/C03",
    ),
    "C09": (
        "Hypothesis-generated affine parameters, point sets and exact warps vs inverse round-trips, "
        "orthonormality, documented action and an integer pull-back model",
        "Forward/inverse composition, rotation algebra and typed I/O on generated parameters (2-D/3-D, "
        "several non-zero angles); transformation-based corrections with exactly representable maps "
        "(identity, whole-voxel shifts incl. beyond the image, quarter turns, resampling between systems) "
        "compared voxel by voxel with an integer pull-back model in all three representations.",
        "fitted maps are not held to exactness; voxel-typed quarter turns are a recorded known finding.",
        "4/C09",
    ),
    "C10": (
        "Hypothesis-generated (correction x input kind x overwrite) cases with snapshot, second-instance "
        "differential, per-slice differential and neutral-element oracles",
        "Every correction constructible without files or interaction is applied to arrays, scalar / optical "
        "images and series with overwrite on and off: input snapshots, same kind, data equal to "
        "correct_array of an identically built second instance, metadata = input + declared updates, "
        "overwrite identity, series = per-slice, neutral parameters = identity, constructor chains.",
        "cv2 rejections of unsupported dtypes count as rejected; k-means RNG is reseeded by the harness.",
        "4/C10",
    ),
    "C11": (
        "Hypothesis-generated resize / refinement / reduction / extrusion / superposition cases vs "
        "integral conservation (metamorphic) and plain numpy references",
        "Integral before vs after for conservative resizing, refinement, coarsening (general data only "
        "on divisible extents, constant data everywhere), axis reduction by index and by Cartesian name, "
        "extrusion and grid-aligned superposition; sum / mean / take references; refine-then-coarsen "
        "identity.",
        "float32/cv2 tolerance 1e-5 x sum|x| (measured worst 9e-7); non-conservative regimes not generated.",
        "4/C11",
    ),
    "C18": (
        "Hypothesis-generated images, encoded byte strings and correction configurations through "
        "save/load, encode/decode and write/read round-trips",
        "npz save/imread (twice), PNG/TIFF decoding, OpticalImage.write/imread and correction "
        "save/read_correction round-trips over the metadata space, compared bit-for-bit (arrays, dtype) and "
        "entry by entry (metadata), corrections by identical output on several inputs.",
        "ImageMagick identify absent (dates of written optical images not compared); class identity after "
        "npz load not demanded.",
        "4/C18",
    ),
    "C19": (
        "Hypothesis-generated (shape, patch count, overlap, dimensions, origin) cases vs a coverage-count "
        "tiling model, sub-image differential and corner/centre consistency",
        "Re-assembly identity, interiors tile the image exactly once (coverage count on a unique-id base), "
        "each patch equals the sub-image at its advertised voxel corners, Cartesian and voxel corners / "
        "centres agree under the base coordinate system.",
        "centre placement for non-divisible extents is a recorded known finding.",
        "4/C19",
    ),
    "C20": (
        "exhaustive enumeration of the axis translation tables + Hypothesis-generated arrays / images for "
        "layout helpers, slicing and reduction by name vs by index, with the coordinate system as arbiter",
        "All (dimension, axis, direction, axis form) rows of the three tables are enumerated and compared "
        "with each other and with unit steps of a real CoordinateSystem; name-vs-index addressing in "
        "slice and reduce_axis and placement / inverse laws of the layout helpers on generated arrays.",
        "cartesianToMatrixIndexing is documented 2-D only: inverse law asserted in 2-D.",
        "4/C20",
    ),
    "C04": (
        "Hypothesis-generated solver runs (grid x masses x method x discretisation x back-end x "
        "Anderson x weights) with invariants on the captured solution, plus injected one-shot "
        "failures of the inner linear solve at each iteration index",
        "Each generated run is checked against oracles that are independent of the solver: the "
        "harness's own incidence matrix for the mass balance, its own RT0 interpolation and numpy "
        "quadrature for the cost of the returned flux, re-evaluation of the stopping inequalities "
        "from the recorded history; fault sequences are enumerated by injecting an exception into "
        "the k-th inner solve (bound-method wrap, no source hook). The full option matrix is run "
        "exhaustively on three fixed grids. Sampling of a large configuration space: exploration "
        "with fault enumeration.",
        "numpy dense algebra and the RefGrid incidence model are trusted; iterates with a "
        "non-finite / >1e12 mobility weight are a recorded known finding and excluded by predicate.",
        "4/C04",
    ),
    "C08": (
        "exhaustive shape enumeration (direct back-end) + Hypothesis-generated systems and solver "
        "re-use sequences vs a dense reference solve of the harness-assembled saddle-point system",
        "Every grid shape of the C07 range is enumerated for the three formulations with the direct "
        "back-end; iterative back-ends, re-use histories and end-to-end distances are sampled. The "
        "oracle is numpy.linalg.solve on a system assembled from the independent incidence model, "
        "so formulation-specific index surgery (Schur complement, CSC row/column removal) is "
        "checked against something that shares no code with it.",
        "dense solve trusted; tolerance scaled with cond(A); PETSc ksp absent; reuse with a changed "
        "matrix not asserted.",
        "4/C08",
    ),
    "C05": (
        "Hypothesis-generated pairs and options against metamorphic relations (swap, rescaling, "
        "constant weight), an analytic first-moment lower bound, a certified brute-force minimum in "
        "the cycle space, the closed-form cost of the unique flux on thin grids, a front-end / "
        "back-end differential and cv2.EMD closed forms",
        "Metric laws are checked as metamorphic relations on generated inputs (exact where the "
        "iteration is provably equivariant, loose where only converged values are comparable); lower "
        "bounds hold for every run, converged or not; the brute-force bound minimises the library's "
        "own discrete functional (re-assembled by the harness, self-checked against l1_dissipation) "
        "over all mass-conserving fluxes with a certified optimality gap.",
        "near-optimality and the triangle inequality are not asserted; Anderson-accelerated runs are "
        "exempt from the swap symmetry (LAPACK rounding is not sign-symmetric and is amplified).",
        "4/C05",
    ),
    "C16": (
        "Hypothesis-generated call histories (stateful, model-based: the model of every step is the "
        "same call issued first in a pristine forked process), invariant checked after every step; "
        "reordering of independent calls",
        "Histories of up to four parameterised operations on shared solver / regulariser / Anderson / "
        "distance objects (incl. the library's module-level default solver and update_params in "
        "between) are generated and shrunk as one value; after every step the result must be "
        "bit-identical to the same call made first in a process that has imported darsia and never "
        "used it. This reaches exactly the defect class (values cached on first use, shared default "
        "instances, parameters mutated by a call) that single-call tests cannot.",
        "pristine process = fork of an import-only process (validated design-time against real fresh "
        "interpreters); darsia.CG is unusable with the installed scipy and left out.",
        "4/C16",
    ),
    "C06": (
        "exhaustive shape enumeration + Hypothesis-generated grids vs an independent incidence model "
        "(net outflow, adjointness, interpolation, averaging laws)",
        "All 186 shapes of the stated range x 3 voxel-size classes are enumerated completely with "
        "integer-valued payloads (exact arithmetic) and compared entry by entry with an independently "
        "enumerated incidence model; random larger grids and evaluation points are added by Hypothesis.",
        "RefGrid enumeration is trusted; payloads are sampled, shapes are exhausted.",
        "4/C06",
    ),
    "C07": (
        "exhaustive enumeration of grid shapes vs an independent Fortran-order enumeration of cells, "
        "faces, connectivity and corner tables",
        "Every shape in the stated range is enumerated and every table (face counts, numbering, "
        "connectivity, reverse connectivity incl. the -1 pattern, interior/exterior partition, corner "
        "indices) is compared with an independent enumeration; image-derived grids via Hypothesis.",
        "RefGrid is trusted; the 1-D interior labelling is only required to be a partition.",
        "4/C07",
    ),
    "C12": (
        "Hypothesis-generated well-conditioned swatch sets and ground-truth colour maps vs exact-map "
        "recovery, monotone residual, and staged-equals-sequential composition",
        "Each balance class is fitted on destinations that are an exact map of its class and must reproduce "
        "them to optimiser tolerance (a miss only counts if an independent Powell run on the same problem "
        "does reach it); fitting never increases the residual from its start state; after every stage of an "
        "adaptive balance the accumulated map equals the stage maps applied one after the other.",
        "scipy Powell at tol 1e-6 on problems with cond <= 20; stalled optimiser runs are skipped, not failed.",
        "4/C12",
    ),
    "C13": (
        "Hypothesis-generated baselines / probes / configurations with recording spy stages vs a reference "
        "composition computed by the harness",
        "Stages are instrumented non-commuting maps that record call order and a hash of their input; the "
        "result must equal the harness's own composition on the independently computed difference, for all "
        "diff options, both stage orders, 0-3 extra baselines and integer / float dtypes; the baseline maps "
        "to zero; probe untouched; result metadata.",
        "cleaning filter = element-wise maximum of the reduced extra-baseline differences (design-time "
        "validated); float32 reduction path compared at 1e-6.",
        "4/C13",
    ),
    "C14": (
        "Hypothesis-generated signals, parameters, label maps and kernels vs the defining algebra of each "
        "model (idempotence, affinity, composition, label-wise differential, interpolation, span test)",
        "Clip bounds/idempotence, affinity of scaling/linear models, CombinedModel = sequential composition "
        "and in-order routing of flat parameter vectors, heterogeneous = homogeneous per label (also after "
        "updates and shape changes), exact strict thresholds, kernel interpolation reproduces its values and "
        "its numba evaluation equals the plain kernel sum, polynomial space spans exactly total degree <= d.",
        "float32 kernel paths compared with a derived backward-error bound; multi-entry CombinedModel dofs "
        "are undocumented and not asserted.",
        "4/C14",
    ),
    "C17": (
        "Hypothesis-generated operands for a fixed registry of about 130 call forms (callees built inside the oracle, every call repeated once on the same callee) and random chains of calls, "
        "with deep before/after snapshots of every argument, caller-owned containers and the global RNG "
        "state; element-wise agreement of image arithmetic with numpy",
        "Every registered call form that is documented to return a new object is run on generated images "
        "of every kind; all arguments (array bytes, every attribute, caller-owned lists/dicts) and "
        "numpy's global RNG state are snapshotted before and compared after; the result must share no "
        "memory with an argument and mutating it through the documented in-place API must not reach an "
        "argument; chains of up to five calls on shared operands detect delayed exposure; arithmetic and "
        "comparisons agree with numpy for every documented scalar type.",
        "extraction forms and constructors may return views (labelled, not failed); documented in-place "
        "methods are not in the registry.",
        "4/C17",
    ),
    "C15": (
        "exhaustive generated enumeration of all quadrature rules vs analytic monomial integrals "
        "and numpy leggauss tensor-product reference",
        "Every (dimension, order, cell) rule the API accepts is enumerated completely and compared "
        "with analytic monomial integrals up to per-variable degree 2n-1 and, entry by entry, with "
        "the tensor product of numpy's Gauss-Legendre rule; the finite domain is exhausted, so for "
        "the tables this is as strong as testing gets; the consumer (transport_density) is checked "
        "on affine flux fields.",
        "numpy.polynomial.legendre.leggauss and closed-form monomial integrals are trusted; "
        "tolerance 2e-13.",
        "4/C15",
    ),
}

LEVELS = {"C04": "fault_enumeration"}

PENDING_REASON = "check under construction in this session - not yet claimed"


def main():
    props = [json.loads(l) for l in open(os.path.join(VERIF, "properties.jsonl")) if l.strip()]
    checks = []
    na = []
    for p in props:
        pid = p["id"]
        if pid in CLAIMED and os.path.exists(os.path.join(VERIF, "vf", "props", pid.lower() + ".py")):
            tech, text, note, ref = CLAIMED[pid]
            checks.append({
                "property_id": pid,
                "quick_cmd": f"/venv/bin/python run_check.py {pid} --tier quick",
                "thorough_cmd": f"/venv/bin/python run_check.py {pid} --tier thorough",
                "evidence_file": f"evidence/{pid}.json",
                "replay_cmd_template": f"/venv/bin/python run_check.py {pid} --replay {{path}}",
                "engine": "vf",
                "level_claimed": {"category": LEVELS.get(pid, "exploration"), "text": text, "design_ref": ref},
                "level_note": note,
                "technique": "property-based testing: " + tech,
            })
        else:
            na.append({"property_id": pid, "reason": PENDING_REASON})
    man = {
        "version": 1,
        "setup_cmd": "sh tools/setup.sh",
        "hooks": {
            "guard": "DARSIA_VERIF",
            "enable": "no source hooks are needed: every observation goes through the public API "
                      "or harness-side wrapping of bound methods; checks import darsia from "
                      "/repo/src (working tree) and set DARSIA_VERIF=1 for completeness",
            "baseline_off_cmd": "cd /repo && /venv/bin/python -m pytest -ra -q -p no:cacheprovider "
                                "--timeout=900 --continue-on-collection-errors",
            "source_commits": [],
            "add_only": True,
        },
        "engines": [{
            "name": "vf",
            "path": "vf/",
            "serves_properties": [c["property_id"] for c in checks],
            "kind_free_text": "Hypothesis-driven property-based testing framework (generated "
                              "cases / histories / fault injections against explicit oracles, "
                              "16 forked shards, shrinking to JSON replay files); finite domains "
                              "are enumerated exhaustively by the same generators",
        }],
        "checks": checks,
        "notes": "run_check.py <ID> [--tier quick|thorough] [--replay F]; exit 0 held / 1 VIOLATION "
                 "/ 2 harness error. VERIF_SEED selects the seed. known_findings.json lists open "
                 "findings (KNOWN-FINDING lines) and fixed ones (suppress nothing).",
        "not_applicable": na,
    }
    with open(os.path.join(VERIF, "MANIFEST.json"), "w") as fh:
        json.dump(man, fh, indent=1)
    print(f"claimed {len(checks)}, pending {len(na)}")


if __name__ == "__main__":
    main()
