#!/usr/bin/env python3
"""Record how a check was strengthened for an initially missed seeded change:
  tools/note_seed.py C01-s3 "text"   (kept by confirm_seed.py on re-confirmation)"""
import json, sys, os
p = os.path.join(os.path.dirname(os.path.dirname(os.path.abspath(__file__))), "seeded", sys.argv[1], "meta.json")
m = json.load(open(p)); m["strengthened"] = sys.argv[2]; json.dump(m, open(p, "w"), indent=1)
