#!/usr/bin/env python3
"""Run the hand-made sensitivity mutants of tools/mutants.json (optionally filtered by id prefix),
a few in parallel, and write tools/MUTANT_RESULTS.md."""
import json
import os
import subprocess
import sys
from concurrent.futures import ThreadPoolExecutor

VERIF = os.path.dirname(os.path.dirname(os.path.abspath(__file__)))


def run(m):
    cmd = [sys.executable, os.path.join(VERIF, "tools", "mutant.py"), "--file", m["file"], "--old", m["old"],
           "--new", m["new"]]
    if m.get("nth"):
        cmd += ["--nth", str(m["nth"])]
    for p in m["pid"]:
        cmd += ["--pid", p]
    r = subprocess.run(cmd, capture_output=True, text=True)
    verdicts = [l for l in r.stdout.splitlines() if l.startswith("[C") or "MUTANT-ERROR" in l]
    first = [l.strip() for l in r.stdout.splitlines() if l.strip().startswith("# sub=")][:1]
    return m, verdicts, first


def main():
    pref = sys.argv[1:] or [""]
    muts = [m for m in json.load(open(os.path.join(VERIF, "tools", "mutants.json")))
            if any(m["id"].startswith(p) for p in pref)]
    lines = []
    with ThreadPoolExecutor(int(os.environ.get("MUT_JOBS", "3"))) as ex:
        for m, verdicts, first in ex.map(run, muts):
            v = "; ".join(verdicts)
            print(m["id"], m["what"], "->", v, flush=True)
            lines.append(f"| {m['id']} | {m['what']} | {v} | {first[0][:160] if first else ''} |")
    out = os.path.join(VERIF, "tools", "MUTANT_RESULTS.md")
    old = open(out).read().splitlines() if os.path.exists(out) else [
        "| mutant | edit | verdict per property | first violation |", "|---|---|---|---|"]
    keep = [l for l in old if not any(l.startswith(f"| {m['id']} |") for m in muts)]
    open(out, "w").write("\n".join(keep + lines) + "\n")


if __name__ == "__main__":
    main()
