#!/venv/bin/python
"""Maintenance aid: every open known finding's minimal case must still fail and be matched by its own entry."""
import os, sys
sys.path.insert(0, os.path.dirname(os.path.dirname(os.path.abspath(__file__))))
from vf import env
env.ensure_env(); env.import_darsia()
import importlib
from vf import runner
known = runner.load_known()
bad = 0
for e in known["open"]:
    prop = importlib.import_module("vf.props." + e["property"].lower()).PROP
    ents = [x for x in known["open"] if x["property"] == e["property"]]
    try:
        v = runner.run_single(prop, e["sub"], e["minimal_case"])
    except BaseException as ex:  # noqa
        print(e["id"], "probe raised", type(ex).__name__); bad += 1; continue
    if v is None:
        print(e["id"], "minimal case no longer fails"); bad += 1; continue
    m = runner.match_known(ents, e["property"], e["sub"], runner.Violation(v["kind"], v["message"], v["tags"]))
    print(e["id"], v["kind"], "->", (m or {}).get("id"))
    bad += (m or {}).get("id") != e["id"]
sys.exit(1 if bad else 0)
