#!/usr/bin/env python3
"""Validate MANIFEST.json and evidence/*.json against the schemas (run with python3-vt)."""
import glob, json, sys
import jsonschema
ok = True
m = json.load(open("/verif/MANIFEST.json"))
jsonschema.validate(m, json.load(open("/root/.vp/MANIFEST.schema.json")))
es = json.load(open("/root/.vp/EVIDENCE.schema.json"))
for f in sorted(glob.glob("/verif/evidence/*.json")):
    try:
        jsonschema.validate(json.load(open(f)), es)
    except Exception as e:
        ok = False
        print("INVALID", f, str(e)[:300])
print("valid" if ok else "INVALID")
sys.exit(0 if ok else 1)
