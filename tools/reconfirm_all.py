#!/usr/bin/env python3
"""Re-run the confirmation (demo + quick check; unit tests skipped, they were run at filing) of every filed
seeded change, N at a time:  tools/reconfirm_all.py [N] [glob]"""
import glob, os, subprocess, sys
from concurrent.futures import ThreadPoolExecutor
V = os.path.dirname(os.path.dirname(os.path.abspath(__file__)))
n = int(sys.argv[1]) if len(sys.argv) > 1 else 2
pat = sys.argv[2] if len(sys.argv) > 2 else "C*"
def one(d):
    r = subprocess.run([sys.executable, os.path.join(V, "tools", "confirm_seed.py"), d, "--skip-tests"],
                       capture_output=True, text=True, cwd=V)
    line = (r.stdout.strip().splitlines() or ["?"])[-1]
    return os.path.basename(d) + " " + line[line.rfind("{"):]
with ThreadPoolExecutor(n) as ex:
    for out in ex.map(one, sorted(glob.glob(os.path.join(V, "seeded", pat)))):
        print(out, flush=True)
