#!/bin/sh
# offline setup: make sure hypothesis is importable by the repository's interpreter and
# warm the numba cache (first import of darsia compiles a few cached kernels).
set -e
cd "$(dirname "$0")/.."
/venv/bin/python -c "import hypothesis" 2>/dev/null || \
  /venv/bin/pip install --no-index --find-links /opt/veriftools/wheels hypothesis
mkdir -p .cache/numba evidence
NUMBA_CACHE_DIR="$PWD/.cache/numba" MPLBACKEND=Agg PYTHONDONTWRITEBYTECODE=1 \
  /venv/bin/python -B -c "import sys; sys.path.insert(0,'/repo/src'); import darsia" >/dev/null 2>&1 || true
echo setup-ok
