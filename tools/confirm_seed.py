#!/usr/bin/env python3
"""Confirm a seeded change independently and file it under /verif/seeded/<id>/.

  tools/confirm_seed.py /tmp/seed-C01/seed_out/C01-1 [--pid C01 ...]

Steps (all in a scratch copy outside /repo and /verif, removed afterwards):
  1. patch applies to the current /repo tree;  2. pinned unit tests still 123 passed with it;
  3. demo.py exits 0 on /repo/src and non-zero with the patch;  4. our quick check(s) CAUGHT/MISSED.
Writes patch.diff, demo.py, meta.json (with a "confirmed" block) to /verif/seeded/<id>/.
"""
import json
import os
import re
import shutil
import subprocess
import sys
import tempfile

VERIF = os.path.dirname(os.path.dirname(os.path.abspath(__file__)))


def main():
    src = os.path.abspath(sys.argv[1].rstrip("/"))
    sid = os.path.basename(src)
    pids = [a for a in sys.argv[2:] if re.match(r"C\d\d$", a)] or [sid.split("-")[0]]
    skip_tests = "--skip-tests" in sys.argv
    meta = json.load(open(os.path.join(src, "meta.json")))
    scratch = tempfile.mkdtemp(prefix="vf-seed.", dir="/var/tmp")
    conf = {}
    try:
        subprocess.check_call(["rsync", "-a", "--exclude", ".git", "--exclude", "seed_out", "/repo/", scratch + "/"])
        r = subprocess.run(["patch", "-p1", "-s", "-d", scratch, "-i", os.path.join(src, "patch.diff")],
                           capture_output=True, text=True)
        conf["applies_to_repo_head"] = r.returncode == 0
        if r.returncode != 0:
            print(sid, "PATCH DOES NOT APPLY", r.stdout[-300:])
        env = dict(os.environ, MPLBACKEND="Agg")
        if not skip_tests and conf["applies_to_repo_head"]:
            t = subprocess.run(["/venv/bin/python", "-m", "pytest", "-q", "-p", "no:cacheprovider", "tests/unit",
                                "-n", "4"], cwd=scratch, env=dict(env, PYTHONPATH=scratch + "/src"),
                               capture_output=True, text=True)
            line = [l for l in t.stdout.splitlines() if " passed" in l][-1:]
            conf["unit_tests_with_patch"] = line[0] if line else t.stdout[-200:]
        d0 = subprocess.run(["/venv/bin/python", os.path.join(src, "demo.py")], env=dict(env, PYTHONPATH="/repo/src"),
                            capture_output=True, text=True, cwd=scratch)
        d1 = subprocess.run(["/venv/bin/python", os.path.join(src, "demo.py")],
                            env=dict(env, PYTHONPATH=scratch + "/src"), capture_output=True, text=True, cwd=scratch)
        conf["demo_exit_unpatched"] = d0.returncode
        conf["demo_exit_patched"] = d1.returncode
        conf["demo_failure"] = (d1.stdout + d1.stderr).strip().splitlines()[-1:][0][:300] if d1.returncode else ""
        checks = {}
        for pid in pids:
            c = subprocess.run(["/venv/bin/python", os.path.join(VERIF, "run_check.py"), pid, "--tier", "quick"],
                               env=dict(os.environ, VF_REPO=scratch, VF_NO_EVIDENCE="1"), capture_output=True,
                               text=True, cwd=VERIF)
            first = [l.strip() for l in c.stdout.splitlines() if l.strip().startswith("# sub=")][:2]
            checks[pid] = {"exit": c.returncode, "verdict": {1: "CAUGHT", 0: "MISSED"}.get(c.returncode, "HARNESS-ERROR"),
                           "first_violations": [f[:260] for f in first]}
        conf["quick_checks"] = checks
    finally:
        shutil.rmtree(scratch, ignore_errors=True)
    dst = os.path.join(VERIF, "seeded", sid)
    os.makedirs(dst, exist_ok=True)
    prev_path = os.path.join(dst, "meta.json")
    if os.path.exists(prev_path):  # keep notes and earlier unit-test confirmation
        prev = json.load(open(prev_path))
        if "strengthened" in prev:
            meta["strengthened"] = prev["strengthened"]
        if "unit_tests_with_patch" not in conf and "unit_tests_with_patch" in prev.get("confirmed", {}):
            conf["unit_tests_with_patch"] = prev["confirmed"]["unit_tests_with_patch"]
    if os.path.realpath(src) != os.path.realpath(dst):
        shutil.copy(os.path.join(src, "patch.diff"), dst)
        shutil.copy(os.path.join(src, "demo.py"), dst)
    meta["property"] = meta.get("property", pids[0])
    meta["confirmed"] = conf
    meta["ran"] = ("scratch copy of /repo + patch: pytest tests/unit; demo.py with PYTHONPATH=/repo/src and with the "
                   "patched copy; run_check.py <ID> --tier quick with VF_REPO=<patched copy>")
    json.dump(meta, open(os.path.join(dst, "meta.json"), "w"), indent=1)
    print(sid, json.dumps({k: v for k, v in conf.items() if k != "quick_checks"}),
          {p: c["verdict"] for p, c in conf.get("quick_checks", {}).items()})


if __name__ == "__main__":
    main()
