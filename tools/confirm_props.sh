#!/bin/sh
# confirm the not-yet-filed seeded changes of the given properties: tools/confirm_props.sh 3 C14 C03 ...
cd "$(dirname "$0")/.."
round=$1; shift
for p in "$@"; do
  for d in /tmp/seed$round-$p/seed_out/C*; do
    [ -f "$d/meta.json" ] && [ -f "$d/patch.diff" ] && [ -f "$d/demo.py" ] || continue
    id=$(basename "$d")
    [ -f "seeded/$id/meta.json" ] && continue
    python3 tools/confirm_seed.py "$d"
  done
done
