#!/usr/bin/env python3
"""Regenerate the data-driven tables of DESIGN.md (between BEGIN/END GENERATED markers) from
known_findings.json, seeded/*/meta.json and tools/MUTANT_RESULTS.md."""
import glob
import json
import os
import re

VERIF = os.path.dirname(os.path.dirname(os.path.abspath(__file__)))


def fixes_table():
    k = json.load(open(os.path.join(VERIF, "known_findings.json")))
    out = ["| property | commit | defect that was repaired | regression replays (replayed first on every run) |",
           "|---|---|---|---|"]
    for e in sorted(k["fixed"], key=lambda e: e["property"]):
        what = re.sub(r"^fixed: property=\S+ \S+ ", "", e["what"])
        out.append(f"| {e['property']} | `{e['commit']}` | {what} | {', '.join('`' + r + '`' for r in e.get('replays', []))} |")
    return "\n".join(out)


def open_table():
    k = json.load(open(os.path.join(VERIF, "known_findings.json")))
    out = ["| property | id | sub-checks / kinds / predicate | what fails |", "|---|---|---|---|"]
    for e in sorted(k["open"], key=lambda e: e["property"]):
        subs = e.get("subs") or [e.get("sub")]
        kinds = e.get("kinds") or [e.get("kind")]
        out.append(f"| {e['property']} | `{e['id']}` | subs {subs}; kinds {kinds}; match {e.get('match')} | {e['what']} |")
    return "\n".join(out)


def seeded_table():
    out = ["| seeded change | property | what was changed | needs | unit tests with patch | demo (clean / patched) | "
           "quick check verdict | first violation reported |", "|---|---|---|---|---|---|---|---|"]
    for d in sorted(glob.glob(os.path.join(VERIF, "seeded", "*"))):
        mp = os.path.join(d, "meta.json")
        if not os.path.exists(mp):
            continue
        m = json.load(open(mp))
        c = m.get("confirmed", {})
        qc = c.get("quick_checks", {})
        verdict = "; ".join(f"{p}: {v['verdict']}" for p, v in qc.items())
        first = "; ".join((v["first_violations"] or [""])[0][:150] for v in qc.values())
        note = m.get("strengthened", "")
        out.append(f"| `{os.path.basename(d)}` | {m.get('property')} | {str(m.get('summary', ''))[:260]} | "
                   f"{str(m.get('needs', ''))[:220]} | {str(c.get('unit_tests_with_patch', ''))[:10]} | "
                   f"{c.get('demo_exit_unpatched')} / {c.get('demo_exit_patched')} | {verdict}"
                   f"{' — ' + note if note else ''} | {first.replace('|', '/')} |")
    return "\n".join(out)


def mutants_table():
    p = os.path.join(VERIF, "tools", "MUTANT_RESULTS.md")
    return open(p).read().strip() if os.path.exists(p) else "(not run)"


def asbuilt_table():
    """One line per property from the committed quick-tier evidence files."""
    import glob
    known = json.load(open(os.path.join(VERIF, "known_findings.json")))
    seeds = {}
    for d in glob.glob(os.path.join(VERIF, "seeded", "C*")):
        seeds.setdefault(os.path.basename(d)[:3], []).append(d)
    rows = ["| id | sub-checks (as built) | quick: cases / oracle evaluations / distinct non-trivial | exhaustive subs | "
            "quick wall | fixes in /repo | open findings | seeded changes filed |", "|---|---|---|---|---|---|---|---|"]
    for f in sorted(glob.glob(os.path.join(VERIF, "evidence", "C*.json"))):
        e = json.load(open(f))
        pid = e["property_id"]
        subs = e["coverage"].get("sub_checks", {})
        names = ", ".join(f"`{n}`" for n in subs)
        ex = sum(1 for s_ in subs.values() if s_.get("exhaustive"))
        nf = sum(1 for x in known.get("fixed", []) if x["property"] == pid)
        no = [x["id"] for x in known.get("open", []) if x["property"] == pid]
        rows.append(f"| {pid} | {len(subs)}: {names} | {e['coverage']['cases_generated']} / {e['coverage']['evaluations']} / "
                    f"{e['coverage']['distinct_nontrivial']} | {ex} | {e.get('wall_s', '?')} s ({e['tier']}, seed {e['seed']}) | "
                    f"{nf} | {', '.join(no) or '-'} | {len(seeds.get(pid, []))} |")
    return "\n".join(rows)


GEN = {"fixes": fixes_table, "open": open_table, "seeded": seeded_table, "mutants": mutants_table,
       "asbuilt": asbuilt_table}


def main():
    path = os.path.join(VERIF, "DESIGN.md")
    s = open(path).read()
    for name, fn in GEN.items():
        pat = re.compile(rf"(<!-- BEGIN GENERATED:{name} -->\n).*?(<!-- END GENERATED:{name} -->)", re.S)
        if not pat.search(s):
            print("marker missing:", name)
            continue
        s = pat.sub(lambda m: m.group(1) + fn() + "\n" + m.group(2), s)
    open(path, "w").write(s)
    print("DESIGN.md tables regenerated")


if __name__ == "__main__":
    main()
