#!/usr/bin/env python3
"""Write /tmp/seedprompt-<ID>.txt for independent seeding sub-agents (property text only)."""
import json, sys
props = {json.loads(l)['id']: json.loads(l) for l in open('/verif/properties.jsonl')}
tmpl = open('/verif/tools/seed_prompt_template.txt').read()
for pid in sys.argv[1:]:
    p = props[pid]
    txt = tmpl.format(pid=pid, title=p['title'], statement=p['statement'], quant=p['quantifier']['text'],
                      files=', '.join(p['anchors']['files']),
                      mech='; '.join(m['name'] + ' @ ' + m['where'] for m in p['anchors']['mechanism']))
    open(f'/tmp/seedprompt-{pid}.txt', 'w').write(txt)
    print(pid)
