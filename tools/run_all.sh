#!/bin/sh
# run every claimed quick (or $1=thorough) check sequentially; print one summary line each
cd "$(dirname "$0")/.."
TIER=${1:-quick}
for p in $(python3 -c "import json;print(' '.join(c['property_id'] for c in json.load(open('MANIFEST.json'))['checks']))"); do
  s=$(date +%s)
  /venv/bin/python run_check.py $p --tier $TIER > ${TMPDIR:-/tmp}/runall-$TIER-$p.out 2> ${TMPDIR:-/tmp}/runall-$TIER-$p.err; rc=$?
  e=$(date +%s)
  echo "$p exit=$rc $((e-s))s $(grep -c '^VIOLATION' ${TMPDIR:-/tmp}/runall-$TIER-$p.out) viol $(grep -c '^KNOWN' ${TMPDIR:-/tmp}/runall-$TIER-$p.out) known | $(grep '^\[C' ${TMPDIR:-/tmp}/runall-$TIER-$p.err | cut -c1-110)"
done
