"""Process environment for every check: must be imported before numpy / darsia.

Each run is a pure function of (working tree of the repository, VERIF_SEED, tier).
"""
import os
import sys

VERIF = os.path.dirname(os.path.dirname(os.path.abspath(__file__)))
REPO = os.environ.get("VF_REPO", "/repo")
SRC = os.path.join(REPO, "src")

_ENV = {
    "PYTHONDONTWRITEBYTECODE": "1",
    "MPLBACKEND": "Agg",
    "OMP_NUM_THREADS": "1",
    "OPENBLAS_NUM_THREADS": "1",
    "MKL_NUM_THREADS": "1",
    "NUMBA_NUM_THREADS": "1",
    "NUMBA_CACHE_DIR": os.path.join(VERIF, ".cache", "numba"),
    "DARSIA_VERIF": "1",
}


def ensure_env():
    """Re-exec once so that PYTHONHASHSEED=0 and thread limits apply from interpreter start."""
    need = os.environ.get("PYTHONHASHSEED") != "0"
    for k, v in _ENV.items():
        if os.environ.get(k) != v:
            os.environ[k] = v
            need = True
    if need and os.environ.get("VF_REEXEC") != "1":
        os.environ["PYTHONHASHSEED"] = "0"
        os.environ["VF_REEXEC"] = "1"
        os.execv(sys.executable, [sys.executable, "-B"] + sys.argv)
    sys.dont_write_bytecode = True
    if SRC not in sys.path[:1]:
        sys.path.insert(0, SRC)
    if VERIF not in sys.path:
        sys.path.insert(1, VERIF)


def import_darsia():
    """Import darsia from the working tree under test and make sure that is what we got."""
    import warnings

    warnings.filterwarnings("ignore")
    import darsia  # noqa

    here = os.path.realpath(os.path.dirname(darsia.__file__))
    want = os.path.realpath(os.path.join(SRC, "darsia"))
    if here != want:
        raise RuntimeError(f"darsia imported from {here}, expected {want}")
    try:
        import cv2

        cv2.setNumThreads(1)
    except Exception:
        pass
    return darsia
