"""Shared generators / builders for the Wasserstein solver properties (C04, C05, C08, C16)."""
from __future__ import annotations

import itertools

import numpy as np
from hypothesis import strategies as st

L1_MODES = ["RAVIART_THOMAS", "CONSTANT_SUBCELL_PROJECTION", "CONSTANT_CELL_PROJECTION"]
MOBILITY_MODES = ["CELL_BASED", "CELL_BASED_ARITHMETIC", "CELL_BASED_HARMONIC", "SUBCELL_BASED",
                  "FACE_BASED"]


@st.composite
def grid_specs(draw, max_cells={1: 40, 2: 8, 3: 4}, dims=(1, 2, 3), min_cells=2, thin=True):
    dim = draw(st.sampled_from(list(dims)))
    while True:
        shape = []
        for _ in range(dim):
            if thin and draw(st.sampled_from([False, False, False, False, False, True])):
                shape.append(1)
            else:
                shape.append(draw(st.integers(2, max(2, max_cells[dim]))))
        if int(np.prod(shape)) >= min_cells:
            break
        shape[draw(st.integers(0, dim - 1))] = draw(st.integers(2, max_cells[dim]))
        if int(np.prod(shape)) >= min_cells:
            break
    vk = draw(st.sampled_from(["unit", "pow2", "generic"]))
    if vk == "unit":
        vox = [1.0] * dim
    elif vk == "pow2":
        vox = [float(2.0 ** draw(st.integers(-3, 3))) for _ in range(dim)]
    else:
        vox = [draw(st.sampled_from([0.3, 0.7, 1.3, 2.5, 0.05, 1.0 / 3.0])) for _ in range(dim)]
    return {"shape": shape, "vox": vox, "vk": vk}


@st.composite
def mass_specs(draw):
    return {"kind": draw(st.sampled_from(["dense", "sparse", "single", "dense", "sparse"])),
            "pseed": draw(st.integers(0, 2**20))}


def make_masses(shape, mass):
    """Equal-mass non-negative pair (sums exactly equal): integer-valued, optionally scaled by a
    power of two `2**amp_exp` (exact), e.g. distributions of small total mass."""
    a, b = _make_masses(shape, mass)
    e = mass.get("amp_exp", 0)
    if e:
        a, b = a * 2.0 ** e, b * 2.0 ** e
    return a, b


def _make_masses(shape, mass):
    rng = np.random.default_rng(mass["pseed"])
    n = int(np.prod(shape))
    kind = mass["kind"]
    if kind == "single" and n >= 2:
        a = np.zeros(shape)
        b = np.zeros(shape)
        m = float(rng.integers(1, 9))
        p, q = rng.choice(n, 2, replace=False)
        a[np.unravel_index(p, shape)] = m
        b[np.unravel_index(q, shape)] = m
        return a, b
    if kind == "sparse":
        a = np.zeros(shape)
        b = np.zeros(shape)
        for arr in (a, b):
            lo = [int(rng.integers(0, s)) for s in shape]
            hi = [int(rng.integers(l + 1, s + 1)) for l, s in zip(lo, shape)]
            sl = tuple(slice(l, h) for l, h in zip(lo, hi))
            arr[sl] = rng.integers(1, 9, size=arr[sl].shape)
    else:
        a = rng.integers(1, 17, size=shape).astype(float)
        b = rng.integers(1, 17, size=shape).astype(float)
    d = a.sum() - b.sum()
    if d > 0:
        nz = np.flatnonzero(b.ravel() > 0) if kind == "sparse" else np.arange(n)
        b.ravel()[nz[int(rng.integers(0, len(nz)))]] += d
    elif d < 0:
        nz = np.flatnonzero(a.ravel() > 0) if kind == "sparse" else np.arange(n)
        a.ravel()[nz[int(rng.integers(0, len(nz)))]] -= d
    assert a.sum() == b.sum()
    return a, b


def storage_dtype(a, b, dtype):
    """The numpy dtype in which the pair can be stored exactly, or float64 if `dtype` cannot hold it
    (non-integral values after scaling, entries beyond the integer range)."""
    if not dtype or dtype == "float64":
        return np.dtype(float)
    dt = np.dtype(dtype)
    for arr in (np.asarray(a, float), np.asarray(b, float)):
        if not np.array_equal(arr.astype(dt).astype(float), arr):
            return np.dtype(float)
    return dt


def make_images(grid, a, b, dtype=None):
    """The pair as scalar darsia images; `dtype` (e.g. 'uint8', 'int32', 'float32') is the storage type
    of the pixel data when it represents the values exactly (photographs are integer-typed)."""
    import darsia

    shape, vox = grid["shape"], grid["vox"]
    dims = [s * v for s, v in zip(shape, vox)]
    kw = dict(space_dim=len(shape), scalar=True)
    dt = storage_dtype(a, b, dtype)
    return (darsia.Image(np.array(a, dtype=float).astype(dt), dimensions=list(dims), **kw),
            darsia.Image(np.array(b, dtype=float).astype(dt), dimensions=list(dims), **kw))


def make_weight(grid, wspec):
    """None or a positive scalar cell-weight image."""
    import darsia

    if wspec is None:
        return None
    shape, vox = grid["shape"], grid["vox"]
    dims = [s * v for s, v in zip(shape, vox)]
    if wspec["kind"] == "const":
        arr = np.full(shape, float(wspec["value"]))
    else:
        rng = np.random.default_rng(wspec["pseed"])
        arr = rng.integers(2, 9, size=shape) / 4.0
    return darsia.Image(arr, dimensions=list(dims), space_dim=len(shape), scalar=True)


@st.composite
def weight_specs(draw):
    k = draw(st.sampled_from([None, None, "const", "var"]))
    if k is None:
        return None
    if k == "const":
        return {"kind": "const", "value": draw(st.sampled_from([0.5, 2.0, 4.0, 1.0]))}
    return {"kind": "var", "pseed": draw(st.integers(0, 2**16))}


@st.composite
def option_specs(draw, max_iter=12, solvers=("direct", "amg", "cg"),
                 formulations=("full", "flux_reduced", "pressure")):
    method = draw(st.sampled_from(["newton", "bregman", "bregman_adaptive"]))
    formulation = draw(st.sampled_from(list(formulations)))
    solver = "direct" if formulation == "full" else draw(st.sampled_from(list(solvers)))
    aa = draw(st.sampled_from([0, 0, 2, 5]))
    spec = {
        "method": method,
        "l1_mode": draw(st.sampled_from(L1_MODES)),
        "mobility_mode": draw(st.sampled_from(MOBILITY_MODES)),
        "formulation": formulation,
        "linear_solver": solver,
        "aa_depth": aa,
        "aa_restart": draw(st.sampled_from([None, 3, 5])) if aa else None,
        "num_iter": draw(st.integers(1, max_iter)),
        "tol": draw(st.sampled_from([None, None, 1e-3, 1e-6])),
        "L": draw(st.sampled_from([None, 1.0, 0.1, 10.0])),
        "update_every": draw(st.sampled_from([1, 2, 3])),
        # adaptive Bregman: the first re-assembly of the weights happens at iteration 0 or only later
        "update_phase": draw(st.sampled_from([0, 0, 1, 2])),
    }
    return spec


def _bregman_update(k, phase=0):
    """Update schedule of the adaptive Bregman method: every k-th iteration, starting at iteration
    `phase` (0: also at the very first iteration; k - 1: for the first time after k - 1 iterations)."""
    def f(it):
        return it % k == phase % k

    return f


def make_options(o):
    from darsia.measure.wasserstein import L1Mode, MobilityMode

    opts = {
        "l1_mode": getattr(L1Mode, o["l1_mode"]),
        "mobility_mode": getattr(MobilityMode, o["mobility_mode"]),
        "formulation": o["formulation"],
        "linear_solver": o["linear_solver"],
        "num_iter": o["num_iter"],
        "return_info": True,
        "verbose": False,
    }
    if o.get("aa_depth"):
        opts["aa_depth"] = o["aa_depth"]
        opts["aa_restart"] = o.get("aa_restart")
    if o.get("tol") is not None:
        opts["tol_residual"] = o["tol"]
        opts["tol_increment"] = o["tol"]
        opts["tol_distance"] = o["tol"]
    for name, val in (o.get("tols") or {}).items():  # independent tolerances override the common one
        if val is not None:
            opts["tol_" + name] = val
        else:
            opts.pop("tol_" + name, None)
    if o.get("L") is not None:
        opts["L"] = o["L"]
    if o["method"] == "bregman_adaptive":
        opts["bregman_update"] = _bregman_update(o.get("update_every", 1), o.get("update_phase", 0))
    if o["linear_solver"] in ("amg", "cg") and o.get("lso", "tight") == "tight":
        opts["linear_solver_options"] = {"atol": 1e-12, "rtol": 1e-12, "maxiter": 400}
    if o.get("homogeneous") and o["method"] == "bregman_adaptive":
        opts["bregman_homogeneous"] = True
    return opts


def make_solver(grid, o, weight=None, extra=None):
    import darsia

    if grid.get("via_image"):
        # the grid of the images themselves, as the unified entry point builds it
        shape = grid["shape"]
        dims = [n * v for n, v in zip(shape, grid["vox"])]
        g = darsia.generate_grid(darsia.Image(np.zeros(shape), dimensions=dims, space_dim=len(shape), scalar=True))
    else:
        g = darsia.Grid(shape=tuple(grid["shape"]), voxel_size=list(grid["vox"]))
    opts = make_options(o)
    if extra:
        opts.update(extra)
    cls = darsia.WassersteinDistanceNewton if o["method"] == "newton" else darsia.WassersteinDistanceBregman
    return cls(g, weight, opts), g


def capture_solve(w1):
    """Wrap the bound _solve so that (distance, flat solution, info) can be read afterwards."""
    cap = {}
    orig = w1._solve

    def wrapped(rhs):
        out = orig(rhs)
        cap["distance"], cap["solution"], cap["info"] = out[0], np.array(out[1], copy=True), out[2]
        return out

    w1._solve = wrapped
    cap["linmax"] = 0.0
    orig_ls = w1.linear_solve

    def ls(matrix, rhs, *a, **k):
        out = orig_ls(matrix, rhs, *a, **k)
        # a stand-alone AMG solve that used up its cycles without reaching its tolerance says nothing
        hist_ = getattr(w1, "amg_residual_history", None)
        so_ = getattr(w1, "solver_options", None) or {}
        if getattr(w1, "linear_solver_type", "") == "amg" and hist_ and "maxiter" in so_ and len(hist_) - 1 >= so_["maxiter"]:
            cap["amg_unconverged"] = True
        if "first_solution" not in cap:
            # the initial Darcy solve (unit mobility): never affected by degenerate face weights
            cap["first_solution"] = np.array(out[0], copy=True)
        try:
            m = max(float(np.abs(rhs).max()), float(np.abs(out[0]).max()))
            if np.isfinite(m):
                cap["linmax"] = max(cap["linmax"], m)
        except Exception:  # noqa
            pass
        return out

    w1.linear_solve = ls
    return cap


def watch_mobility(w1, tags, key="degenerate_mobility", limit=1e12):
    """Record (in the mutable `tags` dict) whether the solver ever computed a non-finite or huge
    (> limit) mobility face weight, i.e. divided by a (near-)zero flux norm.  This is the root
    cause of one known finding; it is observed by wrapping the bound method on the instance."""
    orig = getattr(w1, "_compute_face_weight", None)
    if orig is None:
        return

    def wrapped(flat_flux):
        out = orig(flat_flux)
        try:
            fw = np.asarray(out[0], dtype=float)
            if fw.size and (not np.all(np.isfinite(fw)) or np.abs(fw).max() > limit):
                tags[key] = True
            # scale-free companion: largest ratio of face weights seen in one evaluation (a face whose
            # flux is rounding noise next to the others has weight 1/noise or 1/cut-off)
            if fw.size:
                with np.errstate(all="ignore"):
                    lo, hi = np.abs(fw).min(), np.abs(fw).max()
                    ratio = float(hi / lo) if lo > 0 and np.isfinite(hi) else 1e300
                tags["mobility_contrast"] = max(tags.get("mobility_contrast", 1.0), ratio)
                if ratio > 1e9:
                    # the same situation seen scale-free: a face whose flux is 1e-9 of the others' is at
                    # the noise level of the linear solves that produced it
                    tags[key] = True
        except Exception:  # noqa
            pass
        return out

    w1._compute_face_weight = wrapped


def anderson_at_noise_floor(o, info):
    """True if an Anderson-accelerated run reached the rounding level (an increment of its history at or
    below 1e-13 of the largest one) and kept iterating: the least-squares problem of the mixing is then
    numerically singular (differences of iterates that agree to the last bits)."""
    if not o.get("aa_depth"):
        return False
    hist = (info or {}).get("convergence_history") or {}
    inc = np.asarray(hist.get("flux_increment" if o["method"] == "newton" else "aux_force_increment", []), dtype=float)
    inc = inc[np.isfinite(inc)]
    if len(inc) < 3:
        return False
    k = int(np.argmin(inc))
    return bool(inc.max() > 0 and inc[k] <= 1e-13 * inc.max() and k < len(inc) - 1)


class InjectedFault(RuntimeError):
    pass


class CustomFault(Exception):
    """An exception type of the caller's own (not derived from RuntimeError / ValueError)."""


FAULT_TYPES = {
    "runtime": None,  # InjectedFault (a RuntimeError)
    "memory": MemoryError,
    "custom": CustomFault,
    "floating": FloatingPointError,
    "linalg": np.linalg.LinAlgError,
    "type": TypeError,
}


def inject_fault(w1, at_call, point="linear_solve", exc="runtime", sticky=False):
    """One-shot (or, with `sticky`, persistent from then on) exception in the `at_call`-th call (counted
    from 0) of an inner step of the solver:
    the linear solve (call 0 = initial Darcy solve, outside the iteration), the mobility / face-weight
    computation, the Anderson mixing or the evaluation of the cost.  Bound methods are wrapped on the
    instance; no source hook."""
    state = {"n": 0, "fired": False, "point": point}

    def guard(orig):
        def wrapped(*a, **k):
            i = state["n"]
            state["n"] += 1
            if (i == at_call and not state["fired"]) or (sticky and i > at_call):
                state["fired"] = True
                cls = FAULT_TYPES.get(exc) or InjectedFault
                raise cls(f"injected failure of {point} call {i}")
            return orig(*a, **k)
        return wrapped

    if point == "linear_solve":
        w1.linear_solve = guard(w1.linear_solve)
    elif point == "face_weight":
        w1._compute_face_weight = guard(w1._compute_face_weight)
    elif point == "dissipation":
        w1.l1_dissipation = guard(w1.l1_dissipation)
    elif point == "anderson":
        if getattr(w1, "anderson", None) is None:
            state["unavailable"] = True
        else:
            w1.anderson = guard(w1.anderson)
    else:
        raise ValueError(point)
    return state


def ref_quadrature(dim, l1_mode):
    """Independent quadrature on the unit cell for each L1 mode (numpy Gauss-Legendre tensor
    rule with the 'max' number of points the library documents, corners, or the midpoint)."""
    if l1_mode == "CONSTANT_CELL_PROJECTION":
        return np.full((1, dim), 0.5), np.array([1.0])
    if l1_mode == "CONSTANT_SUBCELL_PROJECTION":
        pts = np.array(list(itertools.product((0.0, 1.0), repeat=dim)))
        return pts, np.full(len(pts), 0.5**dim)
    n = {1: 5, 2: 4, 3: 3}[dim]
    x, w = np.polynomial.legendre.leggauss(n)
    x = (x + 1) / 2
    w = w / 2
    pts = np.array(list(itertools.product(x, repeat=dim)))
    wts = np.array([np.prod(c) for c in itertools.product(w, repeat=dim)])
    return pts, wts


def ref_cell_flux(refgrid, flat_flux):
    """Cell-centre reconstruction of a face flux with the harness's own bookkeeping: per axis the mean
    of the fluxes through the lower and the upper face of the cell (0 on the boundary)."""
    dim, shape = refgrid.dim, refgrid.shape
    out = np.zeros((*shape, dim))
    for idx in np.ndindex(*shape):
        for d in range(dim):
            l = list(idx)
            l[d] -= 1
            f_lo = refgrid.face_of(d, tuple(l))
            f_hi = refgrid.face_of(d, idx)
            out[idx + (d,)] = 0.5 * ((flat_flux[f_lo] if f_lo >= 0 else 0.0) + (flat_flux[f_hi] if f_hi >= 0 else 0.0))
    return out


def ref_cost(refgrid, flat_flux, l1_mode, cell_weights=None):
    """Transport cost of a face flux: sum over cells of vol * quadrature of |w * RT0(u)|,
    evaluated with the harness's own RT0 interpolation (RefGrid) and quadrature."""
    dim = refgrid.dim
    shape = refgrid.shape
    pts, wts = ref_quadrature(dim, l1_mode)
    lo = np.zeros((*shape, dim))
    hi = np.zeros((*shape, dim))
    for idx in np.ndindex(*shape):
        for d in range(dim):
            l = list(idx)
            l[d] -= 1
            f_lo = refgrid.face_of(d, tuple(l))
            f_hi = refgrid.face_of(d, idx)
            lo[idx + (d,)] = flat_flux[f_lo] if f_lo >= 0 else 0.0
            hi[idx + (d,)] = flat_flux[f_hi] if f_hi >= 0 else 0.0
    dens = np.zeros(shape)
    for p, w in zip(pts, wts):
        v = (1 - p) * lo + p * hi
        if cell_weights is not None:
            v = v * cell_weights[..., None]
        dens += w * np.linalg.norm(v, axis=-1)
    return float(dens.sum() * refgrid.vol), dens
