"""Shared Hypothesis strategies.  Every strategy yields JSON-able *specs*; ``build_*`` turns a
spec into the real object (deterministically), so a replay file is enough to rebuild a case."""
from __future__ import annotations

import datetime as _dt

import numpy as np
from hypothesis import strategies as st

DTYPES = ["float64", "float32", "uint8", "uint16", "bool"]


@st.composite
def voxel_sizes(draw, dim, kind=None):
    kind = kind or draw(st.sampled_from(["pow2", "generic", "unit"]))
    if kind == "unit":
        return [1.0] * dim
    if kind == "pow2":
        return [float(2.0 ** draw(st.integers(-13, 13))) for _ in range(dim)]
    return [draw(st.floats(1e-4, 1e4, allow_nan=False, allow_infinity=False)) for _ in range(dim)]


@st.composite
def shapes(draw, dim, max_extent, min_extent=1, thin_boost=True):
    out = []
    for _ in range(dim):
        if thin_boost and min_extent <= 1 and draw(st.integers(0, 5)) == 0:
            out.append(1)
        else:
            out.append(draw(st.integers(min_extent, max_extent)))
    return out


@st.composite
def image_specs(
    draw,
    dims=(1, 2, 3),
    max_extent={1: 40, 2: 9, 3: 5},
    min_extent=1,
    dtypes=("float64",),
    payloads=("scalar", "vector"),
    series=(False, True),
    times=("none", "date", "time", "both"),
    origin_kinds=("default", "user"),
    vox_kinds=("pow2", "generic", "unit"),
    max_nt=4,
    max_comp=3,
):
    dim = draw(st.sampled_from(list(dims)))
    shape = draw(shapes(dim, max_extent[dim], min_extent))
    vox = draw(voxel_sizes(dim, draw(st.sampled_from(list(vox_kinds)))))
    dimensions = [shape[i] * vox[i] for i in range(dim)]
    okind = draw(st.sampled_from(list(origin_kinds)))
    origin = None
    if okind == "user":
        from .oracles import AXES

        origin = []
        for c in range(dim):
            k = draw(st.one_of(st.integers(-20, 20), st.integers(-10**6, 10**6)))
            frac = draw(st.sampled_from([0.0, 0.5, 0.25, 0.3]))
            # "up to 1e6 voxel sizes away", measured in the voxel size of that Cartesian axis
            origin.append(float((k + frac) * vox[AXES[dim][c][0]]))
    payload = draw(st.sampled_from(list(payloads)))
    ncomp = draw(st.integers(1, max_comp)) if payload == "vector" else 0
    is_series = draw(st.sampled_from(list(series)))
    nt = draw(st.integers(1, max_nt)) if is_series else 0
    tkind = draw(st.sampled_from(list(times)))
    spec = {
        "dim": dim,
        "shape": shape,
        "dimensions": dimensions,
        "origin": origin,
        "payload": payload,
        "ncomp": ncomp,
        "series": bool(is_series),
        "nt": nt,
        "dtype": draw(st.sampled_from(list(dtypes))),
        "time": tkind,
        "t0": draw(st.integers(0, 5)),
        "dt": draw(st.integers(1, 4)),
        "pseed": draw(st.integers(0, 2**16)),
        "name": draw(st.sampled_from([None, "img", "a b"])),
    }
    return spec


def full_shape(spec):
    s = list(spec["shape"])
    if spec["series"]:
        s.append(spec["nt"])
    if spec["payload"] == "vector":
        s.append(spec["ncomp"])
    return s


def payload_array(shape, dtype, pseed, dyadic=True):
    """Deterministic payload from a Hypothesis-drawn seed.  dyadic=True: multiples of 1/8 in
    [-4, 4) so that sums / means over powers of two are exact."""
    rng = np.random.default_rng(pseed)
    if dtype == "bool":
        return rng.integers(0, 2, size=shape).astype(bool)
    if dtype == "uint8":
        return rng.integers(0, 256, size=shape).astype(np.uint8)
    if dtype == "uint16":
        return rng.integers(0, 65536, size=shape).astype(np.uint16)
    if dyadic:
        arr = rng.integers(-32, 32, size=shape) / 8.0
    else:
        arr = rng.random(size=shape)
    return arr.astype(dtype)


BASE_DATE = _dt.datetime(2023, 1, 2, 3, 4, 5)


def time_meta(spec):
    """-> dict of date/time keyword arguments for the image constructor."""
    kw = {}
    tk = spec["time"]
    n = spec["nt"] if spec["series"] else 1
    dates = [BASE_DATE + _dt.timedelta(seconds=60 * (spec["t0"] + i * spec["dt"])) for i in range(n)]
    times = [float(10 * (spec["t0"] + i * spec["dt"])) for i in range(n)]
    if tk in ("date", "both"):
        kw["date"] = dates if spec["series"] else dates[0]
    if tk in ("time", "both"):
        kw["time"] = times if spec["series"] else times[0]
    return kw


def image_kwargs(spec):
    kw = {
        "space_dim": spec["dim"],
        "dimensions": list(spec["dimensions"]),
        "series": spec["series"],
        "scalar": spec["payload"] == "scalar",
    }
    if spec["origin"] is not None:
        kw["origin"] = list(spec["origin"])
    if spec.get("name") is not None:
        kw["name"] = spec["name"]
    kw.update(time_meta(spec))
    return kw


def build_image(spec, cls=None, dyadic=True):
    import darsia

    arr = payload_array(full_shape(spec), spec["dtype"], spec["pseed"], dyadic)
    kw = image_kwargs(spec)
    if cls is None:
        cls = darsia.Image
    if cls is darsia.ScalarImage:
        kw.pop("scalar", None)
    return cls(arr, **kw)


def snapshot(img):
    """Deep snapshot of an image: never compares / hashes Image objects themselves."""
    import copy

    meta = {}
    for k, v in img.metadata().items():
        meta[k] = copy.deepcopy(np.asarray(v).tolist() if isinstance(v, np.ndarray) else v)
    return {"img": img.img.copy(), "dtype": str(img.img.dtype), "meta": meta}


def snapshot_equal(a, b):
    if a["dtype"] != b["dtype"] or a["img"].shape != b["img"].shape:
        return False, "array dtype/shape"
    if not np.array_equal(a["img"], b["img"], equal_nan=a["img"].dtype.kind == "f"):
        return False, "array values"
    if a["meta"].keys() != b["meta"].keys():
        return False, "metadata keys"
    for k in a["meta"]:
        if a["meta"][k] != b["meta"][k]:
            return False, f"metadata[{k}]: {a['meta'][k]!r} -> {b['meta'][k]!r}"
    return True, ""
