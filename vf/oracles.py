"""Reference models, written from the documented conventions and independent of the code
under test."""
from __future__ import annotations

import itertools

import numpy as np

# Cartesian axis c of a dim-dimensional image  ->  (matrix axis, orientation sign)
#   1-D: x = o + i h
#   2-D: x = ox + j hj ;  y = oy - i hi
#   3-D: x = ox + j hj ;  y = oy - k hk ;  z = oz - i hi
AXES = {
    1: [(0, +1)],
    2: [(1, +1), (0, -1)],
    3: [(1, +1), (2, -1), (0, -1)],
}


def default_origin(dim, dimensions):
    o = [0.0] * dim
    for c, (m, s) in enumerate(AXES[dim]):
        if s < 0:
            o[c] = dimensions[m]
    return o


class RefCS:
    """Reference affine voxel <-> coordinate map."""

    def __init__(self, dim, shape, dimensions, origin=None):
        self.dim = dim
        self.shape = [int(s) for s in shape[:dim]]
        self.dimensions = [float(d) for d in dimensions]
        self.h = [self.dimensions[m] / self.shape[m] for m in range(dim)]
        self.origin = np.array(
            default_origin(dim, self.dimensions) if origin is None else origin, dtype=float)

    def coordinate(self, v):
        v = np.asarray(v, dtype=float)
        v2 = np.atleast_2d(v)
        out = np.empty_like(v2, dtype=float)
        for c, (m, s) in enumerate(AXES[self.dim]):
            out[:, c] = self.origin[c] + s * v2[:, m] * self.h[m]
        return out.reshape(v.shape)

    def voxel_float(self, x):
        x = np.asarray(x, dtype=float)
        x2 = np.atleast_2d(x)
        out = np.empty_like(x2, dtype=float)
        for c, (m, s) in enumerate(AXES[self.dim]):
            out[:, m] = s * (x2[:, c] - self.origin[c]) / self.h[m]
        return out.reshape(x.shape)


class RefGrid:
    """Independent enumeration of cells / faces of a tensor grid (Fortran-ordered numbering:
    faces grouped by normal axis, within an axis numbered in Fortran order of the lower cell
    multi-index restricted to idx[d] < n_d - 1)."""

    def __init__(self, shape, voxel_size):
        self.shape = tuple(int(s) for s in shape)
        self.dim = len(self.shape)
        self.h = [float(v) for v in voxel_size]
        self.num_cells = int(np.prod(self.shape))
        self.cell_index = {}
        for n, idx in enumerate(self._fortran_iter(self.shape)):
            self.cell_index[idx] = n
        self.faces = []  # (axis, lower multi-index)
        self.faces_per_axis = []
        for d in range(self.dim):
            sub = list(self.shape)
            sub[d] -= 1
            start = len(self.faces)
            if sub[d] > 0:
                for idx in self._fortran_iter(tuple(sub)):
                    self.faces.append((d, idx))
            self.faces_per_axis.append(list(range(start, len(self.faces))))
        self.num_faces = len(self.faces)
        self.vol = float(np.prod(self.h))
        self.face_area = [self.vol / self.h[d] for d in range(self.dim)]

    @staticmethod
    def _fortran_iter(shape):
        if any(s <= 0 for s in shape):
            return
        for rev in itertools.product(*[range(s) for s in reversed(shape)]):
            yield tuple(reversed(rev))

    def connectivity(self):
        con = np.zeros((self.num_faces, 2), dtype=int)
        for f, (d, idx) in enumerate(self.faces):
            hi = list(idx)
            hi[d] += 1
            con[f] = (self.cell_index[idx], self.cell_index[tuple(hi)])
        return con

    def incidence(self):
        """num_cells x num_faces, +1 for the lower cell (outflow), -1 for the higher cell."""
        inc = np.zeros((self.num_cells, self.num_faces))
        for f, (lo, hi) in enumerate(self.connectivity()):
            inc[lo, f] = 1.0
            inc[hi, f] = -1.0
        return inc

    def divergence(self):
        div = self.incidence()
        for f, (d, _) in enumerate(self.faces):
            div[:, f] *= self.face_area[d]
        return div

    def face_of(self, d, idx):
        """Face number with normal axis d and lower cell idx, or -1."""
        if idx[d] < 0 or idx[d] >= self.shape[d] - 1:
            return -1
        if any(i < 0 or i >= n for i, n in zip(idx, self.shape)):
            return -1
        sub = list(self.shape)
        sub[d] -= 1
        n = 0
        mult = 1
        for a in range(self.dim):
            n += idx[a] * mult
            mult *= sub[a]
        return self.faces_per_axis[d][0] + n
