"""Runner: seeds, Hypothesis settings, sharding over forked workers, exception bucketing,
known-finding handling, replay files and the evidence writer.

A *sub-check* is one executable law over generated cases:

    Sub(name, check, gen=..., n={"quick": N, "thorough": M})          Hypothesis-driven
    Sub(name, check, enum=..., exhaustive=True)                        enumerated domain

``check(case)`` receives a JSON-able dict and either returns an ``Outcome`` or raises
``Violation(kind, message, tags)``.  Any other exception that passes through a frame of the
code under test is a *crash* of the code on an input the generator vouches for and is
reported as a violation of kind ``crash:<Type>@<file>:<function>``; an exception that never
entered the code under test is a harness error (exit code 2, never a VIOLATION line).
"""
from __future__ import annotations

import contextlib
import hashlib
import io
import json
import os
import sys
import time
import traceback
from collections import Counter
from dataclasses import dataclass, field
from typing import Any, Callable, Optional

from . import env

# ---------------------------------------------------------------------------------------
# public types
# ---------------------------------------------------------------------------------------


class Violation(Exception):
    def __init__(self, kind: str, message: str = "", tags: Optional[dict] = None):
        super().__init__(f"{kind}: {message}")
        self.kind = kind
        self.message = message
        self.tags = dict(tags or {})


class HarnessError(Exception):
    pass


@dataclass
class Outcome:
    nontrivial: bool = True
    key: Any = None  # what makes the case distinct (JSON-able); None -> hash of the case
    labels: tuple = ()
    status: str = "ok"  # ok | rejected | skipped
    evals: int = 1  # number of elementary oracle evaluations inside the case


@dataclass
class Sub:
    name: str
    check: Callable[[dict], Outcome]
    gen: Optional[Callable[[str], Any]] = None  # tier -> hypothesis strategy of case dicts
    enum: Optional[Callable[[str], list]] = None  # tier -> list of case dicts
    n: dict = field(default_factory=lambda: {"quick": 200, "thorough": 4000})
    shards: dict = field(default_factory=lambda: {"quick": 4, "thorough": 16})
    exhaustive: bool = False
    rule: str = ""
    budget_s: dict = field(default_factory=lambda: {"quick": 150.0, "thorough": 1500.0})


@dataclass
class Prop:
    pid: str
    subs: list
    rule: str
    assumptions: list = field(default_factory=list)
    level: str = "exploration"


# ---------------------------------------------------------------------------------------
# helpers
# ---------------------------------------------------------------------------------------


def jhash(obj) -> str:
    return hashlib.sha1(json.dumps(obj, sort_keys=True, default=str).encode()).hexdigest()[:16]


@contextlib.contextmanager
def quiet():
    """Swallow the library's prints so stdout carries only VIOLATION / KNOWN-FINDING lines."""
    buf = io.StringIO()
    with contextlib.redirect_stdout(buf):
        yield buf


def _classify_exception(e: BaseException):
    """-> ("crash", kind, msg) if the exception passed through the code under test,
    ("harness", msg) otherwise."""
    tb = traceback.extract_tb(e.__traceback__)
    src = os.path.realpath(env.SRC)
    repo_frames = [f for f in tb if os.path.realpath(f.filename).startswith(src)]
    if repo_frames:
        f = repo_frames[-1]
        rel = os.path.relpath(os.path.realpath(f.filename), src)
        kind = f"crash:{type(e).__name__}@{rel}:{f.name}"
        return "crash", kind, f"{type(e).__name__}: {e} (at {rel}:{f.lineno} in {f.name})"
    return "harness", "".join(traceback.format_exception(type(e), e, e.__traceback__))


def load_known():
    path = os.path.join(env.VERIF, "known_findings.json")
    if not os.path.exists(path):
        return {"open": [], "fixed": []}
    with open(path) as fh:
        known = json.load(fh)
    # maintenance aid: VF_IGNORE_KNOWN=id1,id2 runs as if those open entries did not exist, which yields a
    # freshly shrunk input for an entry whose recorded minimal case stopped failing (never set by the
    # registered commands)
    skip = {x for x in os.environ.get("VF_IGNORE_KNOWN", "").split(",") if x}
    if skip:
        known["open"] = [e for e in known.get("open", []) if e.get("id") not in skip]
    return known


def match_known(open_entries, pid, sub, viol: Violation):
    for ent in open_entries:
        if ent.get("property") != pid:
            continue
        subs = ent.get("subs") or [ent.get("sub")]
        if "*" not in subs and sub not in subs:
            continue
        kinds = ent.get("kinds") or ([ent["kind"]] if ent.get("kind") else [])
        if kinds and not any(viol.kind.startswith(k) for k in kinds):
            continue
        if all((viol.tags.get(a) in b) if isinstance(b, list) else (viol.tags.get(a) == b)
               for a, b in (ent.get("match") or {}).items()):
            return ent
    return None


# ---------------------------------------------------------------------------------------
# running one case
# ---------------------------------------------------------------------------------------


class _Fail(Exception):
    """Raised inside the Hypothesis test so that Hypothesis shrinks the case."""


# Shared (anonymous, inherited over fork) buffer in which a task process notes the case it is about to
# evaluate: if the process is killed inside compiled code (SIGSEGV from a malformed sparse matrix, an
# abort in a C extension) the parent still knows which input did it.
_NOTE = None
_NOTE_SIZE = 1 << 20


def _note_current(sub_name, case, origin=None):
    if _NOTE is None:
        return
    try:
        blob = json.dumps({"sub": sub_name, "case": case, "origin": origin}, default=str).encode()
    except Exception:  # noqa
        return
    if len(blob) + 8 > _NOTE_SIZE:
        blob = json.dumps({"sub": sub_name, "case": None, "origin": origin}).encode()
    _NOTE.seek(0)
    _NOTE.write(len(blob).to_bytes(8, "little") + blob)


def _read_note(buf):
    try:
        buf.seek(0)
        n = int.from_bytes(buf.read(8), "little")
        if n <= 0 or n + 8 > _NOTE_SIZE:
            return None
        return json.loads(buf.read(n).decode())
    except Exception:  # noqa
        return None


def run_isolated(jobs_list, max_parallel, timeout_s):
    """Run callables, each in its own forked process, at most `max_parallel` at a time.

    Returns a list of ("ok", result) | ("died", exitcode, note) | ("timeout", note) in job order.  Unlike
    multiprocessing.Pool, a child that is killed by a signal does not hang the run."""
    import mmap
    import multiprocessing as mp
    from multiprocessing.connection import wait

    global _NOTE
    ctx = mp.get_context("fork")
    results = [None] * len(jobs_list)
    pending = list(range(len(jobs_list)))
    running = {}

    def child(fn, conn, buf):
        global _NOTE
        _NOTE = buf
        try:
            out = ("ok", fn())
        except BaseException as e:  # noqa
            out = ("exc", "".join(traceback.format_exception(type(e), e, e.__traceback__)))
        try:
            conn.send(out)
            conn.close()
            sys.stdout.flush()
            sys.stderr.flush()
        finally:
            os._exit(0)

    while pending or running:
        while pending and len(running) < max_parallel:
            i = pending.pop(0)
            buf = mmap.mmap(-1, _NOTE_SIZE)
            buf.write((0).to_bytes(8, "little"))
            rd, wr = ctx.Pipe(duplex=False)
            p = ctx.Process(target=child, args=(jobs_list[i], wr, buf), daemon=True)
            p.start()
            wr.close()
            running[rd] = (i, p, buf, time.time())
        ready = wait(list(running), timeout=5.0)
        for rd in ready:
            i, p, buf, _t = running.pop(rd)
            try:
                msg = rd.recv()
            except (EOFError, OSError):
                msg = None
            rd.close()
            p.join(30)
            if msg is None:
                results[i] = ("died", p.exitcode, _read_note(buf))
            elif msg[0] == "ok":
                results[i] = msg
            else:
                results[i] = ("exc", msg[1])
            buf.close()
        now = time.time()
        for rd in [r for r, v in running.items() if now - v[3] > timeout_s]:
            i, p, buf, _t = running.pop(rd)
            note = _read_note(buf)
            p.kill()
            p.join(30)
            rd.close()
            buf.close()
            results[i] = ("timeout", note)
    return results


def _signal_name(exitcode):
    import signal

    if exitcode is not None and exitcode < 0:
        try:
            return signal.Signals(-exitcode).name
        except ValueError:
            return f"signal {-exitcode}"
    return f"exit status {exitcode}"


class _Acc:
    """Accumulator of one task (sub-check x shard)."""

    def __init__(self, pid, sub, open_entries):
        self.pid, self.sub, self.open = pid, sub, open_entries
        self.evals = 0
        self.cases = 0
        self.keys = set()
        self.labels = Counter()
        self.samples = []
        self.rejected = 0
        self.skipped = 0
        self.known = Counter()
        self.harness = []
        self.done_kinds = set()  # kinds already reported in an earlier round
        self.target_kind = None  # the kind being shrunk in this round
        self.other_kinds = {}
        self.last_fail = None
        self.inconclusive = False
        self.t0 = time.time()

    def run(self, case, budget=None, counting=True):
        """Run one case.  Returns None if fine, or a Violation that is not a known finding."""
        if budget is not None and time.time() - self.t0 > budget:
            self.inconclusive = True
            return None
        _note_current(self.sub.name, case, getattr(self, "origin", None))
        try:
            with quiet():
                out = self.sub.check(case)
        except Violation as v:
            viol = v
        except HarnessError as e:
            self.harness.append(str(e))
            return None
        except Exception as e:  # noqa
            if type(e).__module__.startswith("hypothesis"):
                raise
            c = _classify_exception(e)
            if c[0] == "harness":
                self.harness.append(c[1])
                return None
            viol = Violation(c[1], c[2], getattr(e, "vf_tags", None))
        else:
            if counting:
                self.cases += 1
                self.evals += max(1, int(out.evals))
                if out.status == "rejected":
                    self.rejected += 1
                elif out.status == "skipped":
                    self.skipped += 1
                for lab in out.labels:
                    self.labels[lab] += 1
                if out.nontrivial and out.status == "ok":
                    k = jhash(out.key if out.key is not None else case)
                    if k not in self.keys:
                        self.keys.add(k)
                        if len(self.samples) < 3:
                            self.samples.append(case)
            return None
        if counting:
            self.cases += 1
            self.evals += 1
        ent = match_known(self.open, self.pid, self.sub.name, viol)
        if ent is not None:
            self.known[ent["id"]] += 1
            return None
        return viol


def _hyp_settings(n):
    from hypothesis import HealthCheck, Phase, settings

    return settings(
        max_examples=n,
        database=None,
        deadline=None,
        derandomize=False,
        report_multiple_bugs=False,
        print_blob=False,
        suppress_health_check=[HealthCheck.too_slow, HealthCheck.data_too_large],
        phases=[Phase.generate, Phase.shrink],
    )


def run_task(pid, sub: Sub, tier, seed, shard, nshards, open_entries):
    """Executed inside a forked worker.  Returns a JSON-able partial result."""
    acc = _Acc(pid, sub, open_entries)
    budget = sub.budget_s.get(tier, 600.0)
    violations = []
    try:
        if sub.enum is not None:
            cases = sub.enum(tier)
            for idx in range(shard, len(cases), nshards):
                v = acc.run(cases[idx], budget)
                if v is not None and v.kind not in acc.done_kinds:
                    acc.done_kinds.add(v.kind)
                    violations.append(
                        {"kind": v.kind, "message": v.message, "tags": v.tags, "case": cases[idx]}
                    )
        else:
            import hypothesis
            from hypothesis import given

            n = max(1, sub.n[tier] // nshards)
            strat = sub.gen(tier)
            for _round in range(4):
                acc.target_kind = None
                acc.last_fail = None
                acc.counting = _round == 0

                def body(case):
                    v = acc.run(case, budget, counting=acc.counting)
                    if v is None or v.kind in acc.done_kinds:
                        return
                    if acc.target_kind is None:
                        acc.target_kind = v.kind
                    if v.kind != acc.target_kind:
                        acc.other_kinds.setdefault(v.kind, case)
                        return
                    acc.last_fail = (v, case)
                    raise _Fail(v.kind)

                sub_salt = int(jhash([pid, sub.name]), 16) % 100003
                test = hypothesis.seed(seed * 1000003 + shard * 7919 + _round + sub_salt * 31)(
                    _hyp_settings(n)(given(strat)(body))
                )
                try:
                    test()
                except _Fail:
                    v, case = acc.last_fail
                    violations.append(
                        {"kind": v.kind, "message": v.message, "tags": v.tags, "case": case}
                    )
                    acc.done_kinds.add(v.kind)
                    continue
                except hypothesis.errors.FailedHealthCheck as e:
                    acc.harness.append(f"health check: {e}")
                except hypothesis.errors.Flaky as e:  # same case passed on re-run
                    if acc.last_fail is not None:
                        # budget ran out while shrinking (later cases return early): report the
                        # smallest failing case seen so far under its own kind
                        v, case = acc.last_fail
                        suffix = "" if acc.inconclusive else ":flaky"
                        violations.append(
                            {"kind": v.kind + suffix, "message": v.message, "tags": v.tags,
                             "case": case}
                        )
                        acc.done_kinds.add(v.kind)
                        if acc.inconclusive:
                            break
                        continue
                    else:
                        acc.harness.append(f"flaky: {e}")
                break
    except Exception as e:  # noqa
        acc.harness.append("".join(traceback.format_exception(type(e), e, e.__traceback__)))
    return {
        "sub": sub.name,
        "shard": shard,
        "cases": acc.cases,
        "evals": acc.evals,
        "keys": sorted(acc.keys),
        "labels": dict(acc.labels),
        "samples": acc.samples,
        "rejected": acc.rejected,
        "skipped": acc.skipped,
        "known": dict(acc.known),
        "harness": acc.harness[:3],
        "violations": violations,
        "inconclusive": acc.inconclusive,
        "wall": time.time() - acc.t0,
    }


# ---------------------------------------------------------------------------------------
# replay files
# ---------------------------------------------------------------------------------------


def replay_dir(pid):
    return os.path.join(env.VERIF, "replays", pid)


def write_replay(pid, sub, viol, seed, directory=None):
    d = directory or os.path.join(env.VERIF, "replays-found", pid)
    os.makedirs(d, exist_ok=True)
    name = f"{sub}-{jhash([viol['kind'], viol['case']])}.json"
    path = os.path.join(d, name)
    with open(path, "w") as fh:
        json.dump(
            {"property": pid, "sub": sub, "kind": viol["kind"], "message": viol["message"],
             "tags": viol.get("tags", {}), "case": viol["case"], "seed": seed},
            fh, indent=1, sort_keys=True, default=str,
        )
    return path


def run_single(prop: Prop, sub_name, case, origin=None):
    """Run one case directly (no Hypothesis).  Returns None or a violation dict."""
    sub = {s.name: s for s in prop.subs}[sub_name]
    acc = _Acc(prop.pid, sub, [])
    acc.origin = origin
    v = acc.run(case)
    if acc.harness:
        raise HarnessError(acc.harness[0])
    if v is None:
        return None
    return {"kind": v.kind, "message": v.message, "tags": v.tags, "case": case}


# ---------------------------------------------------------------------------------------
# driver
# ---------------------------------------------------------------------------------------


def _worker(args):
    (pid, sub_idx, tier, seed, shard, nshards, open_entries) = args
    prop = _PROP
    return run_task(pid, prop.subs[sub_idx], tier, seed, shard, nshards, open_entries)


_PROP: Optional[Prop] = None


def main_check(prop: Prop, tier: str, seed: int, only_subs=None, jobs=16):
    """Run all sub-checks of a property.  Returns the exit code."""
    global _PROP
    import multiprocessing as mp

    _PROP = prop
    t0 = time.time()
    known = load_known()
    open_entries = [e for e in known.get("open", []) if e.get("property") == prop.pid]
    out_lines = []
    violations = []
    harness = []

    # 1. replays of earlier shrunk failures (fixed defects, hand-written seeds) -- first, always
    n_replayed = 0
    rdir = replay_dir(prop.pid)
    replay_cases = []
    if os.path.isdir(rdir):
        for fn in sorted(os.listdir(rdir)):
            if fn.endswith(".json"):
                with open(os.path.join(rdir, fn)) as fh:
                    replay_cases.append((fn, json.load(fh)))

    tasks = []
    subs = [s for s in prop.subs if only_subs is None or s.name in only_subs]
    for s in subs:
        k = max(1, s.shards.get(tier, 4))
        si = prop.subs.index(s)
        for sh in range(k):
            tasks.append((prop.pid, si, tier, seed, sh, k, open_entries))

    # every task (one shard of one sub-check; the replays) runs in its own forked process
    timeout_s = float(os.environ.get("VF_TASK_TIMEOUT", "5400" if tier == "quick" else "28800"))
    job_fns = [lambda: _replay_worker((replay_cases, open_entries))] + [
        (lambda t=t: _worker(t)) for t in tasks]
    raw = run_isolated(job_fns, max(1, jobs), timeout_s)
    results = []
    rep = {"n": 0, "violations": [], "harness": []}
    for idx, r in enumerate(raw):
        what = "replays" if idx == 0 else f"{prop.subs[tasks[idx - 1][1]].name} shard {tasks[idx - 1][4]}"
        if r[0] == "ok":
            if idx == 0:
                rep = r[1]
            else:
                results.append(r[1])
        elif r[0] == "died":
            note = r[2]
            sig = _signal_name(r[1])
            if note and note.get("case") is not None:
                v = {"kind": f"crash:process-killed:{sig}", "tags": {},
                     "message": f"the process evaluating this case was killed ({sig}) inside the library or a "
                                f"compiled routine it called", "case": note["case"]}
                if note.get("origin"):
                    v["sub"] = note["sub"]
                    rep["violations"].append((note["origin"], v))
                else:
                    violations.append((note["sub"], v, None))
            else:
                harness.append(f"[{what}] task process died ({sig}) before evaluating a case")
        elif r[0] == "timeout":
            harness.append(f"[{what}] task exceeded {timeout_s:.0f} s and was stopped (inconclusive); last case: "
                           f"{json.dumps((r[1] or {}).get('case'), default=str)[:400]}")
        else:
            harness.append(f"[{what}] {r[1]}")
    n_replayed = rep["n"]
    harness += rep["harness"]
    for fn, v in rep["violations"]:
        violations.append((v.get("sub", "?"), v, os.path.join("replays", prop.pid, fn)))

    per_sub = {}
    for r in results:
        d = per_sub.setdefault(
            r["sub"],
            {"cases": 0, "evals": 0, "keys": set(), "labels": Counter(), "samples": [],
             "rejected": 0, "skipped": 0, "known": Counter(), "inconclusive": False, "wall": 0.0},
        )
        d["cases"] += r["cases"]
        d["evals"] += r["evals"]
        d["keys"].update(r["keys"])
        d["labels"].update(r["labels"])
        d["samples"] += r["samples"]
        d["rejected"] += r["rejected"]
        d["skipped"] += r["skipped"]
        d["known"].update(r["known"])
        d["inconclusive"] |= r["inconclusive"]
        d["wall"] = max(d["wall"], r["wall"])
        harness += [f"[{r['sub']}] {h}" for h in r["harness"]]
        for v in r["violations"]:
            violations.append((r["sub"], v, None))

    # de-duplicate violations by (sub, kind); keep the smallest case
    best = {}
    for sub, v, path in violations:
        k = (sub, v["kind"])
        size = len(json.dumps(v["case"], default=str))
        if k not in best or size < best[k][0]:
            best[k] = (size, sub, v, path)

    # 2. known findings: re-run the recorded minimal input; print the line only while it fails
    known_lines = []
    def _probe(ent):
        try:
            return ("v", run_single(prop, ent["sub"], ent["minimal_case"]))
        except HarnessError as e:
            return ("h", str(e))

    probes = run_isolated([(lambda e=e: _probe(e)) for e in open_entries], max(1, jobs), timeout_s)
    for ent, r in zip(open_entries, probes):
        still = None
        if r[0] == "ok" and r[1][0] == "v":
            still = r[1][1]
        elif r[0] == "ok":
            harness.append(f"[known {ent['id']}] {r[1][1]}")
        elif r[0] == "died":
            still = {"kind": "crash:process-killed"}
        else:
            harness.append(f"[known {ent['id']}] probe {r[0]}")
        if still is not None:
            known_lines.append(f"KNOWN-FINDING: property={prop.pid} {ent['id']}: {ent['what']}")

    viol_out = []
    for (sub, kind), (_sz, _s, v, path) in sorted(best.items()):
        if path is None:
            path = write_replay(prop.pid, sub, v, seed)
            path = os.path.relpath(path, env.VERIF)
        viol_out.append({"sub": sub, "kind": kind, "message": v["message"][:500], "replay": path})
        out_lines.append(f"VIOLATION property={prop.pid} replay={path}")
        out_lines.append(f"  # sub={sub} kind={kind} {v['message'][:300]}")

    evaluations = sum(d["evals"] for d in per_sub.values()) + n_replayed
    distinct = sum(len(d["keys"]) for d in per_sub.values())
    samples = []
    for name, d in per_sub.items():
        for c in d["samples"][:2]:
            samples.append({"sub": name, "case": c})
    exhaustive = all(s.exhaustive for s in subs) and not any(
        d["inconclusive"] for d in per_sub.values())
    evidence = {
        "property_id": prop.pid,
        "tier": tier,
        "seed": int(seed),
        "level": prop.level,
        "coverage": {
            "evaluations": int(evaluations),
            "distinct_nontrivial": int(distinct),
            "rule": prop.rule,
            "samples": samples[:24],
            "exhaustive": bool(exhaustive),
            "cases_generated": int(sum(d["cases"] for d in per_sub.values())),
            "replayed_regressions": int(n_replayed),
            "sub_checks": {
                name: {
                    "cases": d["cases"],
                    "oracle_evaluations": d["evals"],
                    "distinct_nontrivial": len(d["keys"]),
                    "rejected_by_code_as_documented": d["rejected"],
                    "skipped": d["skipped"],
                    "excluded_as_known_finding": dict(d["known"]),
                    "inconclusive_budget": d["inconclusive"],
                    "class_distribution": dict(sorted(d["labels"].items())),
                    "exhaustive": bool({s.name: s for s in prop.subs}[name].exhaustive),
                    "rule": {s.name: s for s in prop.subs}[name].rule,
                    "wall_s": round(d["wall"], 2),
                }
                for name, d in per_sub.items()
            },
            "known_findings_still_failing": known_lines,
            "violations": viol_out,
        },
        "assumptions": prop.assumptions,
        "wall_s": round(time.time() - t0, 2),
        "violations": len(viol_out),
    }
    if harness:
        evidence["coverage"]["harness_errors"] = harness[:5]
    os.makedirs(os.path.join(env.VERIF, "evidence"), exist_ok=True)
    if only_subs is None and not os.environ.get("VF_NO_EVIDENCE"):
        with open(os.path.join(env.VERIF, "evidence", f"{prop.pid}.json"), "w") as fh:
            json.dump(evidence, fh, indent=1, default=str)

    for ln in known_lines:
        print(ln)
    for ln in out_lines:
        print(ln)
    summary = (
        f"[{prop.pid}] tier={tier} seed={seed} cases={evidence['coverage']['cases_generated']} "
        f"evals={evaluations} distinct_nontrivial={distinct} violations={len(viol_out)} "
        f"known={len(known_lines)} wall={evidence['wall_s']}s"
    )
    print(summary, file=sys.stderr)
    for name, d in per_sub.items():
        print(
            f"   {name:34s} cases={d['cases']:7d} distinct={len(d['keys']):6d} rej={d['rejected']:5d} "
            f"known={sum(d['known'].values()):5d} {'INCONCLUSIVE' if d['inconclusive'] else ''} "
            f"{d['wall']:.1f}s",
            file=sys.stderr,
        )
    if viol_out:
        return 1
    if harness:
        for h in harness[:5]:
            print("HARNESS-ERROR " + h[:3000], file=sys.stderr)
        return 2
    return 0


def _replay_worker(arg):
    replay_cases, open_entries = arg
    prop = _PROP
    res = {"n": 0, "violations": [], "harness": []}
    for fn, rec in replay_cases:
        try:
            v = run_single(prop, rec["sub"], rec["case"], origin=fn)
        except HarnessError as e:
            res["harness"].append(f"[replay {fn}] {e}")
            continue
        except KeyError:
            res["harness"].append(f"[replay {fn}] unknown sub-check {rec.get('sub')}")
            continue
        res["n"] += 1
        if v is not None:
            viol = Violation(v["kind"], v["message"], v["tags"])
            if match_known(open_entries, prop.pid, rec["sub"], viol) is None:
                v["sub"] = rec["sub"]
                res["violations"].append((fn, v))
    return res
