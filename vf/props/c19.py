"""C19 - patching tiles an image exactly.

Every law is phrased on what ``darsia.Patches`` *advertises* (the patch images, ``rois``,
``relative_rois_without_overlap``, ``global_corners_voxels`` / ``_cartesian``,
``global_centers_voxels`` / ``_cartesian``) and is compared with the base image through numpy
indexing and the reference coordinate map ``RefCS`` - never through a re-implementation of the
patch-size arithmetic.
"""
import numpy as np
from hypothesis import strategies as st

import darsia
from vf.oracles import AXES, RefCS
from vf.runner import Outcome, Prop, Sub, Violation

EPS = np.finfo(float).eps
KTOL = 64  # one extraction level (see C02: ~10 eps*scale per level), generous head-room

H_DECIMAL = [0.05, 0.1, 0.3, 0.7, 1.0 / 3.0, 0.15, 0.6, 1.1]
D_GENERIC = [0.3, 0.7, 1.0 / 3.0, 1.0, 2.8, 1.5, 0.1, 2.1, 0.9]
OVERLAPS = [0.0, 0.0, 0.1, 0.25, 0.5, 1.0 / 3.0, 0.05, 0.2]

# ---------------------------------------------------------------------------------------
# generator
# ---------------------------------------------------------------------------------------


@st.composite
def cases(draw, max_extent=40):
    shape, npatch, dims, dkinds = [], [], [], []
    for ax in range(2):
        n = draw(st.integers(1, 6))
        mode = draw(st.sampled_from(["divisible", "any", "any"]))
        if mode == "divisible":
            N = n * draw(st.integers(1, max(1, max_extent // n)))
        else:
            N = draw(st.integers(1, max_extent))
        dk = draw(st.sampled_from(["pow2", "unit", "decimal-h", "decimal-h", "generic", "generic"]))
        if dk == "pow2":
            D = float(N * 2.0 ** draw(st.integers(-8, 8)))
        elif dk == "unit":
            D = float(N)
        elif dk == "decimal-h":
            D = N * draw(st.sampled_from(H_DECIMAL))
        else:
            D = draw(st.one_of(st.sampled_from(D_GENERIC),
                               st.floats(1e-3, 1e3, allow_nan=False, allow_infinity=False)))
        shape.append(N)
        npatch.append(n)
        dims.append(float(D))
        dkinds.append(dk)
    ov = draw(st.one_of(st.sampled_from(OVERLAPS), st.floats(0.0, 0.5, allow_nan=False)))
    origin = None
    if draw(st.booleans()):
        # user origin, up to 1e4 voxel sizes away, measured in the voxel size of that Cartesian axis
        origin = []
        for c in range(2):
            k = draw(st.one_of(st.integers(-20, 20), st.integers(-10**4, 10**4)))
            frac = draw(st.sampled_from([0.0, 0.5, 0.25, 0.3]))
            m = AXES[2][c][0]
            origin.append(float((k + frac) * dims[m] / shape[m]))
    payload = draw(st.sampled_from(["scalar", "scalar", "colour"]))
    cls = "Image"
    if payload == "scalar":
        cls = draw(st.sampled_from(["Image", "ScalarImage"]))
    else:
        cls = draw(st.sampled_from(["Image", "OpticalImage"]))
    return {
        "shape": shape, "np": npatch, "dims": dims, "dkind": dkinds, "ov": float(ov),
        "origin": origin, "payload": payload, "cls": cls,
        "dtype": draw(st.sampled_from(["float64", "uint8"])),
        "pseed": draw(st.integers(0, 2**16)),
        "np_as": draw(st.sampled_from(["list", "tuple"])),
    }


def gen(tier):
    return cases(40)


# ---------------------------------------------------------------------------------------
# set-up
# ---------------------------------------------------------------------------------------


def _payload(case, ids=False):
    N0, N1 = case["shape"]
    shp = (N0, N1) if case["payload"] == "scalar" else (N0, N1, 3)
    if ids:
        # every entry of the base array is unique: data identity tells which voxel it came from
        return np.arange(int(np.prod(shp)), dtype=np.float64).reshape(shp)
    rng = np.random.default_rng(case["pseed"])
    if case["dtype"] == "uint8":
        return rng.integers(0, 256, size=shp).astype(np.uint8)
    return (rng.integers(-32, 32, size=shp) / 8.0).astype(np.float64)


def _build(case, ids=False):
    arr = _payload(case, ids)
    kw = {"dimensions": [float(d) for d in case["dims"]]}
    if case["origin"] is not None:
        kw["origin"] = [float(o) for o in case["origin"]]
    if case["cls"] == "ScalarImage":
        img = darsia.ScalarImage(arr, space_dim=2, **kw)
    elif case["cls"] == "OpticalImage":
        img = darsia.OpticalImage(arr, color_space="RGB", **kw)
    else:
        img = darsia.Image(arr, space_dim=2, scalar=case["payload"] == "scalar", **kw)
    ref = RefCS(2, case["shape"], case["dims"], case["origin"])
    return img, arr.copy(), ref


def _patches(case, img):
    n = list(case["np"]) if case["np_as"] == "list" else tuple(case["np"])
    if case["ov"] == 0.0 and case["pseed"] % 2 == 0:
        return darsia.Patches(img, n)  # default overlap
    return darsia.Patches(img, n, rel_overlap=case["ov"])


def _divisible(case):
    return all(N % n == 0 for N, n in zip(case["shape"], case["np"]))


def _tags(case, **extra):
    t = {"divisible": _divisible(case), "overlap": case["ov"] > 0, "payload": case["payload"],
         "origin": "user" if case["origin"] is not None else "default"}
    t.update(extra)
    return t


def _ij(case):
    return [(i, j) for i in range(case["np"][0]) for j in range(case["np"][1])]


def _outcome(case, p, evals):
    N, n = case["shape"], case["np"]
    div = _divisible(case)
    pow2 = all(k in ("pow2", "unit") for k in case["dkind"])
    empty = any(0 in p.patches[i][j].img.shape[:2] for i, j in _ij(case))
    beyond = any(p.rois[i][j][d].stop > N[d] for i, j in _ij(case) for d in range(2))
    labels = ["divisible" if div else "not-divisible",
              "overlap" if case["ov"] > 0 else "no-overlap",
              "dims-pow2" if pow2 else "dims-generic",
              f"payload-{case['payload']}", f"cls-{case['cls']}", f"dtype-{case['dtype']}",
              "origin-user" if case["origin"] is not None else "origin-default",
              f"patches-{min(n[0] * n[1], 10) if n[0] * n[1] < 10 else '10+'}"]
    if empty:
        labels.append("has-empty-patch")
    if beyond:
        labels.append("roi-stop-beyond-border")
    if any(Nd < nd for Nd, nd in zip(N, n)):
        labels.append("fewer-voxels-than-patches")
    if any(k == "decimal-h" for k in case["dkind"]):
        labels.append("decimal-voxel-size")
    nontrivial = (not div) or case["ov"] > 0 or not pow2
    key = [N, n, case["dims"], case["ov"], case["origin"], case["payload"]]
    return Outcome(nontrivial, key, tuple(labels), evals=max(1, evals))


def _scale(ref):
    out = np.empty(2)
    for c, (m, s) in enumerate(AXES[2]):
        out[c] = abs(ref.origin[c]) + (ref.shape[m] + 1) * ref.h[m]
    return out


# ---------------------------------------------------------------------------------------
# 1. assemble() reproduces the base image
# ---------------------------------------------------------------------------------------


def check_assemble(case):
    img, arr, ref = _build(case)
    p = _patches(case, img)
    t = _tags(case)
    out = p.assemble()
    if out.img.shape != arr.shape:
        raise Violation("assemble-shape", f"assembled {out.img.shape}, base {arr.shape}", t)
    if out.img.dtype != arr.dtype:
        raise Violation("assemble-dtype", f"assembled dtype {out.img.dtype}, base {arr.dtype}", t)
    if not np.array_equal(out.img, arr):
        bad = np.argwhere(out.img != arr)[0].tolist()
        raise Violation("assemble-values", f"assembled image differs from the base at {bad}", t)
    if not np.array_equal(img.img, arr):
        raise Violation("assemble-base-changed", "assemble() changed the base image", t)
    # the assembled image sits where the base sits
    if not np.array_equal(np.asarray(out.origin, float), np.asarray(img.origin, float)) or \
            [float(d) for d in out.dimensions] != [float(d) for d in img.dimensions]:
        raise Violation("assemble-geometry", f"origin/dimensions {out.origin}/{out.dimensions} vs "
                        f"{img.origin}/{img.dimensions}", t)
    if type(out).__name__ != case["cls"]:
        raise Violation("assemble-class", f"{case['cls']} assembled to {type(out).__name__}", t)
    return _outcome(case, p, 1)


# ---------------------------------------------------------------------------------------
# 2. interiors tile the image
# ---------------------------------------------------------------------------------------


def check_tile(case):
    img, arr, ref = _build(case, ids=True)
    p = _patches(case, img)
    t = _tags(case)
    N0, N1 = case["shape"]
    nvals = arr.size
    # (a) by data identity: gather the interiors, every base entry must appear exactly once
    count = np.zeros(nvals, dtype=int)
    for i, j in _ij(case):
        rel = p.relative_rois_without_overlap[i][j]
        interior = p(i, j).img[rel]
        np.add.at(count, interior.astype(int).ravel(), 1)
    if np.any(count != 1):
        k = int(np.argmax(count != 1))
        vox = np.unravel_index(k, arr.shape)[:2]
        raise Violation("tile-gap" if count[k] == 0 else "tile-double-cover",
                        f"base voxel {tuple(int(x) for x in vox)} is covered {int(count[k])} times by the patch "
                        "interiors", t)
    # (b) by the advertised boxes: roi start + relative interior, clipped to the patch extent
    cover = np.zeros((N0, N1), dtype=int)
    for i, j in _ij(case):
        roi = p.rois[i][j]
        rel = p.relative_rois_without_overlap[i][j]
        ph, pw = p(i, j).img.shape[:2]
        rows = np.arange(ph)[rel[0]] + (roi[0].start or 0)
        cols = np.arange(pw)[rel[1]] + (roi[1].start or 0)
        if len(rows) and len(cols):
            if rows.max() >= N0 or cols.max() >= N1:
                raise Violation("tile-box-outside", f"patch ({i},{j}): interior box reaches voxel "
                                f"({rows.max()},{cols.max()}) outside the image", t)
            cover[np.ix_(rows, cols)] += 1
    if np.any(cover != 1):
        bad = np.argwhere(cover != 1)[0].tolist()
        raise Violation("tile-boxes", f"interior boxes (rois + relative_rois_without_overlap) cover "
                        f"voxel {bad} {int(cover[tuple(bad)])} times", t)
    return _outcome(case, p, len(_ij(case)))


# ---------------------------------------------------------------------------------------
# 2b. patches replaced through set_image, then re-assembled
# ---------------------------------------------------------------------------------------


def check_set_image(case):
    """Every patch is given new, patch-specific content with set_image; afterwards each patch holds
    exactly what was set for it, the base image is untouched, and assemble() is the mosaic of the
    interiors of the arrays that were set (each voxel from the patch whose interior contains it)."""
    img, arr, ref = _build(case)
    p = _patches(case, img)
    t = _tags(case)
    ids = _ij(case)
    new = {}
    for n, (i, j) in enumerate(ids):
        shp = p(i, j).img.shape
        block = (np.arange(int(np.prod(shp)), dtype=float).reshape(shp) % 97) / 8.0 + 16.0 * (n + 1)
        new[(i, j)] = block.astype(arr.dtype)
        p.set_image(new[(i, j)].copy(), i, j)
    for (i, j) in ids:
        if not np.array_equal(p(i, j).img, new[(i, j)]):
            raise Violation("set-image-overwritten", f"patch ({i},{j}) no longer holds the array that was set for it "
                            f"after the other patches were set", t)
    if not np.array_equal(img.img, arr):
        raise Violation("set-image-changes-base", "set_image changed the base image", t)
    out = p.assemble()
    want = np.zeros_like(arr)
    for (i, j) in ids:
        roi = p.rois[i][j]
        rel = p.relative_rois_without_overlap[i][j]
        ph, pw = new[(i, j)].shape[:2]
        rows = np.arange(ph)[rel[0]] + (roi[0].start or 0)
        cols = np.arange(pw)[rel[1]] + (roi[1].start or 0)
        if len(rows) and len(cols):
            want[np.ix_(rows, cols)] = new[(i, j)][rel]
    if out.img.shape != want.shape or not np.array_equal(out.img, want):
        raise Violation("set-image-assemble", "assemble() after set_image is not the mosaic of the interiors of the "
                        "arrays that were set", t)
    return _outcome(case, p, len(ids) + 1)


# ---------------------------------------------------------------------------------------
# 3. each patch is the sub-image at its advertised place
# ---------------------------------------------------------------------------------------


def check_subimage(case):
    img, arr, ref = _build(case)
    p = _patches(case, img)
    N = case["shape"]
    tol = KTOL * EPS * _scale(ref)
    n_eval = 0
    shp = np.asarray(p.global_corners_voxels).shape
    if shp != (case["np"][0], case["np"][1], 4, 2):
        raise Violation("corners-shape", f"global_corners_voxels has shape {shp}", _tags(case))
    for i, j in _ij(case):
        roi = p.rois[i][j]
        patch = p(i, j)
        beyond = any(roi[d].stop > N[d] for d in range(2))
        t = _tags(case, beyond=beyond)
        sfx = ":stop-beyond" if beyond else ""
        # data: numpy semantics of the advertised roi
        want = arr[roi[0], roi[1]]
        if patch.img.shape != want.shape or not np.array_equal(patch.img, want):
            raise Violation("patch-data", f"patch ({i},{j}) (shape {patch.img.shape}) is not the "
                            f"base at rois[{i}][{j}] = {roi} (shape {want.shape})", t)
        if patch.img.dtype != arr.dtype or type(patch).__name__ != case["cls"]:
            raise Violation("patch-type", f"patch ({i},{j}): dtype {patch.img.dtype}, class "
                            f"{type(patch).__name__}", t)
        # same as a fresh subregion() call
        sub = img.subregion(roi)
        if not np.array_equal(sub.img, patch.img) or \
                not np.array_equal(np.asarray(sub.origin, float), np.asarray(patch.origin, float)) or \
                [float(d) for d in sub.dimensions] != [float(d) for d in patch.dimensions]:
            raise Violation("patch-vs-subregion", f"patch ({i},{j}) differs from base.subregion(rois[{i}][{j}])", t)
        # the interior is the base at the advertised voxel corners (TL, BL, BR, TR)
        gc = np.asarray(p.global_corners_voxels[i, j])
        interior = patch.img[p.relative_rois_without_overlap[i][j]]
        want_int = arr[gc[0, 0]:gc[1, 0], gc[0, 1]:gc[3, 1]]
        if not (gc[0, 1] == gc[1, 1] and gc[2, 1] == gc[3, 1] and gc[0, 0] == gc[3, 0] and gc[1, 0] == gc[2, 0]):
            raise Violation("corners-not-a-box", f"patch ({i},{j}): voxel corners {gc.tolist()} are "
                            "not ordered top-left, bottom-left, bottom-right, top-right", t)
        if interior.shape != want_int.shape or not np.array_equal(interior, want_int):
            raise Violation("patch-interior", f"patch ({i},{j}): interior (shape {interior.shape}) is "
                            f"not the base between the advertised voxel corners {gc.tolist()} "
                            f"(shape {want_int.shape})", t)
        n_eval += 1
        if 0 in patch.img.shape[:2]:
            continue  # no voxel to place
        # placement: every voxel corner of the patch lies where the base has it
        start = np.array([roi[0].start or 0, roi[1].start or 0])
        ph, pw = patch.img.shape[:2]
        v = np.indices((ph + 1, pw + 1)).reshape(2, -1).T
        got = np.asarray(patch.coordinatesystem.coordinate(v), dtype=float)
        wantc = ref.coordinate(v + start)
        bad = np.abs(got - wantc) > tol
        if bad.any():
            k = int(np.argwhere(bad)[0][0])
            raise Violation("patch-placement" + sfx, f"patch ({i},{j}) = base.subregion({roi}): its voxel "
                            f"{v[k].tolist()} (base voxel {(v[k] + start).tolist()}) is placed at "
                            f"{got[k].tolist()}, the base places it at {wantc[k].tolist()}; patch "
                            f"dimensions {[float(d) for d in patch.dimensions]} for {ph}x{pw} voxels of "
                            f"size {ref.h}", t)
    return _outcome(case, p, n_eval)


# ---------------------------------------------------------------------------------------
# 4. advertised corners and centres agree with the coordinate system and with each other
# ---------------------------------------------------------------------------------------


def _tables(case, p):
    n0, n1 = case["np"]
    gcv = np.asarray(p.global_corners_voxels)
    gcc = np.asarray(p.global_corners_cartesian, dtype=float)
    cv = np.asarray(p.global_centers_voxels)
    cc = np.asarray(p.global_centers_cartesian, dtype=float)
    t = _tags(case)
    if gcv.shape != (n0, n1, 4, 2) or gcc.shape != (n0, n1, 4, 2) or cv.shape != (n0, n1, 2) \
            or cc.shape != (n0, n1, 2):
        raise Violation("corners-shape", f"shapes {gcv.shape} {gcc.shape} {cv.shape} {cc.shape}", t)
    if gcv.dtype.kind not in "iu" or cv.dtype.kind not in "iu":
        raise Violation("corners-dtype", f"voxel corner/centre dtype {gcv.dtype}/{cv.dtype}", t)
    return gcv, gcc, cv, cc


def _div(case):
    return "divisible" if _divisible(case) else "not-divisible"


def check_corners_centres(case):
    """The voxel table and the Cartesian table name the same points under the base's
    coordinate system: corners by coordinate(), centres by voxel()."""
    img, arr, ref = _build(case)
    p = _patches(case, img)
    cs = img.coordinatesystem
    tol = KTOL * EPS * _scale(ref)
    gcv, gcc, cv, cc = _tables(case, p)
    t = _tags(case)
    for i, j in _ij(case):
        empty = 0 in p(i, j).img.shape[:2]
        want = ref.coordinate(gcv[i, j])
        viacs = np.asarray(cs.coordinate(gcv[i, j]), dtype=float)
        if np.any(np.abs(viacs - want) > tol):
            raise Violation("base-coordinate", "coordinate system of the base differs from the reference", t)
        if np.any(np.abs(gcc[i, j] - want) > tol):
            k = int(np.argwhere(np.abs(gcc[i, j] - want) > tol)[0][0])
            raise Violation(f"corners-cartesian-vs-voxel:{_div(case)}",
                            f"patch ({i},{j}) of {case['np']} patches on {case['shape']} voxels, corner {k}: "
                            f"global_corners_voxels {gcv[i, j, k].tolist()} is at {want[k].tolist()} in the "
                            f"base's coordinate system but global_corners_cartesian says "
                            f"{gcc[i, j, k].tolist()}", _tags(case, empty_patch=empty))
        conv = np.asarray(cs.voxel(darsia.Coordinate(cc[i, j])))
        if not np.array_equal(conv, cv[i, j]):
            raise Violation("centres-convert", f"patch ({i},{j}): voxel(global_centers_cartesian) = "
                            f"{conv.tolist()} but global_centers_voxels = {cv[i, j].tolist()}", t)
    return _outcome(case, p, 2 * len(_ij(case)))


# ---------------------------------------------------------------------------------------
# 5. every advertised centre lies inside its own patch (its own corner box), in both units
# ---------------------------------------------------------------------------------------


def check_centre_in_box(case):
    img, arr, ref = _build(case)
    p = _patches(case, img)
    tol = KTOL * EPS * _scale(ref)
    gcv, gcc, cv, cc = _tables(case, p)
    margin = 1e-6  # voxels
    for i, j in _ij(case):
        empty = 0 in p(i, j).img.shape[:2]
        # same root cause either way, but a centre outside a patch that has voxels is the more
        # telling example than one outside a patch that came out empty: bucket them apart
        kind = f"centre-misplaced:{_div(case)}" + (":empty-patch" if empty else "")
        tg = _tags(case, empty_patch=empty)
        head = f"patch ({i},{j}) of {case['np']} patches on {case['shape']} voxels"
        lo_c, hi_c = gcc[i, j].min(axis=0), gcc[i, j].max(axis=0)
        if np.any(cc[i, j] < lo_c - tol) or np.any(cc[i, j] > hi_c + tol):
            raise Violation(kind, f"{head}: centre {cc[i, j].tolist()} lies outside the patch's Cartesian "
                            f"corner box {lo_c.tolist()}..{hi_c.tolist()}", tg)
        # voxel box: top-left .. bottom-right; an inverted (empty) box contains nothing
        lo_v, hi_v = gcv[i, j, 0], gcv[i, j, 2]
        vf = ref.voxel_float(cc[i, j])  # fractional voxel position of the physical centre
        if np.any(vf < lo_v - margin) or np.any(vf > hi_v + margin):
            raise Violation(kind, f"{head}: centre voxel {cv[i, j].tolist()} (physical centre at voxel "
                            f"position {vf.tolist()}) lies outside the patch's voxel box "
                            f"{lo_v.tolist()}..{hi_v.tolist()}", tg)
        # where the extents are divisible by the patch counts every patch is a full box and its
        # centre is the midpoint of that box
        if _divisible(case) and not empty:
            mid_c = 0.5 * (lo_c + hi_c)
            mid_v = 0.5 * (lo_v + hi_v)
            if np.any(np.abs(cc[i, j] - mid_c) > tol) or np.any(np.abs(vf - mid_v) > margin):
                raise Violation(kind, f"{head}: centre {cc[i, j].tolist()} (voxel position {vf.tolist()}) "
                                f"is not the midpoint {mid_c.tolist()} (voxel position {mid_v.tolist()}) "
                                f"of the patch's corner box {lo_v.tolist()}..{hi_v.tolist()}", tg)
        # integer form, judged only where rounding cannot decide it
        clear = np.all(np.abs(vf - np.round(vf)) > margin)
        if clear and (np.any(cv[i, j] < lo_v) or np.any(cv[i, j] >= hi_v)):
            raise Violation(kind, f"{head}: centre voxel {cv[i, j].tolist()} is not one of the patch's "
                            f"voxels [{lo_v.tolist()}, {hi_v.tolist()})", tg)
    return _outcome(case, p, 2 * len(_ij(case)))


# ---------------------------------------------------------------------------------------

_RULE = ("Hypothesis draws a 2-D image (extents 1..40 per axis, one third forced divisible by the "
         "patch count), patch counts 1..6 per axis, relative overlap in [0, 0.5], physical dimensions "
         "power-of-two / unit / decimal voxel sizes (0.05, 0.1, 0.3, 1/3, ... - the float-ceil "
         "hazard) / generic, default or user origin, scalar or colour payload as Image / ScalarImage "
         "/ OpticalImage; non-trivial = extent not divisible by the count, or overlap > 0, or "
         "non-power-of-two dimensions; distinct = (shape, counts, dimensions, overlap, origin, payload)")

_N = {"quick": 1500, "thorough": 30000}
_SH = {"quick": 3, "thorough": 16}

PROP = Prop(
    pid="C19",
    rule=_RULE,
    assumptions=[
        "reference map RefCS for the base image; tolerance 64 eps (|origin| + extent + h)",
        "the patch interiors are exactly what relative_rois_without_overlap selects from the patch "
        "images, and global_corners_voxels are ordered top-left, bottom-left, bottom-right, top-right",
        "a centre is 'inside' its box if its physical position, converted by the reference map, lies "
        "in the closed voxel box (margin 1e-6 voxel); the integer centre voxel is only judged when "
        "the position is not within 1e-6 of a voxel face",
        "empty patches (more patches than voxels, or ceil(N/n)*(n-1) >= N) are allowed and labelled; "
        "only tiling / data laws are asserted for them",
    ],
    subs=[
        Sub("assemble_identity", check_assemble, gen=gen, n=_N, shards=_SH),
        Sub("interiors_tile", check_tile, gen=gen, n=_N, shards=_SH),
        Sub("set_image_then_assemble", check_set_image, gen=gen, n=_N, shards=_SH),
        Sub("patch_is_subimage", check_subimage, gen=gen, n=_N, shards=_SH),
        Sub("corners_centres_agree", check_corners_centres, gen=gen, n=_N, shards=_SH),
        Sub("centre_in_own_box", check_centre_in_box, gen=gen, n=_N, shards=_SH),
    ],
)
