"""C19 - patching tiles an image exactly.

Every law is phrased on what ``darsia.Patches`` *advertises* (the patch images, ``rois``,
``relative_rois_without_overlap``, ``global_corners_voxels`` / ``_cartesian``,
``global_centers_voxels`` / ``_cartesian``) and is compared with the base image through numpy
indexing and the reference coordinate map ``RefCS`` - never through a re-implementation of the
patch-size arithmetic.
"""
import numpy as np
from hypothesis import strategies as st

import darsia
from vf.oracles import AXES, RefCS
from vf.runner import Outcome, Prop, Sub, Violation

EPS = np.finfo(float).eps
KTOL = 64  # one extraction level (see C02: ~10 eps*scale per level), generous head-room

H_DECIMAL = [0.05, 0.1, 0.3, 0.7, 1.0 / 3.0, 0.15, 0.6, 1.1]
D_GENERIC = [0.3, 0.7, 1.0 / 3.0, 1.0, 2.8, 1.5, 0.1, 2.1, 0.9]
OVERLAPS = [0.0, 0.0, 0.1, 0.25, 0.5, 1.0 / 3.0, 0.05, 0.2]

# ---------------------------------------------------------------------------------------
# generator
# ---------------------------------------------------------------------------------------


DTYPES = ["float64", "float64", "uint8", "uint8", "float32", "uint16", "int64", "bool"]
TRAILS = [[1], [2], [4], [2, 2], [2, 2]]  # trailing (range) axes of a general non-scalar Image
CSPACES = ["RGB", "BGR", "HSV"]


# number type in which the physical metadata is handed to the image: all floats; dimensions and origin as
# Python ints; only the origin as ints; only the dimensions as ints (a default origin is then derived from them)
MTYPES = ["float", "float", "float", "int", "int-origin", "int-dims"]
# life of the image object before it is patched: None = freshly constructed; otherwise it was constructed at
# another origin, used (TOUCHES), and then moved in place to the origin of the case
HISTORIES = [None, None, None, "reset", "update-kw", "update-dict"]
TOUCHES = ["cs", "patches", "patches", "subregion", "none"]


def _draw_origin(draw, shape, dims, as_int):
    """A user origin: whole numbers (handed over as ints) or up to 1e4 voxel sizes away, measured in the
    voxel size of that Cartesian axis."""
    origin = []
    for c in range(2):
        k = draw(st.one_of(st.integers(-20, 20), st.integers(-10**4, 10**4)))
        if as_int:
            origin.append(float(k))
            continue
        frac = draw(st.sampled_from([0.0, 0.5, 0.25, 0.3]))
        m = AXES[2][c][0]
        origin.append(float((k + frac) * dims[m] / shape[m]))
    return origin


@st.composite
def cases(draw, max_extent=40, overlap="any", special=False):
    mtype = draw(st.sampled_from(MTYPES))
    via = draw(st.sampled_from(HISTORIES))
    if special:
        # every case has integer-typed metadata, or an origin moved in place, or both
        which = draw(st.sampled_from(["mtype", "history", "both"]))
        if which != "history" and mtype == "float":
            mtype = draw(st.sampled_from([m for m in MTYPES if m != "float"]))
        if which != "mtype" and via is None:
            via = draw(st.sampled_from([h for h in HISTORIES if h is not None]))
    int_dims, int_origin = mtype in ("int", "int-dims"), mtype in ("int", "int-origin")
    shape, npatch, dims, dkinds = [], [], [], []
    for ax in range(2):
        n = draw(st.integers(1, 6))
        mode = draw(st.sampled_from(["divisible", "any", "any"]))
        if mode == "divisible":
            N = n * draw(st.integers(1, max(1, max_extent // n)))
        else:
            N = draw(st.integers(1, max_extent))
        if int_dims:
            dk = draw(st.sampled_from(["unit", "pow2", "integer", "integer"]))
        else:
            dk = draw(st.sampled_from(["pow2", "unit", "decimal-h", "decimal-h", "generic", "generic"]))
        if dk == "pow2":
            D = float(N * 2.0 ** draw(st.integers(0 if int_dims else -8, 8)))
        elif dk == "unit":
            D = float(N)
        elif dk == "integer":
            D = float(draw(st.integers(1, 60)))
        elif dk == "decimal-h":
            D = N * draw(st.sampled_from(H_DECIMAL))
        else:
            D = draw(st.one_of(st.sampled_from(D_GENERIC),
                               st.floats(1e-3, 1e3, allow_nan=False, allow_infinity=False)))
        shape.append(N)
        npatch.append(n)
        dims.append(float(D))
        dkinds.append(dk)
    dims_given = True
    if int_dims and draw(st.sampled_from([False, False, False, True])):
        # no dimensions handed over at all: the image takes its default, [1, 1]
        dims, dkinds, dims_given = [1.0, 1.0], ["default", "default"], False
    if overlap == "positive":
        ov = draw(st.one_of(st.sampled_from([o for o in OVERLAPS if o > 0]), st.floats(0.01, 0.5, allow_nan=False)))
    else:
        ov = draw(st.one_of(st.sampled_from(OVERLAPS), st.floats(0.0, 0.5, allow_nan=False)))
    # "origin" is the origin the image has when it is patched (None: the default one)
    origin, hist = None, None
    if via == "reset":
        # constructed at a user origin, used, then reset_origin(): ends at the default origin
        hist = {"via": via, "first": _draw_origin(draw, shape, dims, int_origin),
                "touch": draw(st.sampled_from(TOUCHES))}
    elif via is not None:
        # constructed at the default or at a user origin, used, then moved through update_metadata
        first = _draw_origin(draw, shape, dims, int_origin) if draw(st.booleans()) else None
        hist = {"via": via, "first": first, "touch": draw(st.sampled_from(TOUCHES))}
        origin = _draw_origin(draw, shape, dims, int_origin)
    elif int_origin or draw(st.booleans()):
        origin = _draw_origin(draw, shape, dims, int_origin)
    payload = draw(st.sampled_from(["scalar", "scalar", "scalar", "colour", "colour", "colour", "trailing", "trailing"]))
    cls, trail, cspace = "Image", None, "RGB"
    if payload == "scalar":
        cls = draw(st.sampled_from(["Image", "ScalarImage"]))
    elif payload == "colour":
        cls = draw(st.sampled_from(["Image", "OpticalImage", "OpticalImage"]))
        if cls == "OpticalImage":
            cspace = draw(st.sampled_from(CSPACES))
    else:
        # general non-scalar image: 1, 2 or 4 channels, or a 2x2 tensor per voxel
        trail = draw(st.sampled_from(TRAILS))
    meta = None
    if draw(st.sampled_from([False, False, True])):
        # further metadata the re-assembled image has to carry along
        meta = {"name": "base-%d" % draw(st.integers(0, 99)), "time": draw(st.integers(0, 64)) / 8.0}
    return {
        "shape": shape, "np": npatch, "dims": dims, "dkind": dkinds, "ov": float(ov),
        "origin": origin, "payload": payload, "cls": cls,
        "dtype": draw(st.sampled_from(DTYPES)),
        "pseed": draw(st.integers(0, 2**16)),
        "np_as": draw(st.sampled_from(["list", "tuple", "npint"])),
        "trail": trail, "cspace": cspace, "meta": meta,
        "mtype": mtype, "dims_given": dims_given, "hist": hist,
    }


def gen(tier):
    return cases(40)


def gen_overlap(tier):
    return cases(40, overlap="positive")


def gen_special(tier):
    return cases(40, special=True)


# ---------------------------------------------------------------------------------------
# set-up
# ---------------------------------------------------------------------------------------


def _trail(case):
    if case["payload"] == "scalar":
        return ()
    if case["payload"] == "colour":
        return (3,)
    return tuple(case["trail"])


def _payload(case, ids=False):
    N0, N1 = case["shape"]
    shp = (N0, N1) + _trail(case)
    if ids:
        # every entry of the base array is unique: data identity tells which voxel it came from
        return np.arange(int(np.prod(shp)), dtype=np.float64).reshape(shp)
    rng = np.random.default_rng(case["pseed"])
    dt = case["dtype"]
    if dt == "uint8":
        return rng.integers(0, 256, size=shp).astype(np.uint8)
    if dt == "uint16":
        return rng.integers(0, 2**16, size=shp).astype(np.uint16)
    if dt == "int64":
        return rng.integers(-2**40, 2**40, size=shp).astype(np.int64)
    if dt == "bool":
        return rng.integers(0, 2, size=shp).astype(bool)
    return (rng.integers(-32, 32, size=shp) / 8.0).astype(np.float32 if dt == "float32" else np.float64)


def _typed(values, as_int):
    """The numbers in the type in which the case hands them to the image (whole by construction if int)."""
    if as_int:
        assert all(float(int(v)) == float(v) for v in values), values
        return [int(v) for v in values]
    return [float(v) for v in values]


def _touch(case, img):
    """Ordinary use of the image before its origin is moved."""
    how = case["hist"]["touch"]
    if how == "cs":
        np.asarray(img.coordinatesystem.coordinate(np.array([0, 0])))
    elif how == "patches":
        darsia.Patches(img, _count_arg(case), rel_overlap=case["ov"])
    elif how == "subregion":
        img.subregion((slice(0, max(1, case["shape"][0] // 2)), slice(0, max(1, case["shape"][1] // 2))))


def _build(case, ids=False, plain=False):
    """The image of the case (with its number types and its history), its data and the reference map of its
    *current* metadata. plain=True: the same data and metadata as a freshly constructed image, all floats."""
    arr = _payload(case, ids)
    mtype = "float" if plain else case.get("mtype", "float")
    hist = None if plain else case.get("hist")
    int_dims, int_origin = mtype in ("int", "int-dims"), mtype in ("int", "int-origin")
    kw = {}
    if plain or case.get("dims_given", True):
        kw["dimensions"] = _typed(case["dims"], int_dims)
    first = hist["first"] if hist else case["origin"]
    if first is not None:
        kw["origin"] = _typed(first, int_origin)
    if case.get("meta"):
        kw.update(case["meta"])
    if case["cls"] == "ScalarImage":
        img = darsia.ScalarImage(arr, space_dim=2, **kw)
    elif case["cls"] == "OpticalImage":
        img = darsia.OpticalImage(arr, color_space=case.get("cspace", "RGB"), **kw)
    else:
        img = darsia.Image(arr, space_dim=2, scalar=case["payload"] == "scalar", **kw)
    if hist:
        _touch(case, img)
        if hist["via"] == "reset":
            img.reset_origin()
        else:
            new = darsia.Coordinate(np.array(_typed(case["origin"], int_origin)))
            if hist["via"] == "update-kw":
                img.update_metadata(origin=new)
            else:
                img.update_metadata({"origin": new})
    ref = RefCS(2, case["shape"], case["dims"], case["origin"])
    return img, arr.copy(), ref


def _count_arg(case):
    """The patch counts in the call form of the case (a fresh object per call)."""
    if case["np_as"] == "tuple":
        return tuple(case["np"])
    if case["np_as"] == "npint":
        return [np.int64(k) for k in case["np"]]  # counts that come out of a numpy computation
    return list(case["np"])


def _patches(case, img, n=None, ov=None):
    n = _count_arg(case) if n is None else n
    ov = case["ov"] if ov is None else ov
    if ov == 0.0 and case["pseed"] % 2 == 0:
        return darsia.Patches(img, n)  # default overlap
    return darsia.Patches(img, n, rel_overlap=ov)


def _divisible(case):
    return all(N % n == 0 for N, n in zip(case["shape"], case["np"]))


def _tags(case, **extra):
    t = {"divisible": _divisible(case), "overlap": case["ov"] > 0, "payload": case["payload"],
         "origin": "user" if case["origin"] is not None else "default",
         "mtype": case.get("mtype", "float"), "history": (case.get("hist") or {}).get("via", "fresh")}
    t.update(extra)
    return t


def _ij(case):
    return [(i, j) for i in range(case["np"][0]) for j in range(case["np"][1])]


def _outcome(case, p, evals):
    N, n = case["shape"], case["np"]
    div = _divisible(case)
    pow2 = all(k in ("pow2", "unit") for k in case["dkind"])
    empty = any(0 in p.patches[i][j].img.shape[:2] for i, j in _ij(case))
    beyond = any(p.rois[i][j][d].stop > N[d] for i, j in _ij(case) for d in range(2))
    labels = ["divisible" if div else "not-divisible",
              "overlap" if case["ov"] > 0 else "no-overlap",
              "dims-pow2" if pow2 else "dims-generic",
              f"payload-{case['payload']}", f"cls-{case['cls']}", f"dtype-{case['dtype']}",
              "origin-user" if case["origin"] is not None else "origin-default",
              f"patches-{min(n[0] * n[1], 10) if n[0] * n[1] < 10 else '10+'}"]
    if empty:
        labels.append("has-empty-patch")
    if beyond:
        labels.append("roi-stop-beyond-border")
    if any(Nd < nd for Nd, nd in zip(N, n)):
        labels.append("fewer-voxels-than-patches")
    if any(k == "decimal-h" for k in case["dkind"]):
        labels.append("decimal-voxel-size")
    labels.append(f"counts-as-{case['np_as']}")
    if case["payload"] == "trailing":
        labels.append("trailing-" + "x".join(str(k) for k in case["trail"]))
    if case["cls"] == "OpticalImage":
        labels.append(f"colour-space-{case.get('cspace', 'RGB')}")
    if case.get("meta"):
        labels.append("extra-metadata")
    labels.append(f"metadata-{case.get('mtype', 'float')}")
    if np.asarray(p.base.origin).dtype.kind in "iu":
        labels.append("origin-array-integer-typed")
    if not case.get("dims_given", True):
        labels.append("dimensions-omitted")
    hist = case.get("hist")
    labels.append(f"history-{hist['via']}" if hist else "history-fresh")
    if hist:
        labels.append(f"used-before-move-{hist['touch']}")
    nontrivial = (not div) or case["ov"] > 0 or not pow2
    key = [N, n, case["dims"], case["ov"], case["origin"], case["payload"], case.get("mtype", "float"),
           hist["via"] if hist else None]
    return Outcome(nontrivial, key, tuple(labels), evals=max(1, evals))


def _scale(ref):
    out = np.empty(2)
    for c, (m, s) in enumerate(AXES[2]):
        out[c] = abs(ref.origin[c]) + (ref.shape[m] + 1) * ref.h[m]
    return out


# ---------------------------------------------------------------------------------------
# 1. assemble() reproduces the base image
# ---------------------------------------------------------------------------------------


def _meta_equal(a, b):
    if isinstance(a, (np.ndarray, list, tuple)) or isinstance(b, (np.ndarray, list, tuple)):
        a, b = np.asarray(a), np.asarray(b)
        return a.shape == b.shape and bool(np.all(a == b))
    return type(a) is type(b) and a == b


def _counts_untouched(case, n_arg, t):
    """The caller's count sequence is only read."""
    if len(n_arg) != 2 or [int(k) for k in n_arg] != [int(k) for k in case["np"]]:
        raise Violation("counts-argument-changed", f"the patch counts handed to Patches became {list(n_arg)!r}", t)


def check_assemble(case):
    img, arr, ref = _build(case)
    n_arg = _count_arg(case)
    p = _patches(case, img, n=n_arg)
    t = _tags(case)
    before = img.metadata()
    out = p.assemble()
    _counts_untouched(case, n_arg, t)
    # everything needed to re-create the image travels along (name, time, colour space, ...)
    after, got = img.metadata(), out.metadata()
    for k in sorted(before):
        if k not in got or not _meta_equal(got[k], before[k]):
            raise Violation("assemble-metadata", f"metadata entry {k!r}: base {before[k]!r}, assembled "
                            f"{got.get(k)!r}", _tags(case, key=k))
        if not _meta_equal(after[k], before[k]):
            raise Violation("assemble-base-changed", f"assemble() changed the base's metadata entry {k!r}", t)
    if out.img.shape != arr.shape:
        raise Violation("assemble-shape", f"assembled {out.img.shape}, base {arr.shape}", t)
    if out.img.dtype != arr.dtype:
        raise Violation("assemble-dtype", f"assembled dtype {out.img.dtype}, base {arr.dtype}", t)
    if not np.array_equal(out.img, arr):
        bad = np.argwhere(out.img != arr)[0].tolist()
        raise Violation("assemble-values", f"assembled image differs from the base at {bad}", t)
    if not np.array_equal(img.img, arr):
        raise Violation("assemble-base-changed", "assemble() changed the base image", t)
    # the assembled image sits where the base sits
    if not np.array_equal(np.asarray(out.origin, float), np.asarray(img.origin, float)) or \
            [float(d) for d in out.dimensions] != [float(d) for d in img.dimensions]:
        raise Violation("assemble-geometry", f"origin/dimensions {out.origin}/{out.dimensions} vs "
                        f"{img.origin}/{img.dimensions}", t)
    if type(out).__name__ != case["cls"]:
        raise Violation("assemble-class", f"{case['cls']} assembled to {type(out).__name__}", t)
    return _outcome(case, p, 1)


# ---------------------------------------------------------------------------------------
# 2. interiors tile the image
# ---------------------------------------------------------------------------------------


def check_tile(case):
    img, arr, ref = _build(case, ids=True)
    p = _patches(case, img)
    t = _tags(case)
    N0, N1 = case["shape"]
    nvals = arr.size
    # (a) by data identity: gather the interiors, every base entry must appear exactly once
    count = np.zeros(nvals, dtype=int)
    for i, j in _ij(case):
        rel = p.relative_rois_without_overlap[i][j]
        interior = p(i, j).img[rel]
        np.add.at(count, interior.astype(int).ravel(), 1)
    if np.any(count != 1):
        k = int(np.argmax(count != 1))
        vox = np.unravel_index(k, arr.shape)[:2]
        raise Violation("tile-gap" if count[k] == 0 else "tile-double-cover",
                        f"base voxel {tuple(int(x) for x in vox)} is covered {int(count[k])} times by the patch "
                        "interiors", t)
    # (b) by the advertised boxes: roi start + relative interior, clipped to the patch extent
    cover = np.zeros((N0, N1), dtype=int)
    for i, j in _ij(case):
        roi = p.rois[i][j]
        rel = p.relative_rois_without_overlap[i][j]
        ph, pw = p(i, j).img.shape[:2]
        rows = np.arange(ph)[rel[0]] + (roi[0].start or 0)
        cols = np.arange(pw)[rel[1]] + (roi[1].start or 0)
        if len(rows) and len(cols):
            if rows.max() >= N0 or cols.max() >= N1:
                raise Violation("tile-box-outside", f"patch ({i},{j}): interior box reaches voxel "
                                f"({rows.max()},{cols.max()}) outside the image", t)
            cover[np.ix_(rows, cols)] += 1
    if np.any(cover != 1):
        bad = np.argwhere(cover != 1)[0].tolist()
        raise Violation("tile-boxes", f"interior boxes (rois + relative_rois_without_overlap) cover "
                        f"voxel {bad} {int(cover[tuple(bad)])} times", t)
    return _outcome(case, p, len(_ij(case)))


# ---------------------------------------------------------------------------------------
# 2b. patches replaced through set_image, then re-assembled
# ---------------------------------------------------------------------------------------


def _block(shp, n, dtype):
    """Patch-specific content number n of the given shape and dtype (never constant)."""
    k = np.arange(int(np.prod(shp)), dtype=float).reshape(shp)
    if np.dtype(dtype) == np.dtype(bool):
        return (k + n) % 3 == 0
    return ((k % 97) / 8.0 + 16.0 * (n + 1)).astype(dtype)


def check_set_image(case):
    """Every patch is given new, patch-specific content with set_image; afterwards each patch holds
    exactly what was set for it, the base image is untouched, and assemble() is the mosaic of the
    interiors of the arrays that were set (each voxel from the patch whose interior contains it)."""
    img, arr, ref = _build(case)
    p = _patches(case, img)
    t = _tags(case)
    ids = _ij(case)
    new, handed = {}, {}
    for n, (i, j) in enumerate(ids):
        new[(i, j)] = _block(p(i, j).img.shape, n, arr.dtype)
        handed[(i, j)] = new[(i, j)].copy()
        p.set_image(handed[(i, j)], i, j)  # the caller's own array, no copy in between
    for (i, j) in ids:
        if not np.array_equal(p(i, j).img, new[(i, j)]):
            raise Violation("set-image-overwritten", f"patch ({i},{j}) no longer holds the array that was set for it "
                            f"after the other patches were set", t)
        if not np.array_equal(handed[(i, j)], new[(i, j)]):
            raise Violation("set-image-changes-argument", f"the array handed to set_image for patch ({i},{j}) "
                            "was modified", t)
    # the patches hold the content, not the caller's buffers: re-using a buffer afterwards (as a
    # loop filling one work array would) does not reach into the patches
    for (i, j) in ids:
        handed[(i, j)][...] = _block(handed[(i, j)].shape, 40, arr.dtype)
    for (i, j) in ids:
        if p(i, j).img.size and not np.array_equal(p(i, j).img, new[(i, j)]):
            raise Violation("set-image-aliases-argument", f"patch ({i},{j}) changed when the array that had been "
                            "handed to set_image was re-used by the caller", t)
    if not np.array_equal(img.img, arr):
        raise Violation("set-image-changes-base", "set_image changed the base image", t)
    out = p.assemble()
    want = np.zeros_like(arr)
    for (i, j) in ids:
        roi = p.rois[i][j]
        rel = p.relative_rois_without_overlap[i][j]
        ph, pw = new[(i, j)].shape[:2]
        rows = np.arange(ph)[rel[0]] + (roi[0].start or 0)
        cols = np.arange(pw)[rel[1]] + (roi[1].start or 0)
        if len(rows) and len(cols):
            want[np.ix_(rows, cols)] = new[(i, j)][rel]
    if out.img.shape != want.shape or not np.array_equal(out.img, want):
        raise Violation("set-image-assemble", "assemble() after set_image is not the mosaic of the interiors of the "
                        "arrays that were set", t)
    return _outcome(case, p, len(ids) + 1)


# ---------------------------------------------------------------------------------------
# 3. each patch is the sub-image at its advertised place
# ---------------------------------------------------------------------------------------


def check_subimage(case):
    img, arr, ref = _build(case)
    p = _patches(case, img)
    N = case["shape"]
    tol = KTOL * EPS * _scale(ref)
    n_eval = 0
    shp = np.asarray(p.global_corners_voxels).shape
    if shp != (case["np"][0], case["np"][1], 4, 2):
        raise Violation("corners-shape", f"global_corners_voxels has shape {shp}", _tags(case))
    for i, j in _ij(case):
        roi = p.rois[i][j]
        patch = p(i, j)
        beyond = any(roi[d].stop > N[d] for d in range(2))
        t = _tags(case, beyond=beyond)
        sfx = ":stop-beyond" if beyond else ""
        # data: numpy semantics of the advertised roi
        want = arr[roi[0], roi[1]]
        if patch.img.shape != want.shape or not np.array_equal(patch.img, want):
            raise Violation("patch-data", f"patch ({i},{j}) (shape {patch.img.shape}) is not the "
                            f"base at rois[{i}][{j}] = {roi} (shape {want.shape})", t)
        if patch.img.dtype != arr.dtype or type(patch).__name__ != case["cls"]:
            raise Violation("patch-type", f"patch ({i},{j}): dtype {patch.img.dtype}, class "
                            f"{type(patch).__name__}", t)
        # same as a fresh subregion() call
        sub = img.subregion(roi)
        if not np.array_equal(sub.img, patch.img) or \
                not np.array_equal(np.asarray(sub.origin, float), np.asarray(patch.origin, float)) or \
                [float(d) for d in sub.dimensions] != [float(d) for d in patch.dimensions]:
            raise Violation("patch-vs-subregion", f"patch ({i},{j}) differs from base.subregion(rois[{i}][{j}])", t)
        # the interior is the base at the advertised voxel corners (TL, BL, BR, TR)
        gc = np.asarray(p.global_corners_voxels[i, j])
        interior = patch.img[p.relative_rois_without_overlap[i][j]]
        want_int = arr[gc[0, 0]:gc[1, 0], gc[0, 1]:gc[3, 1]]
        if not (gc[0, 1] == gc[1, 1] and gc[2, 1] == gc[3, 1] and gc[0, 0] == gc[3, 0] and gc[1, 0] == gc[2, 0]):
            raise Violation("corners-not-a-box", f"patch ({i},{j}): voxel corners {gc.tolist()} are "
                            "not ordered top-left, bottom-left, bottom-right, top-right", t)
        if interior.shape != want_int.shape or not np.array_equal(interior, want_int):
            raise Violation("patch-interior", f"patch ({i},{j}): interior (shape {interior.shape}) is "
                            f"not the base between the advertised voxel corners {gc.tolist()} "
                            f"(shape {want_int.shape})", t)
        n_eval += 1
        if 0 in patch.img.shape[:2]:
            continue  # no voxel to place
        # placement: every voxel corner of the patch lies where the base has it
        start = np.array([roi[0].start or 0, roi[1].start or 0])
        ph, pw = patch.img.shape[:2]
        v = np.indices((ph + 1, pw + 1)).reshape(2, -1).T
        got = np.asarray(patch.coordinatesystem.coordinate(v), dtype=float)
        wantc = ref.coordinate(v + start)
        bad = np.abs(got - wantc) > tol
        if bad.any():
            k = int(np.argwhere(bad)[0][0])
            raise Violation("patch-placement" + sfx, f"patch ({i},{j}) = base.subregion({roi}): its voxel "
                            f"{v[k].tolist()} (base voxel {(v[k] + start).tolist()}) is placed at "
                            f"{got[k].tolist()}, the base places it at {wantc[k].tolist()}; patch "
                            f"dimensions {[float(d) for d in patch.dimensions]} for {ph}x{pw} voxels of "
                            f"size {ref.h}", t)
    return _outcome(case, p, n_eval)


# ---------------------------------------------------------------------------------------
# 4. advertised corners and centres agree with the coordinate system and with each other
# ---------------------------------------------------------------------------------------


def _tables(case, p):
    n0, n1 = case["np"]
    gcv = np.asarray(p.global_corners_voxels)
    gcc = np.asarray(p.global_corners_cartesian, dtype=float)
    cv = np.asarray(p.global_centers_voxels)
    cc = np.asarray(p.global_centers_cartesian, dtype=float)
    t = _tags(case)
    if gcv.shape != (n0, n1, 4, 2) or gcc.shape != (n0, n1, 4, 2) or cv.shape != (n0, n1, 2) \
            or cc.shape != (n0, n1, 2):
        raise Violation("corners-shape", f"shapes {gcv.shape} {gcc.shape} {cv.shape} {cc.shape}", t)
    if gcv.dtype.kind not in "iu" or cv.dtype.kind not in "iu":
        raise Violation("corners-dtype", f"voxel corner/centre dtype {gcv.dtype}/{cv.dtype}", t)
    return gcv, gcc, cv, cc


def _div(case):
    return "divisible" if _divisible(case) else "not-divisible"


def check_corners_centres(case):
    """The voxel table and the Cartesian table name the same points under the base's
    coordinate system: corners by coordinate(), centres by voxel()."""
    img, arr, ref = _build(case)
    p = _patches(case, img)
    cs = img.coordinatesystem
    tol = KTOL * EPS * _scale(ref)
    gcv, gcc, cv, cc = _tables(case, p)
    t = _tags(case)
    for i, j in _ij(case):
        empty = 0 in p(i, j).img.shape[:2]
        want = ref.coordinate(gcv[i, j])
        viacs = np.asarray(cs.coordinate(gcv[i, j]), dtype=float)
        if np.any(np.abs(viacs - want) > tol):
            raise Violation("base-coordinate", "coordinate system of the base differs from the reference", t)
        if np.any(np.abs(gcc[i, j] - want) > tol):
            k = int(np.argwhere(np.abs(gcc[i, j] - want) > tol)[0][0])
            raise Violation(f"corners-cartesian-vs-voxel:{_div(case)}",
                            f"patch ({i},{j}) of {case['np']} patches on {case['shape']} voxels, corner {k}: "
                            f"global_corners_voxels {gcv[i, j, k].tolist()} is at {want[k].tolist()} in the "
                            f"base's coordinate system but global_corners_cartesian says "
                            f"{gcc[i, j, k].tolist()}", _tags(case, empty_patch=empty))
        conv = np.asarray(cs.voxel(darsia.Coordinate(cc[i, j])))
        if not np.array_equal(conv, cv[i, j]):
            raise Violation("centres-convert", f"patch ({i},{j}): voxel(global_centers_cartesian) = "
                            f"{conv.tolist()} but global_centers_voxels = {cv[i, j].tolist()}", t)
        # the same by the reference map (not by the code's own voxel()): the centre voxel is the
        # voxel that contains the physical centre, judged where rounding cannot decide it
        vf = ref.voxel_float(cc[i, j])
        if np.all(np.abs(vf - np.round(vf)) > 1e-6) and not np.array_equal(np.floor(vf).astype(int), cv[i, j]):
            raise Violation("centres-voxel-vs-reference", f"patch ({i},{j}): global_centers_cartesian "
                            f"{cc[i, j].tolist()} lies in voxel {np.floor(vf).astype(int).tolist()} of the base "
                            f"(position {vf.tolist()}) but global_centers_voxels = {cv[i, j].tolist()}", t)
    # the centres form a lattice inside the base image: one x per patch column, one y per patch row,
    # x growing with the column index, y falling with the row index (whichever way a centre is
    # defined for ragged last patches); asserted where every patch has voxels
    if not any(0 in p(i, j).img.shape[:2] for i, j in _ij(case)):
        n0, n1 = case["np"]
        lo = np.array([ref.origin[0], ref.origin[1] - ref.dimensions[0]])
        hi = np.array([ref.origin[0] + ref.dimensions[1], ref.origin[1]])
        why = None
        if np.any(np.abs(cc[:, :, 0] - cc[:1, :, 0]) > tol[0]) or np.any(np.abs(cc[:, :, 1] - cc[:, :1, 1]) > tol[1]):
            why = "patches of one column / row do not share the x / y of their centres"
        elif np.any(np.diff(cc[:, :, 0], axis=1) <= 0) or np.any(np.diff(cc[:, :, 1], axis=0) >= 0):
            why = "x does not grow with the patch column or y does not fall with the patch row"
        elif np.any(cc < lo - tol) or np.any(cc > hi + tol):
            why = f"a centre lies outside the base image {lo.tolist()}..{hi.tolist()}"
        if why:
            raise Violation("centres-not-a-lattice", f"{case['np']} patches on {case['shape']} voxels: {why}; "
                            f"centres {cc.tolist()}", t)
    return _outcome(case, p, 3 * len(_ij(case)))


# ---------------------------------------------------------------------------------------
# 5. every advertised centre lies inside its own patch (its own corner box), in both units
# ---------------------------------------------------------------------------------------


def check_centre_in_box(case):
    img, arr, ref = _build(case)
    p = _patches(case, img)
    tol = KTOL * EPS * _scale(ref)
    gcv, gcc, cv, cc = _tables(case, p)
    margin = 1e-6  # voxels
    for i, j in _ij(case):
        empty = 0 in p(i, j).img.shape[:2]
        # same root cause either way, but a centre outside a patch that has voxels is the more
        # telling example than one outside a patch that came out empty: bucket them apart
        kind = f"centre-misplaced:{_div(case)}" + (":empty-patch" if empty else "")
        tg = _tags(case, empty_patch=empty)
        head = f"patch ({i},{j}) of {case['np']} patches on {case['shape']} voxels"
        lo_c, hi_c = gcc[i, j].min(axis=0), gcc[i, j].max(axis=0)
        if np.any(cc[i, j] < lo_c - tol) or np.any(cc[i, j] > hi_c + tol):
            raise Violation(kind, f"{head}: centre {cc[i, j].tolist()} lies outside the patch's Cartesian "
                            f"corner box {lo_c.tolist()}..{hi_c.tolist()}", tg)
        # voxel box: top-left .. bottom-right; an inverted (empty) box contains nothing
        lo_v, hi_v = gcv[i, j, 0], gcv[i, j, 2]
        vf = ref.voxel_float(cc[i, j])  # fractional voxel position of the physical centre
        if np.any(vf < lo_v - margin) or np.any(vf > hi_v + margin):
            raise Violation(kind, f"{head}: centre voxel {cv[i, j].tolist()} (physical centre at voxel "
                            f"position {vf.tolist()}) lies outside the patch's voxel box "
                            f"{lo_v.tolist()}..{hi_v.tolist()}", tg)
        # where the extents are divisible by the patch counts every patch is a full box and its
        # centre is the midpoint of that box
        if _divisible(case) and not empty:
            mid_c = 0.5 * (lo_c + hi_c)
            mid_v = 0.5 * (lo_v + hi_v)
            if np.any(np.abs(cc[i, j] - mid_c) > tol) or np.any(np.abs(vf - mid_v) > margin):
                raise Violation(kind, f"{head}: centre {cc[i, j].tolist()} (voxel position {vf.tolist()}) "
                                f"is not the midpoint {mid_c.tolist()} (voxel position {mid_v.tolist()}) "
                                f"of the patch's corner box {lo_v.tolist()}..{hi_v.tolist()}", tg)
        # integer form, judged only where rounding cannot decide it
        clear = np.all(np.abs(vf - np.round(vf)) > margin)
        if clear and (np.any(cv[i, j] < lo_v) or np.any(cv[i, j] >= hi_v)):
            raise Violation(kind, f"{head}: centre voxel {cv[i, j].tolist()} is not one of the patch's "
                            f"voxels [{lo_v.tolist()}, {hi_v.tolist()})", tg)
    return _outcome(case, p, 2 * len(_ij(case)))


# ---------------------------------------------------------------------------------------
# 6. local corners: the patch's own voxel frame (what PiecewisePerspectiveTransform maps onto the
#    global corners)
# ---------------------------------------------------------------------------------------


def check_local_corners(case):
    """local_corners_voxels describe the box of the patch interior in the patch's own frame: as large
    as the interior; and for patches without overlap (the form the in-repository caller uses) they
    start at voxel (0, 0) of the patch image, equal the global corners shifted by the top-left
    one, and the patch between its local corners is the base between the global corners."""
    img, arr, ref = _build(case)
    n_arg = _count_arg(case)
    p = _patches(case, img, n=n_arg)
    t = _tags(case)
    n0, n1 = case["np"]
    _counts_untouched(case, n_arg, t)
    # what the consumers of a Patches object read
    if len(p.num_patches) != 2 or [int(k) for k in p.num_patches] != [n0, n1] or p.num_active_spatial_axes != 2:
        raise Violation("advertised-counts", f"num_patches {p.num_patches!r}, active axes "
                        f"{p.num_active_spatial_axes!r} for counts {case['np']}", t)
    if not np.array_equal(p.base.img, arr) or len(p.patches) != n0 or any(len(r) != n1 for r in p.patches):
        raise Violation("advertised-base", "base / patches table of the Patches object do not match the input", t)
    gcv = np.asarray(p.global_corners_voxels)
    lcv = np.asarray(p.local_corners_voxels)
    if lcv.shape != (n0, n1, 4, 2) or lcv.dtype.kind not in "iu":
        raise Violation("corners-shape", f"local_corners_voxels has shape {lcv.shape}, dtype {lcv.dtype}", t)
    n_eval = 0
    for i, j in _ij(case):
        patch = p(i, j)
        interior = patch.img[p.relative_rois_without_overlap[i][j]]
        if 0 in interior.shape[:2]:
            continue  # empty patch: no box to describe
        lc, gc = lcv[i, j], gcv[i, j]
        n_eval += 1
        if not (lc[0, 1] == lc[1, 1] and lc[2, 1] == lc[3, 1] and lc[0, 0] == lc[3, 0] and lc[1, 0] == lc[2, 0]):
            raise Violation("corners-not-a-box", f"patch ({i},{j}): local voxel corners {lc.tolist()} are not "
                            "ordered top-left, bottom-left, bottom-right, top-right", t)
        size = (lc[2] - lc[0]).tolist()
        if size != list(interior.shape[:2]):
            raise Violation("local-corners-size", f"patch ({i},{j}) of {case['np']} patches on {case['shape']} "
                            f"voxels: local corners {lc.tolist()} span {size} voxels, the patch interior has "
                            f"{list(interior.shape[:2])}", t)
        if case["ov"] > 0:
            continue  # frame of the local corners of an overlapping patch: not specified
        if not np.array_equal(lc, gc - gc[0]):
            raise Violation("local-vs-global-corners", f"patch ({i},{j}): local corners {lc.tolist()} are not the "
                            f"global corners {gc.tolist()} relative to the top-left one", t)
        got = patch.img[lc[0, 0]:lc[1, 0], lc[0, 1]:lc[3, 1]]
        want = arr[gc[0, 0]:gc[1, 0], gc[0, 1]:gc[3, 1]]
        if got.shape != want.shape or not np.array_equal(got, want):
            raise Violation("local-corners-data", f"patch ({i},{j}): the patch between its local corners "
                            f"{lc.tolist()} is not the base between the global corners {gc.tolist()}", t)
    return _outcome(case, p, n_eval)


# ---------------------------------------------------------------------------------------
# 7. the overlap extends the patches and nothing else
# ---------------------------------------------------------------------------------------


def check_overlap(case):
    """Same image and counts, once with relative overlap r > 0 and once without. The overlap is added
    around each patch ("relative overlap of each patch (in relation to patch size) in each direction"):
    the interiors, the corner and centre tables are those of the patching without overlap, a patch
    without overlap is its own interior, and each patch reaches over its interior by about r patch
    sizes on every side that has a neighbour."""
    img, arr, ref = _build(case)
    p = _patches(case, img)
    p0 = darsia.Patches(img, _count_arg(case))
    t = _tags(case)
    N, n, r = case["shape"], case["np"], case["ov"]
    tol = KTOL * EPS * _scale(ref)
    for name in ("global_corners_voxels", "local_corners_voxels", "global_centers_voxels"):
        a, b = np.asarray(getattr(p, name)), np.asarray(getattr(p0, name))
        if a.shape != b.shape or not np.array_equal(a, b):
            raise Violation("overlap-changes-table", f"{name} with rel_overlap={r!r} differs from the table "
                            "without overlap", _tags(case, table=name))
    for name in ("global_corners_cartesian", "global_centers_cartesian"):
        a, b = np.asarray(getattr(p, name), float), np.asarray(getattr(p0, name), float)
        if a.shape != b.shape or np.any(np.abs(a - b) > tol):
            raise Violation("overlap-changes-table", f"{name} with rel_overlap={r!r} differs from the table "
                            "without overlap", _tags(case, table=name))
    gcv = np.asarray(p.global_corners_voxels)
    n_eval = 0
    for i, j in _ij(case):
        inner = p(i, j).img[p.relative_rois_without_overlap[i][j]]
        plain = p0(i, j).img
        whole = plain[p0.relative_rois_without_overlap[i][j]]
        if whole.shape != plain.shape:
            raise Violation("plain-patch-not-interior", f"patch ({i},{j}) without overlap has shape {plain.shape} "
                            f"but its interior {whole.shape}", t)
        if inner.shape != plain.shape or not np.array_equal(inner, plain):
            raise Violation("overlap-changes-interior", f"patch ({i},{j}): interior with rel_overlap={r!r} (shape "
                            f"{inner.shape}) is not the patch without overlap (shape {plain.shape})", t)
        n_eval += 1
        if 0 in plain.shape[:2]:
            continue
        roi = p.rois[i][j]
        for d, idx in ((0, i), (1, j)):
            # about r patch sizes: between r * (N/n) rounded down and r * ceil(N/n) rounded up, plus
            # one voxel for a quotient that should have been an integer
            lo = int(np.floor(r * N[d] / n[d] * (1 - 1e-12)))
            hi = int(np.ceil(r * -(-N[d] // n[d]))) + 1
            reach = {}
            if idx > 0:
                reach["before"] = int(gcv[i, j, 0, d]) - int(roi[d].start or 0)
            if int(gcv[i, j, 2, d]) < N[d]:
                reach["behind"] = int(roi[d].stop) - int(gcv[i, j, 2, d])
            for side, e in reach.items():
                if not lo <= e <= hi:
                    raise Violation("overlap-width", f"patch ({i},{j}) of {n} patches on {N} voxels, "
                                    f"rel_overlap={r!r}: rois[{i}][{j}] = {roi} reaches {e} voxels {side} its "
                                    f"interior {gcv[i, j, 0].tolist()}..{gcv[i, j, 2].tolist()} on axis {d}; "
                                    f"{r!r} patch sizes are {lo}..{hi} voxels", _tags(case, side=side))
            # ... and the patch image has voxels on each side the roi reaches over
            sides = sum(1 for e in reach.values() if e >= 1)
            if p(i, j).img.shape[d] < inner.shape[d] + sides:
                raise Violation("overlap-width", f"patch ({i},{j}): rois[{i}][{j}] = {roi} reaches over the interior "
                                f"on {sides} side(s) of axis {d}, but the patch image has {p(i, j).img.shape[d]} "
                                f"voxels there and the interior {inner.shape[d]}", _tags(case, side="image"))
    return _outcome(case, p, n_eval)


# ---------------------------------------------------------------------------------------
# 8. one Patches object used repeatedly: assemble twice, set some patches, update the base
# ---------------------------------------------------------------------------------------


def _geometry(im):
    return [float(x) for x in np.asarray(im.origin, float)], [float(d) for d in im.dimensions]


def check_reuse(case):
    """assemble() is a pure read (same result twice, base object kept); set_image on some patches
    leaves the others as they were cut and the next assemble() shows the new content;
    assemble(update_img=True) returns the mosaic of the current
    interiors *and* makes it the base of the Patches object - as an image of its own, in the frame
    and class of the old base; a further assemble() gives the same mosaic again."""
    img, arr, ref = _build(case)
    p = _patches(case, img)
    t = _tags(case)
    ids = _ij(case)
    base0 = p.base
    out1 = p.assemble()
    out2 = p.assemble(False) if case["pseed"] % 3 == 0 else p.assemble(update_img=False)
    if out1.img.shape != out2.img.shape or not np.array_equal(out1.img, out2.img) or \
            not np.array_equal(out1.img, arr):
        raise Violation("reassemble-differs", "two assemble() calls in a row do not both reproduce the base", t)
    if p.base is not base0 or not np.array_equal(p.base.img, arr):
        raise Violation("base-replaced-without-update", "assemble() without update_img replaced or changed the "
                        "base of the Patches object", t)
    # new content for some of the patches
    rng = np.random.default_rng(case["pseed"])
    chosen = [ij for ij in ids if rng.integers(0, 2)] or [ids[int(rng.integers(0, len(ids)))]]
    new = {}
    for k, (i, j) in enumerate(chosen):
        new[(i, j)] = _block(p(i, j).img.shape, k, arr.dtype)
        p.set_image(new[(i, j)].copy(), i, j)
    want = np.zeros_like(arr)
    for (i, j) in ids:
        roi = p.rois[i][j]
        rel = p.relative_rois_without_overlap[i][j]
        cut = arr[roi[0], roi[1]]
        if (i, j) not in new and (p(i, j).img.shape != cut.shape or not np.array_equal(p(i, j).img, cut)):
            raise Violation("set-image-touches-other-patch", f"patch ({i},{j}) was not set but no longer is the "
                            f"base at rois[{i}][{j}] after set_image on {chosen}", t)
        content = new.get((i, j), cut)
        ph, pw = content.shape[:2]
        rows = np.arange(ph)[rel[0]] + (roi[0].start or 0)
        cols = np.arange(pw)[rel[1]] + (roi[1].start or 0)
        if len(rows) and len(cols):
            want[np.ix_(rows, cols)] = content[rel]
    # assemble() reads the patches as they are now, not as they were at the first call
    mid = p.assemble()
    if mid.img.shape != want.shape or not np.array_equal(mid.img, want):
        raise Violation("reassemble-stale", "assemble() after set_image on some patches (and an earlier assemble()) "
                        "is not the mosaic of the current patch interiors", t)
    if p.base is not base0 or not np.array_equal(p.base.img, arr):
        raise Violation("base-replaced-without-update", "set_image / assemble() without update_img replaced or "
                        "changed the base of the Patches object", t)
    out3 = p.assemble(update_img=True)
    if out3.img.shape != want.shape or not np.array_equal(out3.img, want):
        raise Violation("update-img-result", "assemble(update_img=True) does not return the mosaic of the current "
                        "patch interiors", t)
    b = p.base
    if b.img.shape != want.shape or b.img.dtype != arr.dtype or not np.array_equal(b.img, want):
        raise Violation("update-img-base", "after assemble(update_img=True) the base of the Patches object is not "
                        "the assembled image", t)
    if type(b).__name__ != case["cls"] or _geometry(b) != _geometry(img):
        raise Violation("update-img-frame", f"updated base: {type(b).__name__} at {_geometry(b)}, was "
                        f"{case['cls']} at {_geometry(img)}", t)
    if want.size:
        # the result handed to the caller and the new base are two images
        out3.img[...] = _block(want.shape, 41, arr.dtype)
        if not np.array_equal(p.base.img, want):
            raise Violation("update-img-base-aliases-result", "the updated base changed when the caller wrote into "
                            "the image returned by assemble(update_img=True)", t)
    out4 = p.assemble()
    if out4.img.shape != want.shape or not np.array_equal(out4.img, want):
        raise Violation("reassemble-differs", "assemble() after assemble(update_img=True) gives a different image", t)
    return _outcome(case, p, 5 + len(ids))


# ---------------------------------------------------------------------------------------
# 9. the patching follows the metadata the image has *now*, whatever its number type and history
# ---------------------------------------------------------------------------------------


def _special_class(case):
    return "origin-moved" if case.get("hist") else "integer-typed"


def check_current_metadata(case):
    try:
        return _compare_with_fresh(case)
    except Violation:
        if case.get("hist") and case.get("mtype", "float") != "float":
            # both classes at once: name the number type if it alone already makes the difference
            _compare_with_fresh(dict(case, hist=None))
        raise


def _compare_with_fresh(case):
    """An image whose origin / dimensions were given as integers, or whose origin was moved in place
    (reset_origin, update_metadata) after the image had been used, is patched exactly like a freshly
    constructed image with the same data and the same metadata given as floats: same rois, same corner
    and centre tables, same patch images at the same places, same re-assembled image. Conversion of
    whole numbers to floats is exact, so is the comparison (Cartesian values to the usual tolerance)."""
    img, arr, ref = _build(case)
    fresh, _, _ = _build(case, plain=True)
    kind = "differs-from-fresh-float-image:" + _special_class(case)
    tol = KTOL * EPS * _scale(ref)

    def differ(what, msg):
        return Violation(kind, f"{what}: {msg} [image: metadata as {case.get('mtype', 'float')}, history "
                         f"{case.get('hist')}; compared with a fresh image with dimensions {case['dims']}, origin "
                         f"{ref.origin.tolist()}]", _tags(case, what=what))

    def same_place(a, b):
        oa, ob = np.asarray(a.origin, float), np.asarray(b.origin, float)
        da, db = np.asarray(a.dimensions, float), np.asarray(b.dimensions, float)
        return oa.shape == ob.shape and da.shape == db.shape and not np.any(np.abs(oa - ob) > tol) \
            and not np.any(np.abs(da - db) > tol[[1, 0]])

    # the image itself reports the metadata of the case
    if not np.array_equal(np.asarray(img.origin, float), ref.origin) or \
            [float(d) for d in img.dimensions] != [float(d) for d in case["dims"]]:
        raise differ("base-metadata", f"the image reports origin {np.asarray(img.origin).tolist()}, dimensions "
                     f"{list(img.dimensions)}")
    p = _patches(case, img)
    q = _patches(case, fresh)
    ids = _ij(case)
    for name in ("rois", "relative_rois_without_overlap"):
        a, b = getattr(p, name), getattr(q, name)
        if [[tuple(x) for x in row] for row in a] != [[tuple(x) for x in row] for row in b]:
            raise differ(name, f"{a} vs {b}")
    for name in ("global_corners_voxels", "local_corners_voxels", "global_centers_voxels"):
        a, b = np.asarray(getattr(p, name)), np.asarray(getattr(q, name))
        if a.shape != b.shape or not np.array_equal(a, b):
            k = tuple(int(x) for x in np.argwhere(a != b)[0][:2]) if a.shape == b.shape else None
            raise differ(name, f"shape {a.shape} vs {b.shape}" if k is None else
                         f"patch {k}: {a[k].tolist()} vs {b[k].tolist()}")
    for name in ("global_corners_cartesian", "global_centers_cartesian"):
        a, b = np.asarray(getattr(p, name), float), np.asarray(getattr(q, name), float)
        if a.shape != b.shape or np.any(np.abs(a - b) > tol):
            k = tuple(int(x) for x in np.argwhere(np.abs(a - b) > tol)[0][:2]) if a.shape == b.shape else None
            raise differ(name, f"shape {a.shape} vs {b.shape}" if k is None else
                         f"patch {k}: {a[k].tolist()} vs {b[k].tolist()}")
    for i, j in ids:
        a, b = p(i, j), q(i, j)
        if a.img.shape != b.img.shape or a.img.dtype != b.img.dtype or not np.array_equal(a.img, b.img):
            raise differ("patch-data", f"patch ({i},{j}) has other content")
        if 0 in a.img.shape[:2]:
            continue
        if not same_place(a, b):
            raise differ("patch-geometry", f"patch ({i},{j}) sits at origin {np.asarray(a.origin).tolist()} with "
                         f"dimensions {list(a.dimensions)}, the fresh image's patch at "
                         f"{np.asarray(b.origin).tolist()} with {list(b.dimensions)}")
    out, want = p.assemble(), q.assemble()
    if out.img.shape != want.img.shape or not np.array_equal(out.img, want.img) or not np.array_equal(out.img, arr):
        raise differ("assembled-data", "assemble() gives another image")
    if not same_place(out, want):
        raise differ("assembled-geometry", f"assembled image at {np.asarray(out.origin).tolist()} / "
                     f"{list(out.dimensions)}, from the fresh image at {np.asarray(want.origin).tolist()} / "
                     f"{list(want.dimensions)}")
    return _outcome(case, p, 8 + 2 * len(ids))


# ---------------------------------------------------------------------------------------

_RULE = ("Hypothesis draws a 2-D image (extents 1..40 per axis, one third forced divisible by the "
         "patch count), patch counts 1..6 per axis (as list, tuple or list of numpy integers), relative "
         "overlap in [0, 0.5] (in [0.01, 0.5] for overlap_extends_interiors), physical dimensions "
         "power-of-two / unit / decimal voxel sizes (0.05, 0.1, 0.3, 1/3, ... - the float-ceil "
         "hazard) / generic, default or user origin, payload scalar / 3-channel colour / general "
         "trailing axes (1, 2, 4 channels, 2x2 tensors) as Image / ScalarImage / OpticalImage (RGB, BGR, "
         "HSV), dtypes float64 / float32 / uint8 / uint16 / int64 / bool, optionally a name and a time; "
         "the metadata numbers as floats, or dimensions and / or origin as Python ints (whole-number values; "
         "a quarter of the integer-dimension cases omit the dimensions: default [1, 1]); about half of the "
         "images are not fresh: constructed at another origin, used (coordinate system read, patched, "
         "subregion cut, or nothing) and moved in place by reset_origin() or update_metadata(origin=...) "
         "to the origin of the case, against which every law is judged (follows_current_metadata draws only "
         "integer-typed and / or moved images); "
         "non-trivial = extent not divisible by the count, or overlap > 0, or "
         "non-power-of-two dimensions; distinct = (shape, counts, dimensions, overlap, origin, payload)")

_N = {"quick": 1500, "thorough": 30000}
_SH = {"quick": 3, "thorough": 16}
_N2 = {"quick": 1000, "thorough": 20000}
_SH2 = {"quick": 2, "thorough": 16}

PROP = Prop(
    pid="C19",
    rule=_RULE,
    assumptions=[
        "reference map RefCS for the base image; tolerance 64 eps (|origin| + extent + h)",
        "the patch interiors are exactly what relative_rois_without_overlap selects from the patch "
        "images, and global_corners_voxels are ordered top-left, bottom-left, bottom-right, top-right",
        "a centre is 'inside' its box if its physical position, converted by the reference map, lies "
        "in the closed voxel box (margin 1e-6 voxel); the integer centre voxel is only judged when "
        "the position is not within 1e-6 of a voxel face",
        "empty patches (more patches than voxels, or ceil(N/n)*(n-1) >= N) are allowed and labelled; "
        "only tiling / data laws are asserted for them",
        "local_corners_voxels: box of the interior in the patch's own frame; its position inside an "
        "overlapping patch image is not specified (only its size is asserted there), without overlap it "
        "starts at (0, 0) as PiecewisePerspectiveTransform assumes",
        "'relative overlap r in relation to patch size in each direction': a patch reaches between "
        "floor(r N/n) and ceil(r ceil(N/n)) + 1 voxels over its interior on every side with a neighbour; "
        "corner / centre tables and interiors do not depend on r",
        "set_image stores content, not the caller's buffer; assemble(update_img=True) makes an image of its "
        "own the base (both copies are explicit in the source); whether the image object originally handed "
        "to Patches changes on update_img is not asserted",
        "origin / dimensions given as whole Python ints mean the same image as the floats of equal value "
        "(the constructor's own defaults are ints: dimensions [1, 1], origin [0, 0]); reset_origin() and "
        "update_metadata(origin=Coordinate) are the documented in-place ways to move an image, after which "
        "the image is the one a constructor call with the new origin gives: follows_current_metadata compares "
        "rois, all corner / centre tables, patch data and placement, and the assembled image with those of a "
        "freshly constructed float-typed image (voxel tables and data exactly, Cartesian values to the tolerance "
        "above); a case that is both integer-typed and moved is attributed to the number type if the "
        "difference persists without the move",
        "patch counts given as numpy integers are accepted like Python ints (observed; counts usually come "
        "out of array computations)",
    ],
    subs=[
        Sub("assemble_identity", check_assemble, gen=gen, n=_N, shards=_SH),
        Sub("interiors_tile", check_tile, gen=gen, n=_N, shards=_SH),
        Sub("set_image_then_assemble", check_set_image, gen=gen, n=_N, shards=_SH),
        Sub("patch_is_subimage", check_subimage, gen=gen, n=_N, shards=_SH),
        Sub("corners_centres_agree", check_corners_centres, gen=gen, n=_N, shards=_SH),
        Sub("centre_in_own_box", check_centre_in_box, gen=gen, n=_N, shards=_SH),
        Sub("local_corners", check_local_corners, gen=gen, n=_N2, shards=_SH2),
        Sub("overlap_extends_interiors", check_overlap, gen=gen_overlap, n=_N2, shards=_SH2),
        Sub("reuse_and_update_base", check_reuse, gen=gen, n=_N2, shards=_SH2),
        Sub("follows_current_metadata", check_current_metadata, gen=gen_special, n=_N2, shards=_SH2),
    ],
)
