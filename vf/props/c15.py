"""C15 - every quadrature rule is exact to its nominal degree (exhaustive over the API's rules)."""
import itertools
import os

import numpy as np

import darsia
from vf.runner import HarnessError, Outcome, Prop, Sub, Violation

Q = darsia.quadrature

# every (dim, order) the API documents; these must be offered.  Which *other* pairs are offered
# is discovered by probing (see ``check_probe``): a pair is either rejected with
# NotImplementedError or it is a rule and then has to obey every law of the property.
ACCEPTED = {1: [0, 1, 2, 3, 4, "max"], 2: [0, 1, 2, 3, "max"], 3: [0, 1, 2, "max"]}
_MAX_DOC = {1: 4, 2: 3, 3: 2}  # only a fall-back for naming kinds


def _max_order(dim):
    """The highest integer order the API offers for ``dim`` (orders are offered consecutively
    from 0): what the symbolic order 'max' stands for.  -1 if the dimension is not offered."""
    k = -1
    while k < 40:
        try:
            Q.gauss(dim, k + 1)
        except NotImplementedError:
            break
        k += 1
    return k


def _npts(dim, order):
    return (_max_order(dim) if isinstance(order, str) else int(order)) + 1


def _call(fn, dim, order=None, form="int"):
    """One public call, in one of the call forms callers use: positional python ints,
    positional numpy integers (dimensions / orders taken from arrays), keywords."""
    f = getattr(Q, fn)
    d, o = dim, order
    if form == "np":
        d = np.int64(dim)
        o = order if isinstance(order, str) or order is None else np.int64(order)
    if fn == "reference_cell_corners":
        return f(dim=d) if form == "kw" else f(d)
    return f(dim=d, order=o) if form == "kw" else f(d, o)


def _unpack(ret, t):
    """The documented return value: a pair of numpy arrays (points, weights)."""
    try:
        pts, w = ret
    except (TypeError, ValueError):
        raise V("container", f"return value is not a (points, weights) pair: {type(ret).__name__}", t)
    if not (isinstance(pts, np.ndarray) and isinstance(w, np.ndarray)):
        raise V("container", f"points / weights are {type(pts).__name__} / {type(w).__name__}, "
                "documented: numpy arrays", t)
    return pts, w


def _normal(pts, w, dim):
    pts = np.asarray(pts, dtype=float)
    w = np.asarray(w, dtype=float)
    if pts.ndim == 1 and dim == 1:
        pts = pts.reshape(-1, 1)
    return pts, w


def _rule(case):
    dim, order, cell = case["dim"], case["order"], case["cell"]
    if cell == "sym":
        ret = Q.gauss(dim, order)
        lo, hi = -1.0, 1.0
    elif cell == "unit":
        ret = Q.gauss_reference_cell(dim, order)
        lo, hi = 0.0, 1.0
    else:
        ret = Q.reference_cell_corners(dim)
        lo, hi = 0.0, 1.0
    pts, w = _normal(*_unpack(ret, _tags(case)), dim)
    return pts, w, lo, hi


def _tags(case):
    return {"dim": case["dim"], "order": case["order"], "cell": case["cell"]}


def _labels(case):
    dim, order, cell = case["dim"], case["order"], case["cell"]
    out = [f"dim{dim}", f"cell:{cell}"]
    if cell != "corners":
        out.append("order:max" if order == "max" else f"order:{order}")
    return tuple(out)


class V(Violation):
    """Violation whose kind names the rule: each table is its own root cause."""

    def __init__(self, kind, message, tags):
        d, o = tags.get("dim"), tags.get("order")
        if o == "max":
            try:
                o = _max_order(d)
            except Exception:  # naming only; never let the name hide the violation
                o = _MAX_DOC.get(d)
        super().__init__(f"{kind}:dim{d}-order{o}", message, tags)


def _mono_exact(e, lo, hi):
    return float(np.prod([(hi ** (k + 1) - lo ** (k + 1)) / (k + 1) for k in e]))


def enum_rules(tier):
    cases = []
    for dim in (1, 2, 3):
        for order in ACCEPTED[dim]:
            for cell in ("sym", "unit"):
                cases.append({"dim": dim, "order": order, "cell": cell})
        cases.append({"dim": dim, "order": "corners", "cell": "corners"})
    return cases


def check_shape(case):
    pts, w, lo, hi = _rule(case)
    dim = case["dim"]
    t = _tags(case)
    if pts.ndim != 2 or pts.shape[1] != dim:
        raise V("point-width", f"points have shape {pts.shape} for dim {dim}", t)
    if w.ndim != 1 or len(w) != len(pts):
        raise V("count", f"{len(pts)} points but {w.shape} weights", t)
    if case["cell"] != "corners":
        n = _npts(dim, case["order"])
        if len(pts) != n**dim:
            raise V("count", f"{len(pts)} points, expected {n}^{dim}", t)
    else:
        if len(pts) != 2**dim:
            raise V("count", f"{len(pts)} corners, expected {2**dim}", t)
    if np.any(pts < lo - 1e-15) or np.any(pts > hi + 1e-15):
        raise V("outside", "points outside the cell", t)
    if len({tuple(np.round(p, 12)) for p in pts}) != len(pts):
        raise V("duplicate", "duplicate points", t)
    return Outcome(nontrivial=len(pts) > 1, key=t, labels=_labels(case))


def check_positive_sum(case):
    pts, w, lo, hi = _rule(case)
    t = _tags(case)
    if not np.all(w > 0):
        raise V("nonpositive", f"weights not positive: {w}", t)
    meas = (hi - lo) ** case["dim"]
    if abs(w.sum() - meas) > 1e-13 * meas:
        raise V("sum", f"weights sum to {w.sum()!r}, measure {meas}", t)
    return Outcome(nontrivial=len(w) > 1, key=t, labels=_labels(case))


def _worst_monomial(pts, w, dim, deg, lo, hi):
    worst = (0.0, None)
    n = 0
    for e in itertools.product(range(deg + 1), repeat=dim):
        n += 1
        val = float(np.sum(w * np.prod(pts ** np.array(e), axis=1)))
        err = abs(val - _mono_exact(e, lo, hi))
        if err > worst[0]:
            worst = (err, e)
    return worst, n


def check_exact(case):
    """All monomials with per-variable degree <= 2n-1 are integrated exactly."""
    pts, w, lo, hi = _rule(case)
    t = _tags(case)
    dim = case["dim"]
    if len(w) != len(pts):
        raise V("count", f"{len(pts)} points but {len(w)} weights", t)
    deg = 1 if case["cell"] == "corners" else 2 * _npts(dim, case["order"]) - 1
    worst, n = _worst_monomial(pts, w, dim, deg, lo, hi)
    if worst[0] > 2e-13:
        raise V("inexact", f"monomial exponents {worst[1]}: error {worst[0]:.3e}", t)
    return Outcome(nontrivial=dim >= 2 or deg >= 3, key=t, evals=n, labels=_labels(case))


def check_tensor(case):
    """Point set is the tensor grid of numpy's Gauss-Legendre nodes; each weight is the product
    of the 1-D weights (pinpoints which table entry is wrong)."""
    if case["cell"] == "corners":
        pts, w, lo, hi = _rule(case)
        want = set(itertools.product((0.0, 1.0), repeat=case["dim"]))
        if {tuple(p) for p in pts} != want:
            raise V("corner-set", "corners are not {0,1}^dim", _tags(case))
        if not np.allclose(w, 0.5 ** case["dim"], rtol=0, atol=1e-15):
            raise V("corner-weights", f"{w}", _tags(case))
        return Outcome(nontrivial=case["dim"] >= 2, key=_tags(case), labels=_labels(case))
    pts, w, lo, hi = _rule(case)
    t = _tags(case)
    dim = case["dim"]
    n = _npts(dim, case["order"])
    x1, w1 = np.polynomial.legendre.leggauss(n)
    if case["cell"] == "unit":
        x1 = (x1 + 1) / 2
        w1 = w1 / 2
    if len(w) != len(pts):
        raise V("count", f"{len(pts)} points but {len(w)} weights", t)
    seen = set()
    for p, wt in zip(pts, w):
        idx = []
        for c in p:
            j = int(np.argmin(np.abs(x1 - c)))
            if abs(x1[j] - c) > 1e-14:
                raise V("node", f"coordinate {c!r} is not a Gauss-Legendre node", t)
            idx.append(j)
        seen.add(tuple(idx))
        ref = float(np.prod(w1[idx]))
        if abs(ref - wt) > 1e-14:
            raise V("weight", f"point {p.tolist()}: weight {wt!r}, product rule {ref!r}", t)
    if len(seen) != n**dim:
        raise V("grid", f"{len(seen)} distinct tensor nodes, expected {n**dim}", t)
    return Outcome(nontrivial=dim >= 2 and n >= 2, key=t, labels=_labels(case))


# ---------------------------------------------------------------------------------------
# state between calls
# ---------------------------------------------------------------------------------------

def enum_sequences(tier):
    out = []
    for dim in (1, 2, 3):
        for order in ACCEPTED[dim]:
            for seq in (["unit", "sym", "unit", "sym"], ["sym", "unit", "sym"], ["corners", "unit", "corners"]):
                out.append({"dim": dim, "order": order, "seq": seq})
    return out


def check_repeatable(case):
    """A rule is the same whenever it is asked for: earlier calls (of the same or the other cell
    variant, same key) and in-place edits of previously returned arrays do not change it."""
    dim, order = case["dim"], case["order"]
    t = {"dim": dim, "order": order, "cell": "sequence"}
    first = {}
    for k, cell in enumerate(case["seq"]):
        pts, w, lo, hi = _rule({"dim": dim, "order": order, "cell": cell})
        meas = (hi - lo) ** dim
        if len(w) == len(pts) and abs(w.sum() - meas) > 1e-13 * meas:
            raise V("sequence-sum", f"call {k} ({cell}) after {case['seq'][:k]}: weights sum to {w.sum()!r}, "
                    f"measure {meas}", t)
        if cell in first:
            p0, w0 = first[cell]
            if not (np.array_equal(p0, pts) and np.array_equal(w0, w)):
                raise V("sequence-changed", f"call {k} ({cell}) differs from the first {cell} call", t)
        else:
            first[cell] = (pts.copy(), w.copy())
        # a caller scribbling on what it got must not reach later callers
        raw = (Q.gauss(dim, order) if cell == "sym" else
               Q.gauss_reference_cell(dim, order) if cell == "unit" else Q.reference_cell_corners(dim))
        for arr in raw:
            if isinstance(arr, np.ndarray) and arr.flags.writeable:
                arr *= 3.0
    return Outcome(True, case, labels=(f"dim{dim}", "order:max" if order == "max" else f"order:{order}"))


# ---------------------------------------------------------------------------------------
# which (dimension, order) pairs are rules at all
# ---------------------------------------------------------------------------------------

_PROBE_DIMS = (-1, 0, 1, 2, 3, 4, 5)
_PROBE_ORDERS = tuple(range(-3, 13)) + ("max",)


def enum_probe(tier):
    out = []
    for fn in ("gauss", "gauss_reference_cell"):
        for dim in _PROBE_DIMS:
            for order in _PROBE_ORDERS:
                for form in ("int", "np", "kw"):
                    out.append({"fn": fn, "dim": dim, "order": order, "form": form})
    for dim in _PROBE_DIMS + (6,):
        for form in ("int", "np", "kw"):
            out.append({"fn": "reference_cell_corners", "dim": dim, "order": "corners", "form": form})
    return out


def check_probe(case):
    """Every probe of the API - any dimension, any integer order, 'max', through every entry
    point and call form - is either rejected with NotImplementedError or answered with a rule,
    and what is answered obeys the whole property: n = order + 1 points per direction, as many
    weights, positive, summing to the measure, exact to per-variable degree 2n-1 (corners:
    multilinear).  The documented pairs must be answered; 'max' is the highest order answered."""
    fn, dim, order, form = case["fn"], case["dim"], case["order"], case["form"]
    cell = {"gauss": "sym", "gauss_reference_cell": "unit", "reference_cell_corners": "corners"}[fn]
    t = {"dim": dim, "order": order, "cell": cell, "form": form}
    documented = dim in ACCEPTED and (cell == "corners" or order in ACCEPTED[dim])
    try:
        ret = _call(fn, dim, None if cell == "corners" else order, form)
    except TypeError:
        if form != "kw":
            raise
        try:  # the documented parameter names (dim, order) are part of the call interface
            _call(fn, dim, None if cell == "corners" else order, "int")
        except NotImplementedError:
            pass
        raise Violation(f"call-form-keywords:{fn}", f"{fn} does not take its documented parameters "
                        "(dim, order) by name", t)
    except NotImplementedError:
        if documented:
            raise V("documented-rejected", f"{fn}({dim}, {order!r}) [{form}] raised NotImplementedError", t)
        return Outcome(nontrivial=False, key=case, status="rejected", labels=("rejected", f"form:{form}", fn))
    labels = ("answered", f"form:{form}", fn, "documented" if documented else "beyond-documented")
    if dim < 1:
        return Outcome(nontrivial=False, key=case, labels=labels)
    pts, w = _normal(*_unpack(ret, t), dim)
    lo, hi = (-1.0, 1.0) if cell == "sym" else (0.0, 1.0)
    if cell == "corners":
        n, deg = 2, 1
    else:
        if not isinstance(order, str) and order < 0:
            raise V("negative-order", f"{fn}({dim}, {order}) answered with {len(pts)} points", t)
        n = _npts(dim, order)
        deg = 2 * n - 1
    if pts.ndim != 2 or pts.shape[1] != dim:
        raise V("point-width", f"points have shape {pts.shape} for dim {dim}", t)
    if w.ndim != 1 or len(w) != len(pts):
        raise V("count", f"{len(pts)} points but {w.shape} weights", t)
    if len(pts) != n**dim:
        raise V("count", f"{len(pts)} points, expected {n}^{dim} for order {order!r}", t)
    if not np.all(w > 0):
        raise V("nonpositive", f"weights not positive: {w}", t)
    meas = (hi - lo) ** dim
    if abs(w.sum() - meas) > 1e-13 * meas:
        raise V("sum", f"weights sum to {w.sum()!r}, measure {meas}", t)
    if np.any(pts < lo - 1e-15) or np.any(pts > hi + 1e-15):
        raise V("outside", "points outside the cell", t)
    worst, nev = _worst_monomial(pts, w, dim, deg, lo, hi)
    if worst[0] > 2e-13:
        raise V("inexact", f"monomial exponents {worst[1]}: error {worst[0]:.3e}", t)
    # the call form is not part of the rule
    ref = _call(fn, dim, None if cell == "corners" else order, "int")
    rp, rw = _normal(*_unpack(ref, t), dim)
    if not (np.array_equal(rp, pts) and np.array_equal(rw, w)):
        raise V("call-form", f"{fn}({dim}, {order!r}) differs between call form {form} and plain ints", t)
    return Outcome(nontrivial=True, key=case, evals=nev, labels=labels)


# ---------------------------------------------------------------------------------------
# consumer: transport density
# ---------------------------------------------------------------------------------------

def enum_consumer(tier):
    cases = []
    for dim, shape in ((1, [3]), (2, [3, 2]), (3, [2, 3, 2]), (2, [1, 3]), (3, [1, 2, 1])):
        for mode in ("RAVIART_THOMAS", "CONSTANT_SUBCELL_PROJECTION", "CONSTANT_CELL_PROJECTION"):
            for axis in range(dim):
                cases.append({"dim": dim, "shape": shape, "mode": mode, "axis": axis})
    return cases


def check_consumer(case):
    """transport_density of an affine RT0 flux field: the flux u(x) = x_axis * e_axis restricted
    to one cell has face values 0 and 1, so its density integrates |t| over the cell = 1/2 for
    every rule that integrates linears exactly."""
    from darsia.measure.wasserstein import L1Mode

    dim, shape, axis = case["dim"], case["shape"], case["axis"]
    grid = darsia.Grid(shape=tuple(shape), voxel_size=[1.0] * dim)
    w1 = darsia.WassersteinDistanceBregman(
        grid, options={"l1_mode": getattr(L1Mode, case["mode"]), "num_iter": 1})
    t = {"dim": dim, "mode": case["mode"], "cell": "consumer", "order": "default"}
    # flux: on faces normal to `axis`, value = (index of the face along axis + 1) -> in cell c
    # along axis the component varies linearly from c to c+1 (0 on the outer boundary faces)
    flux = np.zeros(grid.num_faces)
    n_ax = shape[axis]
    if n_ax < 2:
        return Outcome(nontrivial=False, key=case, status="skipped")
    for f in grid.faces[axis]:
        lo_cell = grid.connectivity[f, 0]
        idx = np.unravel_index(lo_cell, grid.shape, order="F")
        flux[f] = idx[axis] + 1.0
    dens = w1.transport_density(flux, weighted=False, flatten=False)
    # in cell with index c along axis: values c (low face; 0 if boundary) and c+1 (0 on last)
    expect = np.zeros(shape)
    for idx in np.ndindex(*shape):
        c = idx[axis]
        lo = float(c)
        hi = float(c + 1) if c < n_ax - 1 else 0.0
        if case["mode"] == "CONSTANT_SUBCELL_PROJECTION":
            val = 0.5 * (abs(lo) + abs(hi))
        else:
            val = 0.5 * (lo + hi)  # lo, hi >= 0: |linear| = linear, exact for both Gauss rules
        expect[idx] = val
    if not np.allclose(dens, expect, rtol=0, atol=1e-13):
        bad = np.argwhere(np.abs(dens - expect) > 1e-13)[0]
        raise V("consumer", f"density {dens[tuple(bad)]!r} vs {expect[tuple(bad)]!r} "
                        f"in cell {bad.tolist()}", t)
    return Outcome(nontrivial=dim >= 2, key=case, labels=(f"dim{dim}", case["mode"]))


_FLUX_SHAPES = {
    "quick": {1: ([2], [3], [6]), 2: ([3, 2], [1, 3], [4, 3]), 3: ([2, 3, 2], [1, 2, 1], [3, 3, 3])},
    "thorough": {1: ([2], [3], [6], [9]), 2: ([3, 2], [1, 3], [4, 3], [2, 5], [3, 1]),
                 3: ([2, 3, 2], [1, 2, 1], [3, 3, 3], [2, 1, 4], [4, 3, 2])},
}
_FLUX_CLASSES = ("single-axis-one-sign", "single-axis-signed", "constant-vector", "general")
_MODES = ("RAVIART_THOMAS", "CONSTANT_SUBCELL_PROJECTION", "CONSTANT_CELL_PROJECTION")


def enum_flux(tier):
    """Structure enumerated (dimension x shape x mode x flux class x repetitions); magnitude
    class, voxel sizes, axis, sign and the payload seed are drawn from VERIF_SEED."""
    seed = int(os.environ.get("VERIF_SEED", "1") or "1")
    rng = np.random.default_rng([seed, 15])
    reps = {"quick": 2, "thorough": 24}[tier]
    out = []
    for dim in (1, 2, 3):
        for shape in _FLUX_SHAPES[tier][dim]:
            for mode in _MODES:
                for fclass in _FLUX_CLASSES:
                    for _ in range(reps):
                        out.append({
                            "dim": dim, "shape": list(shape), "mode": mode, "fclass": fclass,
                            "axis": int(rng.integers(0, dim)),
                            "sign": int(rng.choice([-1, 1])),
                            "scale_exp": int(rng.choice([0, 0, -30, -7, 9, 30])),
                            "vox": [float(2.0 ** int(k)) for k in rng.integers(-3, 4, size=dim)]
                            if rng.integers(0, 3) else [1.0] * dim,
                            "pseed": int(rng.integers(0, 2**31 - 1)),
                        })
    return out


def _flux_field(case, grid):
    """Dyadic face values k/8 (|k| <= 32) times 2**scale_exp: every product with the weights of
    the corner and mid-point rules is exact."""
    rng = np.random.default_rng(case["pseed"])
    flux = np.zeros(grid.num_faces)
    fclass = case["fclass"]
    scale = 2.0 ** case["scale_exp"]
    if fclass == "single-axis-one-sign":
        f = grid.faces[case["axis"]]
        flux[f] = case["sign"] * rng.integers(0, 33, size=len(f)) / 8.0
    elif fclass == "single-axis-signed":
        f = grid.faces[case["axis"]]
        flux[f] = rng.integers(-32, 33, size=len(f)) / 8.0
    elif fclass == "constant-vector":
        for a in range(grid.dim):
            flux[grid.faces[a]] = int(rng.integers(-32, 33)) / 8.0
    else:
        flux[:] = rng.integers(-32, 33, size=grid.num_faces) / 8.0
    return flux * scale


def _face_values(grid, flux, shape):
    """Independent RT0 bookkeeping from the connectivity table: for every cell and axis the normal
    flux on its low and on its high face (0 on the boundary)."""
    dim = len(shape)
    lo = np.zeros((*shape, dim))
    hi = np.zeros((*shape, dim))
    for a in range(dim):
        for f in grid.faces[a]:
            c0, c1 = grid.connectivity[f]
            i0 = tuple(int(i) for i in np.unravel_index(c0, shape, order="F"))
            i1 = tuple(int(i) for i in np.unravel_index(c1, shape, order="F"))
            if tuple(np.subtract(i1, i0)) != tuple(int(b == a) for b in range(dim)):
                raise HarnessError(f"face {f} of axis {a} joins cells {i0} and {i1}")
            hi[i0 + (a,)] = flux[f]
            lo[i1 + (a,)] = flux[f]
    return lo, hi


def check_flux_laws(case):
    """transport_density for arbitrary face fluxes (signed, all axes, any magnitude, any voxel
    size), through every call form.  With v(x) the RT0 extension of the face values in a cell
    (component a linear in x_a between the low- and the high-face value):
      * CONSTANT_CELL_PROJECTION ('quadrature of order 0')  = |v(centre)|,
      * CONSTANT_SUBCELL_PROJECTION ('quadrature over corners') = mean of |v| over the corners,
      * RAVIART_THOMAS (a Gauss rule): |v| is convex, so any rule with positive weights summing
        to one that is exact for multilinear functions lies between the two values above, and
        equals them where |v| is itself (multi)linear: one non-zero component that does not
        change sign in the cell, or a constant vector;
      * the default call (weighted by the default unit weights, flattened) is the same field in
        the grid's flat cell order; l1_dissipation is its integral (cell volume x density);
      * asking twice gives the same answer and the flux array is left alone."""
    from darsia.measure.wasserstein import L1Mode

    dim, shape, mode = case["dim"], tuple(case["shape"]), case["mode"]
    grid = darsia.Grid(shape=shape, voxel_size=[float(v) for v in case["vox"]])
    w1 = darsia.WassersteinDistanceBregman(
        grid, options={"l1_mode": getattr(L1Mode, mode), "num_iter": 1})
    t = {"dim": dim, "mode": mode, "cell": "consumer", "order": "default", "fclass": case["fclass"]}
    flux = _flux_field(case, grid)
    keep = flux.copy()
    amax = float(np.max(np.abs(flux))) if flux.size else 0.0
    tol = 1e-13 * amax
    lo, hi = _face_values(grid, flux, shape)

    mid = np.sqrt(np.sum((0.5 * (lo + hi)) ** 2, axis=-1))
    corner = np.zeros(shape)
    for c in itertools.product((0, 1), repeat=dim):
        v = np.where(np.array(c, dtype=bool), hi, lo)
        corner += np.sqrt(np.sum(v**2, axis=-1))
    corner *= 0.5**dim

    dens = w1.transport_density(flux, weighted=False, flatten=False)
    if not isinstance(dens, np.ndarray) or dens.shape != shape:
        raise V("consumer-shape", f"density of shape {getattr(dens, 'shape', None)} on grid {shape}", t)

    def worst(diff):
        bad = np.unravel_index(int(np.argmax(diff)), shape)
        return [int(i) for i in bad]

    labels = [f"dim{dim}", mode, case["fclass"],
              "scale:one" if case["scale_exp"] == 0 else "scale:tiny" if case["scale_exp"] < 0 else "scale:huge",
              "vox:unit" if all(v == 1.0 for v in case["vox"]) else "vox:anisotropic"]
    nev = int(np.prod(shape))
    if mode == "CONSTANT_CELL_PROJECTION":
        d = np.abs(dens - mid)
        if np.any(d > tol):
            b = worst(d)
            raise V("consumer-midpoint", f"cell {b}: density {dens[tuple(b)]!r}, |v(centre)| = {mid[tuple(b)]!r}", t)
        ref_lo = ref_hi = mid
    elif mode == "CONSTANT_SUBCELL_PROJECTION":
        d = np.abs(dens - corner)
        if np.any(d > tol):
            b = worst(d)
            raise V("consumer-corners", f"cell {b}: density {dens[tuple(b)]!r}, corner mean {corner[tuple(b)]!r}", t)
        ref_lo = ref_hi = corner
    else:
        d = np.maximum(mid - dens, dens - corner)
        if np.any(d > tol):
            b = worst(d)
            raise V("consumer-gauss-bounds", f"cell {b}: density {dens[tuple(b)]!r} outside "
                    f"[{mid[tuple(b)]!r}, {corner[tuple(b)]!r}] (centre value, corner mean)", t)
        nz = (lo != 0) | (hi != 0)
        linear = (nz.sum(axis=-1) <= 1) & np.all(lo * hi >= 0, axis=-1)
        const = np.all(lo == hi, axis=-1)
        exact = linear | const
        if np.any(exact):
            labels.append("gauss:cells-with-linear-integrand")
            nev += int(exact.sum())
            d = np.where(exact, np.abs(dens - corner), 0.0)  # corner mean is exact for (multi)linear |v|
            if np.any(d > tol):
                b = worst(d)
                raise V("consumer-gauss-linear", f"cell {b}: density {dens[tuple(b)]!r}, exact integral "
                        f"{corner[tuple(b)]!r} (face values low {lo[tuple(b)].tolist()}, high {hi[tuple(b)].tolist()})", t)
        if not np.all(exact):
            labels.append("gauss:cells-with-nonlinear-integrand")
        ref_lo, ref_hi = mid, corner
        # ... and it is the documented rule, weights included: the 'max' Gauss rule of the unit cell (whose
        # exactness the other sub-checks establish) applied to |v|, written out here point by point
        qp, qw = Q.gauss_reference_cell(dim, "max")
        qp = np.asarray(qp, dtype=float).reshape(len(np.asarray(qw)), -1)
        byrule = np.zeros(shape)
        for xq, wq in zip(qp, np.asarray(qw, dtype=float)):
            vq = (1.0 - xq) * lo + xq * hi
            byrule += wq * np.sqrt(np.sum(vq**2, axis=-1))
        d = np.abs(dens - byrule)
        if np.any(d > 16 * tol):
            b = worst(d)
            raise V("consumer-gauss-rule", f"cell {b}: density {dens[tuple(b)]!r}, the 'max' Gauss rule with its "
                    f"weights gives {byrule[tuple(b)]!r}", t)

    # second request on the same object
    again = w1.transport_density(flux, weighted=False, flatten=False)
    if not np.array_equal(again, dens):
        raise V("consumer-repeat", "the second request on the same object differs from the first", t)
    # default call form: default (unit) weights, flattened in the grid's cell order
    flat = w1.transport_density(flux)
    want = np.ravel(dens, "F")
    if not isinstance(flat, np.ndarray) or flat.shape != want.shape or not np.array_equal(flat, want):
        raise V("consumer-default-call", f"transport_density(flux) is not the flattened (cell order) "
                f"field of the explicit call: {np.asarray(flat).tolist()} vs {want.tolist()}", t)
    vol = float(np.prod(case["vox"]))
    diss = float(w1.l1_dissipation(flux))
    ncell = int(np.prod(shape))
    if not (vol * float(ref_lo.sum()) - vol * ncell * tol <= diss <= vol * float(ref_hi.sum()) + vol * ncell * tol):
        raise V("consumer-dissipation", f"l1_dissipation {diss!r}, integral of the density in "
                f"[{vol * float(ref_lo.sum())!r}, {vol * float(ref_hi.sum())!r}]", t)
    if not np.array_equal(flux, keep):
        raise V("consumer-mutates-flux", "the flux array passed in was modified", t)
    nontrivial = amax > 0 and int(np.prod(shape)) > 1
    return Outcome(nontrivial=nontrivial, key=case, labels=tuple(labels), evals=nev + 3)


_RULE = ("enumerate every (dimension, order, cell) rule the API offers - the documented pairs and "
         "whatever else a probe of dimensions -1..5 x orders -3..12, 'max' is answered with; "
         "non-trivial = more than one point (shape/sum), dim>=2 or degree>=3 (exactness), dim>=2 "
         "and >=2 points per direction (tensor structure), answered probes, non-zero flux fields "
         "on more than one cell (consumer); distinct = (dim, order, cell[, call form])")

PROP = Prop(
    pid="C15",
    rule=_RULE,
    assumptions=["analytic monomial integrals and numpy.polynomial.legendre.leggauss are the "
                 "reference", "tolerance 2e-13 absolute on [-1,1]^d and the unit cell",
                 "consumer: RT0 face-value bookkeeping from Grid.connectivity; dyadic face fluxes; "
                 "tolerance 1e-13 relative to the largest face flux"],
    subs=[
        Sub("shape_consistency", check_shape, enum=enum_rules, exhaustive=True, shards={"quick": 1, "thorough": 1}),
        Sub("positive_sum_to_measure", check_positive_sum, enum=enum_rules, exhaustive=True, shards={"quick": 1, "thorough": 1}),
        Sub("exact_to_degree", check_exact, enum=enum_rules, exhaustive=True, shards={"quick": 2, "thorough": 2}),
        Sub("tensor_structure", check_tensor, enum=enum_rules, exhaustive=True, shards={"quick": 1, "thorough": 1}),
        Sub("repeatable_across_calls", check_repeatable, enum=enum_sequences, exhaustive=True, shards={"quick": 1, "thorough": 1}),
        Sub("offered_or_rejected", check_probe, enum=enum_probe, exhaustive=True, shards={"quick": 2, "thorough": 2}),
        Sub("consumer", check_consumer, enum=enum_consumer, exhaustive=True, shards={"quick": 2, "thorough": 2}),
        Sub("consumer_flux_laws", check_flux_laws, enum=enum_flux, exhaustive=False,
            shards={"quick": 4, "thorough": 8}),
    ],
)
