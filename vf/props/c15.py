"""C15 - every quadrature rule is exact to its nominal degree (exhaustive over the API's rules)."""
import itertools

import numpy as np

import darsia
from vf.runner import Outcome, Prop, Sub, Violation

Q = darsia.quadrature

# every (dim, order) the API documents / accepts; anything else must raise NotImplementedError
ACCEPTED = {1: [0, 1, 2, 3, 4, "max"], 2: [0, 1, 2, 3, "max"], 3: [0, 1, 2, "max"]}
MAX = {1: 4, 2: 3, 3: 2}
REJECTED = {1: [5, 6, -1], 2: [4, 5, -1], 3: [3, 4, -1]}


def _npts(dim, order):
    return (MAX[dim] if order == "max" else order) + 1


def _rule(case):
    dim, order, cell = case["dim"], case["order"], case["cell"]
    if cell == "sym":
        pts, w = Q.gauss(dim, order)
        lo, hi = -1.0, 1.0
    elif cell == "unit":
        pts, w = Q.gauss_reference_cell(dim, order)
        lo, hi = 0.0, 1.0
    else:
        pts, w = Q.reference_cell_corners(dim)
        lo, hi = 0.0, 1.0
    pts = np.asarray(pts, dtype=float)
    w = np.asarray(w, dtype=float)
    if pts.ndim == 1 and dim == 1:
        pts = pts.reshape(-1, 1)
    return pts, w, lo, hi


def _tags(case):
    return {"dim": case["dim"], "order": case["order"], "cell": case["cell"]}


class V(Violation):
    """Violation whose kind names the rule: each table is its own root cause."""

    def __init__(self, kind, message, tags):
        d, o = tags.get("dim"), tags.get("order")
        o = {"max": MAX.get(d)}.get(o, o)
        super().__init__(f"{kind}:dim{d}-order{o}", message, tags)


def _mono_exact(e, lo, hi):
    return float(np.prod([(hi ** (k + 1) - lo ** (k + 1)) / (k + 1) for k in e]))


def enum_rules(tier):
    cases = []
    for dim in (1, 2, 3):
        for order in ACCEPTED[dim]:
            for cell in ("sym", "unit"):
                cases.append({"dim": dim, "order": order, "cell": cell})
        cases.append({"dim": dim, "order": "corners", "cell": "corners"})
    return cases


def check_shape(case):
    pts, w, lo, hi = _rule(case)
    dim = case["dim"]
    t = _tags(case)
    if pts.ndim != 2 or pts.shape[1] != dim:
        raise V("point-width", f"points have shape {pts.shape} for dim {dim}", t)
    if w.ndim != 1 or len(w) != len(pts):
        raise V("count", f"{len(pts)} points but {w.shape} weights", t)
    if case["cell"] != "corners":
        n = _npts(dim, case["order"])
        if len(pts) != n**dim:
            raise V("count", f"{len(pts)} points, expected {n}^{dim}", t)
    else:
        if len(pts) != 2**dim:
            raise V("count", f"{len(pts)} corners, expected {2**dim}", t)
    if np.any(pts < lo - 1e-15) or np.any(pts > hi + 1e-15):
        raise V("outside", "points outside the cell", t)
    if len({tuple(np.round(p, 12)) for p in pts}) != len(pts):
        raise V("duplicate", "duplicate points", t)
    return Outcome(nontrivial=len(pts) > 1, key=t)


def check_positive_sum(case):
    pts, w, lo, hi = _rule(case)
    t = _tags(case)
    if not np.all(w > 0):
        raise V("nonpositive", f"weights not positive: {w}", t)
    meas = (hi - lo) ** case["dim"]
    if abs(w.sum() - meas) > 1e-13 * meas:
        raise V("sum", f"weights sum to {w.sum()!r}, measure {meas}", t)
    return Outcome(nontrivial=len(w) > 1, key=t)


def check_exact(case):
    """All monomials with per-variable degree <= 2n-1 are integrated exactly."""
    pts, w, lo, hi = _rule(case)
    t = _tags(case)
    dim = case["dim"]
    if len(w) != len(pts):
        raise V("count", f"{len(pts)} points but {len(w)} weights", t)
    deg = 1 if case["cell"] == "corners" else 2 * _npts(dim, case["order"]) - 1
    worst = (0.0, None)
    n = 0
    for e in itertools.product(range(deg + 1), repeat=dim):
        n += 1
        val = float(np.sum(w * np.prod(pts ** np.array(e), axis=1)))
        ex = _mono_exact(e, lo, hi)
        err = abs(val - ex)
        if err > worst[0]:
            worst = (err, e)
    if worst[0] > 2e-13:
        raise V("inexact", f"monomial exponents {worst[1]}: error {worst[0]:.3e}", t)
    return Outcome(nontrivial=dim >= 2 or deg >= 3, key=t, evals=n)


def check_tensor(case):
    """Point set is the tensor grid of numpy's Gauss-Legendre nodes; each weight is the product
    of the 1-D weights (pinpoints which table entry is wrong)."""
    if case["cell"] == "corners":
        pts, w, lo, hi = _rule(case)
        want = set(itertools.product((0.0, 1.0), repeat=case["dim"]))
        if {tuple(p) for p in pts} != want:
            raise V("corner-set", "corners are not {0,1}^dim", _tags(case))
        if not np.allclose(w, 0.5 ** case["dim"], rtol=0, atol=1e-15):
            raise V("corner-weights", f"{w}", _tags(case))
        return Outcome(nontrivial=case["dim"] >= 2, key=_tags(case))
    pts, w, lo, hi = _rule(case)
    t = _tags(case)
    dim = case["dim"]
    n = _npts(dim, case["order"])
    x1, w1 = np.polynomial.legendre.leggauss(n)
    if case["cell"] == "unit":
        x1 = (x1 + 1) / 2
        w1 = w1 / 2
    if len(w) != len(pts):
        raise V("count", f"{len(pts)} points but {len(w)} weights", t)
    seen = set()
    for p, wt in zip(pts, w):
        idx = []
        for c in p:
            j = int(np.argmin(np.abs(x1 - c)))
            if abs(x1[j] - c) > 1e-14:
                raise V("node", f"coordinate {c!r} is not a Gauss-Legendre node", t)
            idx.append(j)
        seen.add(tuple(idx))
        ref = float(np.prod(w1[idx]))
        if abs(ref - wt) > 1e-14:
            raise V("weight", f"point {p.tolist()}: weight {wt!r}, product rule {ref!r}", t)
    if len(seen) != n**dim:
        raise V("grid", f"{len(seen)} distinct tensor nodes, expected {n**dim}", t)
    return Outcome(nontrivial=dim >= 2 and n >= 2, key=t)


def enum_sequences(tier):
    out = []
    for dim in (1, 2, 3):
        for order in ACCEPTED[dim]:
            for seq in (["unit", "sym", "unit", "sym"], ["sym", "unit", "sym"], ["corners", "unit", "corners"]):
                out.append({"dim": dim, "order": order, "seq": seq})
    return out


def check_repeatable(case):
    """A rule is the same whenever it is asked for: earlier calls (of the same or the other cell
    variant, same key) and in-place edits of previously returned arrays do not change it."""
    dim, order = case["dim"], case["order"]
    t = {"dim": dim, "order": order, "cell": "sequence"}
    first = {}
    for k, cell in enumerate(case["seq"]):
        pts, w, lo, hi = _rule({"dim": dim, "order": order, "cell": cell})
        meas = (hi - lo) ** dim
        if len(w) == len(pts) and abs(w.sum() - meas) > 1e-13 * meas:
            raise V("sequence-sum", f"call {k} ({cell}) after {case['seq'][:k]}: weights sum to {w.sum()!r}, "
                    f"measure {meas}", t)
        if cell in first:
            p0, w0 = first[cell]
            if not (np.array_equal(p0, pts) and np.array_equal(w0, w)):
                raise V("sequence-changed", f"call {k} ({cell}) differs from the first {cell} call", t)
        else:
            first[cell] = (pts.copy(), w.copy())
        # a caller scribbling on what it got must not reach later callers
        raw = (Q.gauss(dim, order) if cell == "sym" else
               Q.gauss_reference_cell(dim, order) if cell == "unit" else Q.reference_cell_corners(dim))
        for arr in raw:
            if isinstance(arr, np.ndarray) and arr.flags.writeable:
                arr *= 3.0
    return Outcome(True, case)


def enum_reject(tier):
    return [{"dim": d, "order": o} for d in (1, 2, 3) for o in REJECTED[d]] + [
        {"dim": 4, "order": 0}, {"dim": 0, "order": 0}]


def check_reject(case):
    for f in (Q.gauss, Q.gauss_reference_cell):
        try:
            f(case["dim"], case["order"])
        except NotImplementedError:
            continue
        raise Violation("accepted", f"{f.__name__}({case['dim']},{case['order']}) did not raise",
                        case)
    return Outcome(nontrivial=True, key=case)


def enum_consumer(tier):
    cases = []
    for dim, shape in ((1, [3]), (2, [3, 2]), (3, [2, 3, 2]), (2, [1, 3]), (3, [1, 2, 1])):
        for mode in ("RAVIART_THOMAS", "CONSTANT_SUBCELL_PROJECTION", "CONSTANT_CELL_PROJECTION"):
            for axis in range(dim):
                cases.append({"dim": dim, "shape": shape, "mode": mode, "axis": axis})
    return cases


def check_consumer(case):
    """transport_density of an affine RT0 flux field: the flux u(x) = x_axis * e_axis restricted
    to one cell has face values 0 and 1, so its density integrates |t| over the cell = 1/2 for
    every rule that integrates linears exactly."""
    from darsia.measure.wasserstein import L1Mode

    dim, shape, axis = case["dim"], case["shape"], case["axis"]
    grid = darsia.Grid(shape=tuple(shape), voxel_size=[1.0] * dim)
    w1 = darsia.WassersteinDistanceBregman(
        grid, options={"l1_mode": getattr(L1Mode, case["mode"]), "num_iter": 1})
    t = {"dim": dim, "mode": case["mode"], "cell": "consumer", "order": "default"}
    # flux: on faces normal to `axis`, value = (index of the face along axis + 1) -> in cell c
    # along axis the component varies linearly from c to c+1 (0 on the outer boundary faces)
    flux = np.zeros(grid.num_faces)
    n_ax = shape[axis]
    if n_ax < 2:
        return Outcome(nontrivial=False, key=case, status="skipped")
    for f in grid.faces[axis]:
        lo_cell = grid.connectivity[f, 0]
        idx = np.unravel_index(lo_cell, grid.shape, order="F")
        flux[f] = idx[axis] + 1.0
    dens = w1.transport_density(flux, weighted=False, flatten=False)
    # in cell with index c along axis: values c (low face; 0 if boundary) and c+1 (0 on last)
    expect = np.zeros(shape)
    for idx in np.ndindex(*shape):
        c = idx[axis]
        lo = float(c)
        hi = float(c + 1) if c < n_ax - 1 else 0.0
        if case["mode"] == "CONSTANT_SUBCELL_PROJECTION":
            val = 0.5 * (abs(lo) + abs(hi))
        else:
            val = 0.5 * (lo + hi)  # lo, hi >= 0: |linear| = linear, exact for both Gauss rules
        expect[idx] = val
    if not np.allclose(dens, expect, rtol=0, atol=1e-13):
        bad = np.argwhere(np.abs(dens - expect) > 1e-13)[0]
        raise V("consumer", f"density {dens[tuple(bad)]!r} vs {expect[tuple(bad)]!r} "
                        f"in cell {bad.tolist()}", t)
    return Outcome(nontrivial=dim >= 2, key=case)


_RULE = ("enumerate every (dimension, order, cell) rule the API offers; non-trivial = more than "
         "one point (shape/sum), dim>=2 or degree>=3 (exactness), dim>=2 and >=2 points per "
         "direction (tensor structure); distinct = (dim, order, cell)")

PROP = Prop(
    pid="C15",
    rule=_RULE,
    assumptions=["analytic monomial integrals and numpy.polynomial.legendre.leggauss are the "
                 "reference", "tolerance 2e-13 absolute on [-1,1]^d and the unit cell"],
    subs=[
        Sub("shape_consistency", check_shape, enum=enum_rules, exhaustive=True, shards={"quick": 1, "thorough": 1}),
        Sub("positive_sum_to_measure", check_positive_sum, enum=enum_rules, exhaustive=True, shards={"quick": 1, "thorough": 1}),
        Sub("exact_to_degree", check_exact, enum=enum_rules, exhaustive=True, shards={"quick": 2, "thorough": 2}),
        Sub("tensor_structure", check_tensor, enum=enum_rules, exhaustive=True, shards={"quick": 1, "thorough": 1}),
        Sub("repeatable_across_calls", check_repeatable, enum=enum_sequences, exhaustive=True, shards={"quick": 1, "thorough": 1}),
        Sub("unsupported_orders_raise", check_reject, enum=enum_reject, exhaustive=True, shards={"quick": 1, "thorough": 1}),
        Sub("consumer", check_consumer, enum=enum_consumer, exhaustive=True, shards={"quick": 2, "thorough": 2}),
    ],
)
