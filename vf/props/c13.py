"""C13 - concentration analysis zeroes the baseline and applies its stages in order."""
import copy
import os
import shutil

import numpy as np
import skimage
from hypothesis import strategies as st

import darsia
from vf import gens
from vf.runner import Outcome, Prop, Sub, Violation

DIFFS = ("positive", "negative", "absolute", "plain")
# every non-float dtype has to be promoted (skimage.img_as_float semantics: unsigned -> [0, 1],
# signed -> [-1, 1]); the analysis treats "anything that is not float" alike
INT_DTYPES = ("uint8", "uint16", "int16", "int32", "int64")
TVD_KINDS = ("tvd", "tvd-cfg")
CHANNEL_DROPPING = ("callable", "red", "green", "blue", "red+green", "gray", "negative-key", "hsv")


# ---------------------------------------------------------------------------------------
# recording spies
# ---------------------------------------------------------------------------------------


class Spy:
    """Wraps a stage; logs (name, copy of input, copy of output) in call order."""

    def __init__(self, name, fn, log):
        self.name, self.fn, self.log = name, fn, log

    def __call__(self, x):
        x_in = np.array(x, copy=True)
        out = self.fn(x)
        self.log.append((self.name, x_in, np.array(out, copy=True)))
        return out


def _inplace_balance(x):
    x *= 2.0
    x += 1.0
    return x


def _drop_channels(x):
    """A model that itself takes a colour signal to one channel (as the kernel interpolation in
    darsia.utils.detection.monochromatic_concentration_analysis does)."""
    return x[:, :, 0] + 0.5 * x[:, :, 1] - 0.25 * x[:, :, 2]


# harness-side maps (the spy stages) and the reference semantics of the real darsia stages; the
# real linear / scaling models get their parameters from the case (`bal_par`, `mod_par`)
BAL = {
    "spy": lambda x: 2.0 * x + 1.0,
    "spy-inplace": lambda x: 2.0 * x + 1.0,
}
RES = {
    "spy": lambda x: x * x + 0.25,
}
MOD = {
    "spy": lambda x: 3.0 * x - 0.5,
    "spy-drop": _drop_channels,
    "clip": lambda x: np.clip(x, 0.0, 1.0),
    "clip-open": lambda x: np.clip(x, 0.25, None),
}
# parameters of the real LinearModel / ScalingModel stages: far from neutral, neutral (1, 0),
# zero, negative
BAL_SCALINGS = (2.0, 2.0, 1.0, 0.5, -1.0)
BAL_OFFSETS = (1.0, 1.0, 0.0, -0.25)
MOD_SCALINGS = (3.0, 3.0, 1.0, 0.0, -2.0, 0.5)
MOD_OFFSETS = (-0.5, -0.5, 0.0, 0.25)


def _affine(sc, off):
    sc, off = float(sc), float(off)
    return lambda x: sc * x + off


def _ref_bal(case):
    kind = case["balancing"]
    if kind is None:
        return lambda x: x
    if kind == "linear":
        return _affine(*case["bal_par"])
    if kind == "scaling":
        return _affine(case["bal_par"][0], 0.0)
    return BAL[kind]


def _ref_mod(case):
    kind = case["model"]
    if kind is None:
        return lambda x: x
    if kind == "linear":
        return _affine(*case["mod_par"])
    return MOD[kind]


def _code_affine(cls, key, sc, off=None):
    """The real model, configured plainly or through a key-prefixed option group (the form the
    presets use: one options dict, one prefix per stage)."""
    opts = {key + "scaling": float(sc)}
    if off is not None:
        opts[key + "offset"] = float(off)
    return cls(key=key, **opts) if key else cls(**opts)
# the fixed variant never stops early (eps = 0: always the full 30 iterations), so that round-off
# in its input (float32 gray conversion) cannot move the stopping iteration
TVD_KW = {"method": "chambolle", "weight": 0.25, "max_num_iter": 30, "eps": 0.0}


def _ref_tvd(x):
    return skimage.restoration.denoise_tv_chambolle(
        x, weight=TVD_KW["weight"], max_num_iter=TVD_KW["max_num_iter"], eps=TVD_KW["eps"])


# a TVD restoration configured through an option group: every option may carry a key prefix
# (`TVD(key="restoration ", **{"restoration weight": ...})`), may be given or left out
TVD_KEYS = ("", "restoration ", "tvd_")
TVD_METHODS = ("chambolle", "anisotropic bregman", "isotropic bregman")


@st.composite
def tvd_configs(draw):
    method = draw(st.sampled_from(TVD_METHODS + ("chambolle", None)))
    chambolle = method in (None, "chambolle")
    # an option is left out only where the wrapper's default is also the default of the wrapped
    # skimage routine (Chambolle: 0.1 / 200 / 2e-4), i.e. where "not configured" is unambiguous
    maybe = (lambda xs: xs + [None]) if chambolle else (lambda xs: xs)
    return {
        "key": draw(st.sampled_from(TVD_KEYS)),
        "method": method,
        "weight": draw(st.sampled_from(maybe([0.25, 0.5, 0.125]))),
        "max_num_iter": draw(st.sampled_from(maybe([20, 60, 150]))),
        "eps": draw(st.sampled_from(maybe([1e-2, 1e-6, 1e-8]))),
    }


def _code_tvd(cfg):
    key = cfg["key"]
    opts = {key + k: cfg[k] for k in ("method", "weight", "max_num_iter", "eps") if cfg[k] is not None}
    return darsia.TVD(key=key, **opts) if key else darsia.TVD(**opts)


def _ref_tvd_cfg(cfg):
    """Independent reference: the wrapped skimage routine with exactly the configured options."""
    kw = {k: cfg[k] for k in ("weight", "max_num_iter", "eps") if cfg[k] is not None}
    if cfg["method"] in (None, "chambolle"):
        return lambda x: skimage.restoration.denoise_tv_chambolle(x, **kw)
    iso = cfg["method"] == "isotropic bregman"
    return lambda x: skimage.restoration.denoise_tv_bregman(x, isotropic=iso, **kw)


HSV_DEFAULT = (0.0, 360.0, 0.0, 1.0)


def _ref_reduce(kind, w, hb=None):
    if kind in (None, ""):
        return lambda d: d
    if kind == "callable":
        return lambda d: d[:, :, 0] * w[0] + d[:, :, 1] * w[1] + d[:, :, 2] * w[2]
    if kind == "callable-scalar":
        return lambda d: d * w[0]
    if kind in ("red", "green", "blue"):
        c = ("red", "green", "blue").index(kind)
        return lambda d: d[:, :, c]
    if kind == "red+green":
        return lambda d: d[:, :, 0] + d[:, :, 1]
    if kind == "gray":
        # documented: OpenCV RGB -> gray on the float32 version
        def gray(d):
            f = d.astype(np.float32)
            return (np.float32(0.299) * f[:, :, 0] + np.float32(0.587) * f[:, :, 1]
                    + np.float32(0.114) * f[:, :, 2])
        return gray
    if kind == "negative-key":
        return lambda d: 1 - np.min(1 - d, axis=2)
    if kind == "hsv":
        hl, hu, sl, su = hb or HSV_DEFAULT

        def hsv(d):
            h = skimage.color.rgb2hsv(d)
            keep = (h[:, :, 0] > hl) & (h[:, :, 0] < hu) & (h[:, :, 1] > sl) & (h[:, :, 1] < su)
            return np.where(keep, np.max(d, axis=2), 0.0)
        return hsv
    raise AssertionError(kind)


def _code_reduce(kind, w, hb=None):
    """The object handed to the analysis (the real reduction class wherever one exists)."""
    if kind is None:
        return None
    if kind == "hsv" and hb is not None:
        return darsia.MonochromaticReduction(color="hsv", **{
            "hue lower bound": hb[0], "hue upper bound": hb[1],
            "saturation lower bound": hb[2], "saturation upper bound": hb[3]})
    if kind == "callable":
        return darsia.MonochromaticReduction(
            color=lambda d: d[:, :, 0] * w[0] + d[:, :, 1] * w[1] + d[:, :, 2] * w[2])
    if kind == "callable-scalar":
        return darsia.MonochromaticReduction(color=lambda d: d * w[0])
    return darsia.MonochromaticReduction(color=kind)


# ---------------------------------------------------------------------------------------
# generation
# ---------------------------------------------------------------------------------------


@st.composite
def configs(draw, force=None):
    force = force or {}

    def pick(name, strategy):
        return force[name] if name in force else draw(strategy)

    all_dtypes = ["uint8", "uint16", "int16", "int32", "float32", "float32", "float64", "float64"]
    rgb = pick("rgb", st.booleans())
    h, w = draw(st.integers(2, 16)), draw(st.integers(2, 16))
    # the hue / saturation reduction needs colour differences in [0, 1]: unsigned integer images
    # and a non-plain difference; that class is constructed (1 in 6 of the RGB cases) rather than
    # waited for
    hsv_first = bool(rgb and not (set(force) & {"dtype", "pdtype", "diff", "reduction"})
                     and draw(st.integers(0, 5)) == 0)
    if hsv_first:
        force = dict(force, dtype=draw(st.sampled_from(["uint8", "uint16"])),
                     diff=draw(st.sampled_from(DIFFS[:3])), reduction="hsv")
        force["pdtype"] = force["dtype"] if draw(st.booleans()) else draw(st.sampled_from(["uint8", "uint16"]))
    dtype = pick("dtype", st.sampled_from(all_dtypes))
    same = draw(st.integers(0, 3)) > 0
    pdtype = pick("pdtype", st.just(dtype) if same else st.sampled_from(all_dtypes))
    nobase = pick("nobase", st.integers(0, 7).map(lambda k: k == 0))
    diff = pick("diff", st.sampled_from(DIFFS))
    # options left out: the difference defaults to 'absolute' and restoration runs before the
    # model (the form of most shipped callers: neither key is passed)
    omit_diff = bool("diff" not in force and draw(st.integers(0, 4)) == 0)
    if omit_diff:
        diff = "absolute"
    if rgb:
        red_kinds = [None, "", "callable", "callable", "red", "green", "blue", "red+green", "gray",
                     "negative-key"]
        if diff != "plain" and dtype[0] == "u" and pdtype[0] == "u":
            red_kinds.append("hsv")
    else:
        red_kinds = [None, "", "callable-scalar", "callable-scalar"]
    reduction = pick("reduction", st.sampled_from(red_kinds))
    dropping = reduction in CHANNEL_DROPPING
    nextra = 0 if (nobase or (rgb and not dropping)) else pick("nextra", st.sampled_from([0, 0, 1, 1, 2, 3]))
    vox = draw(gens.voxel_sizes(2))
    # extra baselines may come in another dtype than the first one
    xdtype = dtype if (nextra == 0 or draw(st.integers(0, 2)) > 0) else draw(st.sampled_from(all_dtypes))
    if "xdtype" in force and nextra:
        xdtype = force["xdtype"]
    if reduction == "hsv" and xdtype[0] != "u":
        xdtype = dtype
    # dtype of a baseline handed over later (updated_baseline)
    udtype = dtype if reduction == "hsv" else draw(st.sampled_from(all_dtypes))
    restoration = pick("restoration", st.sampled_from([None, "spy", "spy", "tvd", "tvd-cfg", "tvd-cfg"]))
    if restoration == "tvd-cfg" and reduction in ("gray", "hsv"):
        # float32 round-off in these reductions could flip the iteration at which a loosely
        # configured TV denoising stops; they keep the fixed, tightly terminated variant
        restoration = "tvd"
    tvd = draw(tvd_configs()) if restoration == "tvd-cfg" else None
    omit_order = bool(draw(st.integers(0, 3)) == 0)
    res_first = True if omit_order else bool(draw(st.sampled_from([True, True, False])))
    mod_kinds = [None, "spy", "spy", "linear", "clip", "clip-open"]
    if rgb and not dropping:
        # a colour signal reaches the model, which may itself reduce it to one channel
        mod_kinds += ["spy-drop"] * 4
    hsv_bounds = None
    if reduction == "hsv" and draw(st.booleans()):
        hsv_bounds = [draw(st.sampled_from([0.0, 0.1, 0.3])), draw(st.sampled_from([360.0, 0.9, 0.6])),
                      draw(st.sampled_from([0.0, 0.2])), draw(st.sampled_from([1.0, 0.8]))]
    return {
        "rgb": bool(rgb), "shape": [h, w], "dtype": dtype, "pdtype": pdtype, "xdtype": xdtype,
        "udtype": udtype, "nobase": bool(nobase),
        "nextra": nextra, "base_as_list": bool(draw(st.booleans())),
        "diff": diff, "reduction": reduction,
        "weights": [draw(st.sampled_from([0.5, 0.25, -0.125, 1.0, 0.375, 2.0])) for _ in range(3)],
        "balancing": pick("balancing", st.sampled_from([None, "spy", "spy", "spy-inplace", "linear", "scaling"])),
        "restoration": restoration, "tvd": tvd,
        "model": pick("model", st.sampled_from(mod_kinds)),
        "res_first": res_first, "omit": [omit_diff, omit_order],
        "bal_par": [draw(st.sampled_from(BAL_SCALINGS)), draw(st.sampled_from(BAL_OFFSETS))],
        "mod_par": [draw(st.sampled_from(MOD_SCALINGS)), draw(st.sampled_from(MOD_OFFSETS))],
        "par_key": bool(draw(st.booleans())),
        "hsv_bounds": hsv_bounds,
        # which of the 1 + nextra baselines is analysed against the collection (baseline_to_zero)
        "which": draw(st.integers(0, 3)),
        "cls": draw(st.sampled_from(["Image", "Optical" if rgb else "Scalar"])),
        "meta": {
            "dimensions": [h * vox[0], w * vox[1]],
            "origin": draw(st.sampled_from([None, [0.5, -2.0], [10.0, 3.25]])),
            "time": draw(st.sampled_from(["none", "date", "time", "both"])),
            "t0": draw(st.integers(0, 5)), "dt": 1,
            "name": draw(st.sampled_from([None, "probe", "a b"])),
        },
        "pseed": draw(st.integers(0, 2**20)),
    }


def gen(tier):
    return configs()


def gen_base(tier):
    return configs(force={"nobase": False})


# ---------------------------------------------------------------------------------------
# building
# ---------------------------------------------------------------------------------------


def _array(case, dtype, seed):
    shape = list(case["shape"]) + ([3] if case["rgb"] else [])
    if dtype in INT_DTYPES and dtype[0] == "i":
        # signed integers: full range, both signs
        info = np.iinfo(dtype)
        return np.random.default_rng(seed).integers(info.min, info.max, size=shape, endpoint=True).astype(dtype)
    return gens.payload_array(shape, dtype, seed, dyadic=True)


def _image(case, arr, which="probe"):
    m = case["meta"]
    kw = {"dimensions": list(m["dimensions"]), "space_dim": 2}
    if m["origin"] is not None:
        kw["origin"] = list(m["origin"])
    if which != "probe":
        kw["name"] = "base"
    elif m["name"] is not None:
        kw["name"] = m["name"]
    if which == "probe":
        kw.update(gens.time_meta({"time": m["time"], "series": False, "nt": 0, "t0": m["t0"], "dt": m["dt"]}))
    if case["cls"] == "Optical":
        return darsia.OpticalImage(arr, color_space="RGB", **kw)
    if case["cls"] == "Scalar":
        return darsia.ScalarImage(arr, **kw)
    return darsia.Image(arr, scalar=not case["rgb"], **kw)


def _to_float(a):
    return skimage.img_as_float(a) if a.dtype.kind in "ui" else a


class Setup:
    def __init__(self, case, probe_is_base=False, diff=None, stages=True):
        self.case = case
        self.log = []
        self.diff = diff or case["diff"]
        # an option is left out only where the case says so and the caller did not select one
        self.omit_diff = bool(diff is None and case["omit"][0])
        self.omit_order = bool(case["omit"][1])
        seed = case["pseed"]
        self.base_arrs = [] if case["nobase"] else [
            _array(case, case["dtype"] if k == 0 else case["xdtype"], seed + 11 * k)
            for k in range(1 + case["nextra"])]
        if probe_is_base:
            self.probe_arr = self.base_arrs[case["which"] % len(self.base_arrs)].copy()
        else:
            self.probe_arr = _array(case, case["pdtype"], seed + 7)
        self.bases = [_image(case, a.copy(), "base") for a in self.base_arrs]
        self.probe = _image(case, self.probe_arr.copy(), "probe")
        w = case["weights"]
        red, bal, res, mod = case["reduction"], case["balancing"], case["restoration"], case["model"]
        if not stages:
            bal = res = mod = None
        self.kinds = (red, bal, res, mod)
        # code-side stages, each wrapped in a recording spy
        hb = case["hsv_bounds"]
        code_red = _code_reduce(red, w, hb)
        self.s_red = None if code_red is None else Spy("reduction", code_red, self.log)
        bkey, mkey = ("balancing ", "model ") if case["par_key"] else ("", "")
        code_bal = {None: None, "spy": BAL["spy"], "spy-inplace": _inplace_balance,
                    "linear": _code_affine(darsia.LinearModel, bkey, *case["bal_par"]),
                    "scaling": _code_affine(darsia.ScalingModel, bkey, case["bal_par"][0])}[bal]
        self.s_bal = None if code_bal is None else Spy("balancing", code_bal, self.log)
        if res == "tvd-cfg":
            code_res = _code_tvd(case["tvd"])
        else:
            code_res = {None: None, "spy": RES["spy"], "tvd": darsia.TVD(**TVD_KW)}[res]
        self.s_res = None if code_res is None else Spy("restoration", code_res, self.log)
        code_mod = {None: None, "spy": MOD["spy"], "spy-drop": MOD["spy-drop"],
                    "linear": _code_affine(darsia.LinearModel, mkey, *case["mod_par"]),
                    "clip": darsia.ClipModel(**{"min value": 0.0, "max value": 1.0}),
                    "clip-open": darsia.ClipModel(**{"min value": 0.25})}[mod]
        self.s_mod = None if code_mod is None else Spy("model", code_mod, self.log)
        # reference maps
        self.r_red = _ref_reduce(red, w, hb)
        self.r_bal = _ref_bal(dict(case, balancing=bal))
        if res == "tvd-cfg":
            self.r_res = _ref_tvd_cfg(case["tvd"])
        else:
            self.r_res = (lambda x: x) if res is None else (_ref_tvd if res == "tvd" else RES[res])
        self.r_mod = _ref_mod(dict(case, model=mod))

    def analysis(self):
        if self.case["nobase"]:
            base = None
        elif len(self.bases) == 1 and not self.case["base_as_list"]:
            base = self.bases[0]
        else:
            base = list(self.bases)
        return self.analysis_on(base)

    def options(self):
        kwargs = {}
        if not self.omit_diff:
            kwargs["diff option"] = self.diff
        if not self.omit_order:
            kwargs["restoration -> model"] = self.case["res_first"]
        return kwargs

    def analysis_on(self, base):
        ca = darsia.ConcentrationAnalysis(
            base=base, signal_reduction=self.s_red, balancing=self.s_bal,
            restoration=self.s_res, model=self.s_mod, **self.options())
        self.n_construction_calls = len(self.log)
        return ca

    # ---- reference semantics ----
    def float_inputs(self):
        bases = self.base_arrs
        if bases and any(a.dtype.kind in "ui" for a in bases):
            bases = [_to_float(a) for a in bases]
        return _to_float(self.probe_arr), bases

    @staticmethod
    def ref_diff(p, b, option):
        if b is None:
            plain = p
        else:
            plain = p - b
        if option == "positive":
            return np.maximum(plain, 0)
        if option == "negative":
            return np.maximum(-plain, 0) if b is None else np.maximum(b - p, 0)
        if option == "absolute":
            return np.abs(plain)
        return plain

    def ref_filter(self, bases):
        if len(bases) <= 1:
            return None
        filt = np.zeros(tuple(self.case["shape"]), dtype=float)
        for b in bases[1:]:
            filt = np.maximum(filt, self.r_red(self.ref_diff(b, bases[0], self.diff)))
        return filt

    def ref_tail(self, clean):
        """balancing, then restoration/model in the configured order."""
        bal = self.r_bal(clean)
        if self.case["res_first"]:
            mid = self.r_res(bal)
            return bal, mid, self.r_mod(mid)
        mid = self.r_mod(bal)
        return bal, mid, self.r_res(mid)

    def reference(self):
        p, bases = self.float_inputs()
        d = self.ref_diff(p, bases[0] if bases else None, self.diff)
        sig = self.r_red(d)
        filt = self.ref_filter(bases)
        clean = sig if filt is None else np.maximum(sig - filt, 0)
        bal, mid, out = self.ref_tail(clean)
        return {"diff": d, "signal": sig, "clean": clean, "balanced": bal, "mid": mid, "out": out}

    def expected_order(self):
        order = []
        if self.s_red is not None:
            order.append("reduction")
        if self.s_bal is not None:
            order.append("balancing")
        tail = [("restoration", self.s_res), ("model", self.s_mod)]
        if not self.case["res_first"]:
            tail.reverse()
        order += [n for n, s in tail if s is not None]
        return order

    # ---- comparison policy ----
    def tol(self, ref):
        """0 where the arithmetic is exact (dyadic float payloads through exact maps), otherwise a
        relative slack: 1e-12 for float64 flows, 1e-5 where float32 data meets an inexact stage."""
        red, bal, res, mod = self.kinds
        c = self.case
        used = [c["pdtype"]] + ([] if c["nobase"] else [c["dtype"]]) + ([c["xdtype"]] if c["nextra"] else [])
        ints = any(t in INT_DTYPES for t in used)
        f32 = "float32" in used or red == "gray"
        inexact = red in ("gray", "hsv") or res in TVD_KINDS or ints
        if not inexact:
            return 0.0
        mag = max(1.0, float(np.max(np.abs(ref))) if np.size(ref) else 1.0)
        return (1e-5 if f32 else 1e-12) * mag

    def close(self, got, ref):
        got, ref = np.asarray(got), np.asarray(ref)
        if got.shape != ref.shape:
            return False
        t = self.tol(ref)
        if t == 0.0:
            return bool(np.array_equal(got, ref))
        return bool(np.all(np.abs(got.astype(float) - ref.astype(float)) <= t))


def _tags(case):
    return {"rgb": case["rgb"], "diff": case["diff"], "reduction": case["reduction"],
            "nextra": case["nextra"], "res_first": case["res_first"], "nobase": case["nobase"],
            "dtype": case["dtype"], "pdtype": case["pdtype"], "xdtype": case["xdtype"]}


def _labels(case):
    return ("rgb" if case["rgb"] else "scalar", f"diff-{case['diff']}", f"red-{case['reduction']}",
            f"extra{case['nextra']}", "res->model" if case["res_first"] else "model->res",
            f"dtype-{case['dtype']}", "nobase" if case["nobase"] else "base",
            "extras-same-dtype" if case["xdtype"] == case["dtype"] else "extras-other-dtype",
            f"bal-{case['balancing']}", f"res-{case['restoration']}", f"mod-{case['model']}",
            f"probe-{_dtype_class(case['pdtype'])}",
            "diff-option-omitted" if case["omit"][0] else "diff-option-given",
            "order-omitted" if case["omit"][1] else "order-given") + _tvd_labels(case) + _par_labels(case)


def _par_labels(case):
    out = ()
    if case["balancing"] in ("linear", "scaling") or case["model"] == "linear":
        out += ("params-key-prefixed" if case["par_key"] else "params-plain",)
        neutral = ((case["balancing"] == "scaling" and case["bal_par"][0] == 1.0)
                   or (case["balancing"] == "linear" and case["bal_par"] == [1.0, 0.0])
                   or (case["model"] == "linear" and case["mod_par"] == [1.0, 0.0]))
        zero = ((case["balancing"] == "linear" and case["bal_par"][1] == 0.0)
                or (case["model"] == "linear" and 0.0 in case["mod_par"]))
        out += (("params-neutral",) if neutral else ()) + (("params-with-zero",) if zero else ())
    if case["reduction"] == "hsv":
        out += ("hsv-bounds-set" if case["hsv_bounds"] else "hsv-bounds-default",)
    return out


def _drops(case):
    """The signal loses its channel axis: through the reduction, or through the model."""
    return bool(case["rgb"] and (case["reduction"] in CHANNEL_DROPPING or case["model"] == "spy-drop"))


def _dtype_class(t):
    return "float" if t not in INT_DTYPES else ("signed-int" if t[0] == "i" else "unsigned-int")


def _tvd_labels(case):
    cfg = case.get("tvd")
    if case["restoration"] != "tvd-cfg" or cfg is None:
        return ()
    return ("tvd-key-prefixed" if cfg["key"] else "tvd-key-empty",
            f"tvd-method-{cfg['method']}",
            "tvd-prefixed-eps" if (cfg["key"] and cfg["eps"] is not None) else "tvd-other-eps",
            "tvd-all-options-given" if all(cfg[k] is not None for k in ("weight", "max_num_iter", "eps"))
            else "tvd-some-defaults")


def _nontrivial(case):
    return bool(_drops(case) or case["nextra"] >= 1 or not case["res_first"])


def _key(case):
    k = dict(case)
    k.pop("meta")
    return k


def _run(setup, ca, probe=None):
    """Run the analysis on the probe; the spies' construction-time records are dropped."""
    del setup.log[:]
    return ca(setup.probe if probe is None else probe)


# ---------------------------------------------------------------------------------------
# 1. baseline_to_zero
# ---------------------------------------------------------------------------------------

def _zero_preserving(case):
    """Every stage after the cleaning maps a zero signal to exactly zero."""
    bal, res, mod = case["balancing"], case["restoration"], case["model"]
    return bool((bal in (None, "scaling") or (bal == "linear" and case["bal_par"][1] == 0.0))
                and res in (None, "tvd", "tvd-cfg")
                and (mod in (None, "clip", "spy-drop") or (mod == "linear" and case["mod_par"][1] == 0.0)))


def _assert_zero_signal(s, got, what, t):
    """`got` is what the stages after the cleaning make of an all-zero signal."""
    case = s.case
    sig_shape = tuple(case["shape"]) + ((3,) if case["rgb"] and case["reduction"] not in CHANNEL_DROPPING else ())
    _, _, want = s.ref_tail(np.zeros(sig_shape))
    want = np.asarray(want)
    if got.shape != want.shape:
        raise Violation("result-shape", f"{what}: result shape {got.shape}, expected {want.shape}", t)
    zp = _zero_preserving(case)
    if zp:
        if np.any(got != 0):
            raise Violation("baseline-not-zero", f"{what} gives max |signal| = "
                            f"{float(np.abs(got).max())!r} (stages: {s.kinds})", t)
    else:
        tol = 0.0 if case["restoration"] not in TVD_KINDS else 1e-5 * max(1.0, float(np.abs(want).max()))
        if not np.all(np.abs(got - want) <= tol):
            raise Violation("baseline-not-stages-of-zero", f"{what} differs from "
                            f"model(restoration(balancing(0))) by {float(np.abs(got - want).max())!r}", t)
    return zp


def check_baseline_to_zero(case):
    # the probe is one of the baselines the analysis was built from: the first one (difference
    # zero) or one of those behind the cleaning filter (signal <= filter, cleaned to zero)
    s = Setup(case, probe_is_base=True)
    ca = s.analysis()
    res = _run(s, ca)
    t = _tags(case)
    which = case["which"] % len(s.base_arrs)
    t["which"] = which
    got = np.asarray(res.img)
    what = ("baseline analysed against itself" if which == 0
            else f"extra baseline {which} of {case['nextra']} (part of the cleaning filter) as probe")
    zp = _assert_zero_signal(s, got, what, t)
    return Outcome(_nontrivial(case), _key(case), _labels(case) + (
        "zero-preserving" if zp else "general", "probe-first-baseline" if which == 0 else "probe-extra-baseline"))


# ---------------------------------------------------------------------------------------
# 2. stage_order_and_inputs
# ---------------------------------------------------------------------------------------


def check_stage_order(case):
    s = Setup(case)
    ca = s.analysis()
    t = _tags(case)
    _run(s, ca)
    names = [e[0] for e in s.log]
    want = s.expected_order()
    if names != want:
        raise Violation("stage-order", f"stages called {names}, documented order {want}", t)
    ref = s.reference()
    rec = {e[0]: e for e in s.log}
    n = 0
    if "reduction" in rec:
        n += 1
        if not s.close(rec["reduction"][1], ref["diff"]):
            raise Violation("reduction-input", "the reduction did not receive the difference image "
                            f"for option {case['diff']!r}", t)
    # what the stage after reduction + cleaning must see
    if "reduction" in rec:
        sig = rec["reduction"][2]
    else:
        sig = ref["diff"]
    p, bases = s.float_inputs()
    filt = s.ref_filter(bases)
    clean = sig if filt is None else np.maximum(sig - filt, 0)
    prev = clean
    prev_name = "cleaning" if filt is not None else ("reduction" if "reduction" in rec else "difference")
    for name in want:
        if name == "reduction":
            continue
        n += 1
        if not s.close(rec[name][1], prev):
            raise Violation(f"stage-input:{name}", f"{name} did not receive the output of {prev_name}", t)
        prev, prev_name = rec[name][2], name
    # a built-in reduction, applied to exactly what the stage received (same input: thresholds of
    # the hue / saturation selection cannot flip); the float32 gray conversion keeps its slack
    if "reduction" in rec and case["reduction"] not in (None, "gray"):
        n += 1
        want_out = np.asarray(s.r_red(rec["reduction"][1]))
        got_out = rec["reduction"][2]
        if got_out.shape != want_out.shape or not np.array_equal(got_out, want_out):
            raise Violation("stage-output:reduction", f"the reduction {case['reduction']!r} (hsv bounds "
                            f"{case['hsv_bounds']}) maps its input to something else than documented", t)
    # the configured restoration, applied to exactly what the stage received, is the wrapped TV
    # denoising with exactly the configured options (same routine, same input: no tolerance)
    if "restoration" in rec and case["restoration"] in TVD_KINDS:
        n += 1
        want_out = np.asarray(s.r_res(rec["restoration"][1]))
        got_out = rec["restoration"][2]
        if got_out.shape != want_out.shape or not np.array_equal(got_out, want_out):
            err = (float(np.max(np.abs(got_out.astype(float) - want_out.astype(float))))
                   if got_out.shape == want_out.shape else "shape")
            raise Violation("stage-output:restoration", f"the restoration stage ({case['restoration']}, options "
                            f"{case.get('tvd') or TVD_KW}) maps its input to something else than TV denoising "
                            f"with the configured options (max deviation {err!r})", t)
    return Outcome(_nontrivial(case), _key(case), _labels(case), evals=max(1, n))


# ---------------------------------------------------------------------------------------
# 3. equals_reference_composition
# ---------------------------------------------------------------------------------------


def check_reference_composition(case):
    s = Setup(case)
    ca = s.analysis()
    t = _tags(case)
    ref = s.reference()
    for rep in (1, 2):
        res = _run(s, ca)
        got = np.asarray(res.img)
        if got.shape != ref["out"].shape:
            raise Violation("result-shape", f"result {got.shape}, reference composition {ref['out'].shape}", t)
        if not s.close(got, ref["out"]):
            err = float(np.max(np.abs(got.astype(float) - ref["out"].astype(float))))
            raise Violation("composition" if rep == 1 else "composition-second-call",
                            f"call {rep}: result differs from model/restoration(balancing(cleaning("
                            f"reduction(difference)))) by {err!r} (stages {s.kinds})", t)
    # the analysis follows a model that is re-parametrised between calls (as a calibration does),
    # including parameters that are set back to exactly zero
    evals = 2
    if s.kinds[3] == "linear" and s.s_mod is not None:
        mdl = s.s_mod.fn
        for step, (sc, off) in enumerate(((3.0, 0.25), (3.0, 0.0), (0.0, 0.5), (2.0, 0.0))):
            if step % 2 == 0:
                mdl.update(scaling=sc, offset=off)
            else:
                mdl.update_model_parameters(np.array([sc, off]), None)
            s.r_mod = (lambda x, sc=sc, off=off: sc * x + off)
            ref2 = s.reference()
            got = np.asarray(_run(s, ca).img)
            evals += 1
            if got.shape != ref2["out"].shape or not s.close(got, ref2["out"]):
                raise Violation("composition-after-model-update", f"after setting the linear model to scaling {sc}, "
                                f"offset {off} (update {step + 1}) the result is not model(...) with these "
                                f"parameters", t)
    return Outcome(_nontrivial(case), _key(case), _labels(case), evals=evals)


# ---------------------------------------------------------------------------------------
# 4. diff_options
# ---------------------------------------------------------------------------------------


def gen_diff(tier):
    return configs(force={"balancing": None, "restoration": None, "model": None})


def check_diff_options(case):
    t = _tags(case)
    observed = {}
    piped = {}
    for opt in DIFFS:
        # (a) the pre-reduction differences, seen by an identity spy in place of the reduction
        s = Setup(case, diff=opt)
        s.s_red = Spy("reduction", lambda d: d, s.log)
        s.case = dict(case, nextra=0)
        s.bases = s.bases[:1]
        s.base_arrs = s.base_arrs[:1]
        ca = s.analysis()
        _run(s, ca)
        observed[opt] = s.log[0][1].astype(float)
        # (b) through a homogeneous linear pipeline (reduction = weighted channel sum, scaling x2)
        c2 = dict(case, nextra=0, balancing="scaling", restoration=None, model=None,
                  reduction=("callable" if case["rgb"] else "callable-scalar"))
        s2 = Setup(c2, diff=opt)
        piped[opt] = np.asarray(_run(s2, s2.analysis()).img).astype(float)
    n = 0
    for what, d in (("difference", observed), ("linear-pipeline", piped)):
        dy = case["dtype"] not in INT_DTYPES and case["pdtype"] not in INT_DTYPES
        tol = 0.0 if (dy or what == "difference") else 1e-12 * max(1.0, float(np.abs(d["absolute"]).max()))
        n += 3
        if np.any(d["positive"] < 0) or np.any(d["negative"] < 0):
            if what == "difference":
                raise Violation("diff-sign", "positive/negative difference has negative entries", t)
        if not np.all(np.abs(d["positive"] + d["negative"] - d["absolute"]) <= tol):
            raise Violation(f"diff-pos+neg!=abs:{what}", f"{what}: positive + negative part differs from the "
                            f"absolute difference by "
                            f"{float(np.abs(d['positive'] + d['negative'] - d['absolute']).max())!r}", t)
        if not np.all(np.abs(d["positive"] - d["negative"] - d["plain"]) <= tol):
            raise Violation(f"diff-pos-neg!=plain:{what}", f"{what}: positive - negative part differs from "
                            f"the plain difference by "
                            f"{float(np.abs(d['positive'] - d['negative'] - d['plain']).max())!r}", t)
    # plain difference is probe - baseline (sign!)
    s = Setup(case)
    p, bases = s.float_inputs()
    plain = p if not bases else p - bases[0]
    if not np.array_equal(observed["plain"], plain.astype(float)):
        raise Violation("diff-plain", "plain difference is not probe - baseline", t)
    return Outcome(bool(case["rgb"] or not case["nobase"]), _key(case),
                   ("rgb" if case["rgb"] else "scalar", f"dtype-{case['dtype']}",
                    "nobase" if case["nobase"] else "base"), evals=n)


# ---------------------------------------------------------------------------------------
# 5. probe_unmodified
# ---------------------------------------------------------------------------------------


def check_probe_unmodified(case):
    s = Setup(case)
    ca = s.analysis()
    t = _tags(case)
    before = gens.snapshot(s.probe)
    base_before = [gens.snapshot(b) for b in s.bases]
    _run(s, ca)
    ok, why = gens.snapshot_equal(before, gens.snapshot(s.probe))
    if not ok:
        raise Violation("probe-modified", f"probe changed by the analysis: {why}", t)
    if not np.array_equal(s.probe.img, s.probe_arr):
        raise Violation("probe-modified", "probe array differs from the generated payload", t)
    for k, (b, snap) in enumerate(zip(s.bases, base_before)):
        ok, why = gens.snapshot_equal(snap, gens.snapshot(b))
        if not ok:
            raise Violation("baseline-modified", f"baseline {k} changed by the analysis: {why}", t)
    aliasing_prone = case["nobase"] and case["diff"] == "plain" and case["balancing"] == "spy-inplace"
    return Outcome(True, _key(case), _labels(case) + (("inplace-on-plain",) if aliasing_prone else ()))


def gen_unmodified(tier):
    # boost the one configuration in which the signal handed to an in-place stage is the probe's
    # own (deep-copied) array: no baseline, plain difference, no reduction
    return st.one_of(
        configs(), configs(),
        configs(force={"nobase": True, "diff": "plain", "balancing": "spy-inplace", "reduction": None,
                       "pdtype": "float64"}),
        configs(force={"nobase": True, "diff": "plain", "balancing": "spy-inplace", "reduction": None,
                       "rgb": False, "pdtype": "float32"}),
    )


# ---------------------------------------------------------------------------------------
# 6. result_metadata
# ---------------------------------------------------------------------------------------


def _meta_equal(a, b):
    if isinstance(a, np.ndarray) or isinstance(b, np.ndarray):
        return np.array_equal(np.asarray(a), np.asarray(b))
    return a == b


def gen_meta(tier):
    # one case in four: a colour signal reaches the model (which may reduce it to one channel)
    return st.one_of(configs(), configs(), configs(),
                     st.sampled_from([None, ""]).flatmap(lambda r: configs(force={"rgb": True, "reduction": r})))


def check_result_metadata(case):
    s = Setup(case)
    ca = s.analysis()
    t = _tags(case)
    pm = copy.deepcopy(s.probe.metadata())
    res = _run(s, ca)
    dropped = _drops(case)
    t["dropped"] = dropped
    t["model"] = case["model"]
    if dropped:
        if not isinstance(res, darsia.ScalarImage) or not res.scalar:
            raise Violation("not-scalar-image", f"signal reduced to one channel but the result is "
                            f"{type(res).__name__} (scalar={res.scalar})", t)
    else:
        if type(res) is not type(s.probe):
            raise Violation("result-type", f"probe {type(s.probe).__name__} -> result {type(res).__name__}", t)
        if bool(res.scalar) != (not case["rgb"]):
            raise Violation("result-type", f"scalar flag {res.scalar} for rgb={case['rgb']}", t)
    if res.img.dtype.kind != "f":
        raise Violation("result-dtype", f"result dtype {res.img.dtype}", t)
    rm = res.metadata()
    for k in ("space_dim", "indexing", "dimensions", "origin", "series", "date", "reference_date",
              "time", "name"):
        if not _meta_equal(rm[k], pm[k]):
            raise Violation("metadata", f"metadata[{k!r}]: probe {pm[k]!r} -> result {rm[k]!r}", t)
    if list(res.img.shape[:2]) != list(case["shape"]):
        raise Violation("result-shape", f"{res.img.shape}", t)
    return Outcome(True, _key(case) | {"meta": case["meta"]},
                   _labels(case)[:3] + (f"cls-{case['cls']}", f"time-{case['meta']['time']}",
                                        "origin-user" if case["meta"]["origin"] else "origin-default",
                                        "channel-dropped" if dropped else "same-range")
                   + (("dropped-by-model",) if case["model"] == "spy-drop" else ()))


# ---------------------------------------------------------------------------------------
# 7. integer_promotion
# ---------------------------------------------------------------------------------------


def gen_integer(tier):
    return st.one_of(
        configs(force={"dtype": "uint8", "pdtype": "uint8"}),
        configs(force={"dtype": "uint16", "pdtype": "uint16"}),
        configs(force={"dtype": "uint8", "pdtype": "float64"}),
        configs(force={"dtype": "float64", "pdtype": "uint16"}),
        # signed integer types are promoted just the same (to [-1, 1])
        configs(force={"dtype": "int16", "pdtype": "int16"}),
        configs(force={"dtype": "float64", "pdtype": "int32"}),
        configs(force={"dtype": "uint8", "pdtype": "int64"}),
        configs(force={"dtype": "int64", "pdtype": "float32"}),
    )


def check_integer_promotion(case):
    s_int = Setup(case)
    res_int = _run(s_int, s_int.analysis())
    # the same configuration with the integer images converted up front
    s_f = Setup(case)
    s_f.bases = [_image(case, _to_float(a), "base") for a in s_f.base_arrs]
    s_f.probe = _image(case, _to_float(s_f.probe_arr), "probe")
    res_f = _run(s_f, s_f.analysis())
    t = _tags(case)
    a, b = np.asarray(res_int.img), np.asarray(res_f.img)
    if a.shape != b.shape or not np.array_equal(a, b):
        raise Violation("integer-promotion", f"{case['dtype']}/{case['pdtype']} inputs give a result "
                        f"different from their float versions (max diff "
                        f"{float(np.abs(a.astype(float) - b.astype(float)).max()) if a.shape == b.shape else 'shape'})", t)
    if type(res_int) is not type(res_f):
        raise Violation("integer-promotion-type", f"{type(res_int).__name__} vs {type(res_f).__name__}", t)
    # the integer probe keeps its dtype
    if s_int.probe.img.dtype != np.dtype(case["pdtype"]):
        raise Violation("probe-modified", f"probe dtype became {s_int.probe.img.dtype}", t)
    return Outcome(True, _key(case), _labels(case))



# ---------------------------------------------------------------------------------------
# 8. baseline_fixed_at_construction
# ---------------------------------------------------------------------------------------


def _scribble(img, seed):
    """The caller overwrites its own image array in place with unrelated values."""
    a = img.img
    rng = np.random.default_rng(seed)
    if a.dtype.kind in "ui":
        info = np.iinfo(a.dtype)
        a[...] = rng.integers(info.min, info.max, size=a.shape, endpoint=True).astype(a.dtype)
    else:
        a[...] = (rng.integers(-32, 32, size=a.shape) / 8.0).astype(a.dtype)


def _same(a, b):
    a, b = np.asarray(a), np.asarray(b)
    return a.shape == b.shape and bool(np.array_equal(a, b))


def check_baseline_fixed(case):
    """The baseline (and the cleaning filter) are fixed at construction: whatever the caller does
    with its baseline images afterwards, and whichever probes were analysed in between, a probe is
    mapped to the same result."""
    s = Setup(case)
    ca = s.analysis()
    t = _tags(case)
    ref = s.reference()
    first = np.array(_run(s, ca).img, copy=True)
    if not s.close(first, ref["out"]):
        raise Violation("composition", "result differs from the reference composition", t)
    for k, b in enumerate(s.bases):
        _scribble(b, case["pseed"] + 1000 + k)
    again = np.asarray(_run(s, ca).img)
    if not _same(again, first):
        raise Violation("baseline-not-fixed", "after the caller overwrote its baseline image(s) in place the "
                        "same probe is mapped to another result (max deviation "
                        f"{float(np.abs(again - first).max()) if again.shape == first.shape else 'shape'!r})", t)
    # another probe in between, then the first one again
    so = Setup(case)
    so.probe_arr = _array(case, case["pdtype"], case["pseed"] + 13)
    ref_o = so.reference()
    got_o = np.asarray(_run(s, ca, _image(case, so.probe_arr.copy(), "probe")).img)
    if not so.close(got_o, ref_o["out"]):
        raise Violation("composition-other-probe", "a second, different probe analysed by the same object "
                        "differs from the reference composition", t)
    back = np.asarray(_run(s, ca).img)
    if not _same(back, first):
        raise Violation("result-depends-on-history", "the first probe analysed again after another one gives "
                        "another result", t)
    floats = all(a.dtype.kind == "f" for a in s.base_arrs)
    return Outcome(True, _key(case), _labels(case) + ("float-baselines" if floats else "promoted-baselines",),
                   evals=4)


# ---------------------------------------------------------------------------------------
# 9. updated_baseline
# ---------------------------------------------------------------------------------------


def gen_updated(tier):
    return configs(force={"nobase": False, "nextra": 0})


def check_updated_baseline(case):
    """`update(base=image)` replaces the baseline: from then on the analysis behaves like one
    constructed with that image (which is copied, and promoted to float where needed)."""
    s = Setup(case)
    ca = s.analysis()
    t = _tags(case)
    t["udtype"] = case["udtype"]
    new_arr = _array(case, case["udtype"], case["pseed"] + 101)
    new_img = _image(case, new_arr.copy(), "base")
    snap = gens.snapshot(new_img)
    _run(s, ca)
    ca.update(base=new_img)
    s.base_arrs = [new_arr]
    ref = s.reference()
    got = np.array(_run(s, ca).img, copy=True)
    if not s.close(got, ref["out"]):
        err = float(np.abs(got - ref["out"]).max()) if got.shape == ref["out"].shape else "shape"
        raise Violation("updated-baseline-composition", "after update(base=...) the result is not the "
                        f"composition with the new baseline (deviation {err!r})", t)
    got0 = np.asarray(ca(_image(case, new_arr.copy(), "probe")).img)
    _assert_zero_signal(s, got0, "the updated baseline analysed against itself", t)
    ok, why = gens.snapshot_equal(snap, gens.snapshot(new_img))
    if not ok:
        raise Violation("baseline-modified", f"image handed to update(base=...) changed: {why}", t)
    _scribble(new_img, case["pseed"] + 1001)
    again = np.asarray(_run(s, ca).img)
    if not _same(again, got):
        raise Violation("baseline-not-fixed:update", "after the caller overwrote the image it had handed to "
                        "update(base=...) the same probe is mapped to another result", t)
    return Outcome(True, _key(case), _labels(case) + (f"update-{_dtype_class(case['udtype'])}",
                   "update-same-dtype" if case["udtype"] == case["dtype"] else "update-other-dtype"), evals=3)


# ---------------------------------------------------------------------------------------
# 10. cleaning_filter_api
# ---------------------------------------------------------------------------------------

_CACHE = os.path.join(os.path.dirname(os.path.dirname(os.path.dirname(os.path.abspath(__file__)))),
                      ".cache", "run-C13")


def gen_filter(tier):
    fl = ["float32", "float64"]
    # the explicit call takes the images as they are (the caller's processed baselines): float
    # images; a colour signal needs a channel-dropping reduction (the filter is 2-D)
    heads = st.tuples(st.booleans(), st.sampled_from(fl), st.sampled_from(fl), st.sampled_from(fl),
                      st.sampled_from([1, 1, 2, 3]),
                      st.sampled_from(["callable", "red", "green", "blue", "red+green", "negative-key", "gray"]))
    return heads.flatmap(lambda a: configs(force=dict(
        {"nobase": False, "rgb": a[0], "dtype": a[1], "pdtype": a[2], "xdtype": a[3], "nextra": a[4]},
        **({"reduction": a[5]} if a[0] else {}))))


def check_cleaning_filter_api(case):
    """find_cleaning_filter(images) on an analysis of the first baseline gives the analysis
    constructed from the whole collection; the filter survives write / read into another analysis
    of the same baseline; find_cleaning_filter() falls back to the internal collection."""
    from pathlib import Path

    s = Setup(case)
    t = _tags(case)
    ref = s.reference()
    ca = s.analysis_on(s.bases[0])
    ca.find_cleaning_filter(list(s.bases[1:]))
    got = np.array(_run(s, ca).img, copy=True)
    if not s.close(got, ref["out"]):
        err = float(np.abs(got - ref["out"]).max()) if got.shape == ref["out"].shape else "shape"
        raise Violation("explicit-filter", "after find_cleaning_filter(images) the result is not the "
                        f"composition cleaned with these images (deviation {err!r})", t)
    k = 1 + case["which"] % case["nextra"]
    got0 = np.asarray(ca(_image(case, s.base_arrs[k].copy(), "probe")).img)
    _assert_zero_signal(s, got0, f"image {k} of the list handed to find_cleaning_filter, as probe", t)
    # store / load
    d = os.path.join(_CACHE, f"{os.getpid()}-{case['pseed']}")
    path = os.path.join(d, "filters", "cleaning.npy")
    try:
        ca.write_cleaning_filter_to_file(path if case["which"] % 2 else Path(path))
        ca2 = s.analysis_on(s.bases[0])
        ca2.read_cleaning_filter_from_file(Path(path) if case["which"] % 2 else path)
        got2 = np.asarray(_run(s, ca2).img)
    finally:
        shutil.rmtree(d, ignore_errors=True)
    if not _same(got2, got):
        raise Violation("filter-file-roundtrip", "an analysis of the same baseline that read the stored "
                        "cleaning filter maps the probe to another result", t)
    # default: the internally available baselines (here: none beyond the first) -> no cleaning
    ca.find_cleaning_filter()
    s0 = Setup(dict(case, nextra=0))
    got3 = np.asarray(_run(s, ca).img)
    if not s0.close(got3, s0.reference()["out"]):
        raise Violation("filter-default-collection", "find_cleaning_filter() without images on an analysis of "
                        "a single baseline does not fall back to 'no cleaning'", t)
    return Outcome(True, _key(case), _labels(case), evals=4)


# ---------------------------------------------------------------------------------------
# 11. prior_posterior
# ---------------------------------------------------------------------------------------


class Spy2:
    """Recording spy for the two-step conversion (several arguments)."""

    def __init__(self, name, fn, log):
        self.name, self.fn, self.log = name, fn, log

    def __call__(self, *args):
        ins = tuple(np.array(a, copy=True) for a in args)
        out = self.fn(*args)
        self.log.append((self.name, ins, np.array(out, copy=True)))
        return out


def _prior(signal, mask):
    m = mask if signal.ndim == mask.ndim else mask[:, :, None]
    return np.where(m, 3.0 * signal - 0.5, 0.25)


def _posterior(signal, prior, diff):
    return prior + 0.5 * signal


def gen_pp(tier):
    return configs(force={"nobase": False, "model": "spy"})


def check_prior_posterior(case):
    """PriorPosteriorConcentrationAnalysis: same pipeline, the conversion being
    posterior(signal, prior(signal, mask), original difference)."""
    if case["balancing"] == "spy-inplace":
        # a stage working in place on an unreduced, uncleaned signal would work on the difference
        # array itself; what the posterior then sees of it is not specified
        case = dict(case, balancing="spy")
    s = Setup(case)
    t = _tags(case)
    base = s.bases[0] if (len(s.bases) == 1 and not case["base_as_list"]) else list(s.bases)
    prior, posterior = Spy2("prior", _prior, s.log), Spy2("posterior", _posterior, s.log)
    ca = darsia.PriorPosteriorConcentrationAnalysis(
        base, s.s_red, s.s_bal, s.s_res, prior, posterior, None, **s.options())
    h, w = case["shape"]
    mask = np.ones((h, w), dtype=bool)
    custom = case["which"] % 2 == 1
    if custom:
        mask = np.random.default_rng(case["pseed"] + 5).integers(0, 2, size=(h, w)).astype(bool)
        ca.update(mask=mask.copy())
    res = _run(s, ca)
    names = [e[0] for e in s.log]
    want = []
    for nme in s.expected_order():
        want += ["prior", "posterior"] if nme == "model" else [nme]
    if names != want:
        raise Violation("stage-order:prior-posterior", f"stages called {names}, documented order {want}", t)
    rec = {e[0]: e for e in s.log}
    ref_d = s.reference()["diff"]
    before = want[want.index("prior") - 1] if want.index("prior") > 0 else None
    sig_in, mask_in = rec["prior"][1]
    if before in ("balancing", "restoration") and not _same(sig_in, rec[before][2]):
        raise Violation("stage-input:prior", f"the prior model did not receive the output of {before}", t)
    if before in (None, "reduction"):
        _, bases_f = s.float_inputs()
        filt = s.ref_filter(bases_f)
        sig = rec["reduction"][2] if before == "reduction" else ref_d
        clean = sig if filt is None else np.maximum(sig - filt, 0)
        if not s.close(sig_in, clean):
            raise Violation("stage-input:prior", "the prior model did not receive the cleaned signal", t)
    if mask_in.dtype != bool or not _same(mask_in, mask):
        raise Violation("prior-mask", "the prior model did not receive the "
                        + ("mask set by update(mask=...)" if custom else "all-true default mask"), t)
    p_sig, p_prior, p_diff = rec["posterior"][1]
    if not _same(p_sig, sig_in):
        raise Violation("stage-input:posterior", "the posterior model did not receive the signal the prior saw", t)
    if not _same(p_prior, rec["prior"][2]):
        raise Violation("stage-input:posterior", "the posterior model did not receive the prior's output", t)
    if not s.close(p_diff, ref_d):
        raise Violation("posterior-diff", "the posterior model did not receive the original difference of "
                        f"probe and baseline (option {case['diff']!r})", t)
    s.r_mod = lambda x: _posterior(x, _prior(x, mask), None)
    ref = s.reference()
    got = np.asarray(res.img)
    if not s.close(got, ref["out"]):
        raise Violation("composition:prior-posterior", "result differs from the composition with the "
                        "two-step conversion", t)
    return Outcome(_nontrivial(case), _key(case), _labels(case) + ("mask-updated" if custom else "mask-default",),
                   evals=6)


_RULE = ("Hypothesis draws the configuration: scalar / RGB, shape 2..16 x 2..16, dtype of baselines and "
         "probe (uint8, uint16, int16, int32 [int64 in integer_promotion], float32, float64; mixed in 25 %), no baseline / single / list with 0-3 "
         "extra baselines, diff option, reduction (none, '', callable weighted channel sum, built-in "
         "colour keys), balancing / restoration / model each absent, a recording spy with a small "
         "non-commuting map (2x+1, x^2+1/4, 3x-1/2; one variant works in place; for colour signals a "
         "model that itself sums the channels) or the real LinearModel / ScalingModel (scaling in "
         "{3, 2, 1, 1/2, 0, -1, -2}, offset in {1, 1/4, 0, -1/4, -1/2}, given plainly or as a key-prefixed "
         "option group) / TVD / ClipModel, both stage orders, 'diff option' left out in 20 % and "
         "'restoration -> model' in 25 % of the cases, image class and physical metadata; the hue / "
         "saturation reduction (constructed for 1 in 6 RGB cases) with default or drawn bounds; which of "
         "the 1 + k baselines is analysed against the collection; an updated baseline of any dtype; "
         "explicit cleaning-filter images (float), stored and re-read; the prior/posterior variant with "
         "default or updated mask; the TVD restoration is either fixed (Chambolle, 0.25 / 30 iterations / eps 0, i.e. never stopping early) or configured "
         "through an option group: key prefix '' / 'restoration ' / 'tvd_', method Chambolle / "
         "anisotropic / isotropic Bregman, weight, max_num_iter and eps each drawn (for Chambolle "
         "also left out); payloads are dyadic (k/8) for floats and full-range (both signs for signed "
         "types) for integers; non-trivial = "
         "RGB with a channel-dropping reduction, or >= 1 extra baseline, or model before restoration; "
         "distinct = the configuration incl. payload seed")

_N = {"quick": 600, "thorough": 15000}
_N2 = {"quick": 300, "thorough": 8000}
_SH = {"quick": 2, "thorough": 16}

PROP = Prop(
    pid="C13",
    rule=_RULE,
    assumptions=[
        "reference composition: difference per option on the float versions (skimage.img_as_float for "
        "integers; all baselines converted if any is integer), reduction, cleaning = clip(signal - "
        "elementwise max of the reduced differences of the extra baselines to the first, 0), balancing, "
        "then restoration/model in the configured order",
        "exact comparison for dyadic float payloads through exact maps; 1e-12 relative for integer "
        "inputs (1/255 scaling), 1e-5 where float32 data meets gray / TVD",
        "a configured TVD restoration is the wrapped skimage routine (denoise_tv_chambolle / "
        "denoise_tv_bregman) called with exactly the configured weight / max_num_iter / eps, whatever "
        "key prefix the options carry; an option is left out only for Chambolle, where the wrapper's "
        "default equals skimage's (0.1 / 200 / 2e-4); applied to the recorded stage input the comparison "
        "is exact; a configured TVD is not combined with the float32 reductions gray / hsv (round-off "
        "could move its stopping iteration); the fixed variant runs with eps = 0, i.e. always all 30 "
        "iterations, for the same reason",
        "every non-float dtype counts as integer-typed and is promoted with skimage.img_as_float "
        "(unsigned -> [0, 1], signed -> [-1, 1]) for baselines and probe alike",
        "extra baselines are only combined with a signal that has no channel axis (the cleaning filter "
        "is 2-D); hsv reduction only on integer inputs and non-plain differences",
        "a left-out 'diff option' means 'absolute' and a left-out 'restoration -> model' means restoration "
        "first (constructor defaults; the form of the shipped examples and presets, and 'swapped when so "
        "configured' in the statement)",
        "every baseline of the collection is mapped to a zero signal, not only the first: the cleaning "
        "filter is the maximum over exactly these reduced differences, computed by the same operations",
        "the result is a scalar image whenever the signal has lost its channel axis, whichever stage "
        "dropped it (the model does in darsia.utils.detection.monochromatic_concentration_analysis)",
        "the baseline is copied at construction and at update(base=image) (anchor: 'baseline copy ... fixed "
        "at construction / update'): overwriting the caller's images afterwards, or analysing other probes "
        "in between, does not change a result; update(base=image) makes the analysis behave like one "
        "constructed with that image (single baseline, no cleaning filter in that sub-check)",
        "find_cleaning_filter(images) takes float images as they are (its caller hands over processed "
        "baselines); write/read of the filter (.npy path, str or Path) is loss-free; find_cleaning_filter() "
        "without images uses the collection given at construction",
        "PriorPosteriorConcentrationAnalysis: the conversion is posterior(signal, prior(signal, mask), "
        "original difference) with mask = all-true of the baseline's shape unless set by update(mask=...); "
        "no in-place stage in that sub-check (it would work on the difference array itself)",
    ],
    subs=[
        Sub("baseline_to_zero", check_baseline_to_zero, gen=gen_base, n=_N, shards=_SH),
        Sub("stage_order_and_inputs", check_stage_order, gen=gen, n=_N, shards=_SH),
        Sub("equals_reference_composition", check_reference_composition, gen=gen, n=_N, shards=_SH),
        Sub("diff_options", check_diff_options, gen=gen_diff, n={"quick": 300, "thorough": 8000}, shards=_SH),
        Sub("probe_unmodified", check_probe_unmodified, gen=gen_unmodified, n=_N, shards=_SH),
        Sub("result_metadata", check_result_metadata, gen=gen_meta, n=_N, shards=_SH),
        Sub("integer_promotion", check_integer_promotion, gen=gen_integer,
            n={"quick": 400, "thorough": 10000}, shards=_SH),
        Sub("baseline_fixed_at_construction", check_baseline_fixed, gen=gen_base, n=_N2, shards=_SH),
        Sub("updated_baseline", check_updated_baseline, gen=gen_updated, n=_N2, shards=_SH),
        Sub("cleaning_filter_api", check_cleaning_filter_api, gen=gen_filter, n=_N2, shards=_SH),
        Sub("prior_posterior", check_prior_posterior, gen=gen_pp, n=_N2, shards=_SH),
    ],
)
