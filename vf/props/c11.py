"""C11 - resampling and axis reduction conserve integrals.

Integral of an image = sum of the data x voxel volume (per time step / component), observed
through ``darsia.Geometry(**img.shape_metadata()).integrate(img)`` on the result and through a
plain numpy reference on the input.
"""
import numpy as np
from hypothesis import strategies as st

import darsia
from vf import gens
from vf.oracles import AXES
from vf.runner import Outcome, Prop, Sub, Violation

TOL64 = 1e-13  # plain float64 sums, relative to the sum of magnitudes
TOL_CV = 1e-5  # float32 payloads / cv2 area interpolation (float coefficients); probe: 9.1e-7


# ---------------------------------------------------------------------------------------
# helpers
# ---------------------------------------------------------------------------------------


def _img_specs(dims=(2,), max_extent=None, dtypes=("float64", "float32"), **kw):
    mx = {1: 24, 2: 12, 3: 5}
    mx.update(max_extent or {})
    return gens.image_specs(dims=dims, max_extent=mx, dtypes=dtypes, max_nt=3, max_comp=3, **kw)


def _trail(spec):
    return tuple(gens.full_shape(spec)[spec["dim"]:])


def _vol(dimensions, shape):
    return float(np.prod(np.array(dimensions, dtype=float)) / np.prod(np.array(shape, dtype=float)))


def _ref_integral(arr, dim, dimensions):
    """-> (integral, magnitude) per time step / component from a plain numpy sum."""
    a = np.asarray(arr, dtype=float)
    vol = _vol(dimensions, a.shape[:dim])
    ax = tuple(range(dim))
    return a.sum(axis=ax) * vol, np.abs(a).sum(axis=ax) * vol


def _geom_integral(img):
    """Integral of an image through the library's own Geometry.  float32 payloads are handed
    over as a float64 array so that the observer adds no float32 summation noise of its own."""
    g = darsia.Geometry(**img.shape_metadata())
    if img.img.dtype == np.float64:
        return np.asarray(g.integrate(img), dtype=float)
    return np.asarray(g.integrate(img.img.astype(float)), dtype=float)


def _tags(spec, **extra):
    t = {"dim": spec["dim"], "dtype": spec["dtype"], "payload": _pclass(spec)}
    t.update(extra)
    return t


def _pclass(spec):
    return ("vector" if spec["payload"] == "vector" else "scalar") + (
        "-series" if spec["series"] else "")


def _labels(spec, *extra):
    labs = [f"dim{spec['dim']}", spec["dtype"], f"payload-{_pclass(spec)}",
            "odd" if any(n % 2 for n in spec["shape"]) else "even",
            "origin-user" if spec["origin"] is not None else "origin-default"]
    if 1 in spec["shape"]:
        labs.append("thin")
    return tuple(labs) + tuple(extra)


def _close(got, want, mag, tol):
    got = np.asarray(got, dtype=float)
    want = np.asarray(want, dtype=float)
    if got.shape != want.shape:
        return False, f"shape {got.shape} vs {want.shape}"
    err = np.abs(got - want)
    bad = err > tol * np.asarray(mag, dtype=float) + 1e-300
    if np.any(bad):
        i = np.unravel_index(int(np.argmax(err - tol * np.asarray(mag))), err.shape)
        return False, f"{got[i]!r} vs {want[i]!r} (component {list(i)}, |diff| {err[i]:.3e})"
    return True, ""


def _assert_unchanged(img, snap, kind, t):
    """The argument of an operation that returns a new image is left as it was: data *and*
    metadata (``metadata()`` hands out the image's own ``dimensions`` / ``origin`` objects, so an
    in-place edit of the returned dict entries would reach the input)."""
    ok, why = gens.snapshot_equal(snap, gens.snapshot(img))
    if not ok:
        raise Violation(kind, f"input image modified ({why})", t)


def _same_frame(out, spec, img, t, what, dtype=None):
    """The physical frame (dimensions, origin) is kept; trailing axes and dtype as well
    (``dtype``: the documented conversion dtype of Resize, if one was requested)."""
    if [float(d) for d in out.dimensions] != [float(d) for d in img.dimensions]:
        raise Violation(f"{what}:dimensions", f"{list(out.dimensions)} vs {list(img.dimensions)}", t)
    if not np.array_equal(np.asarray(out.origin, float), np.asarray(img.origin, float)):
        raise Violation(f"{what}:origin", f"{np.asarray(out.origin).tolist()} vs "
                        f"{np.asarray(img.origin).tolist()}", t)
    if out.img.shape[spec["dim"]:] != img.img.shape[spec["dim"]:]:
        raise Violation(f"{what}:trailing-shape", f"{out.img.shape} from {img.img.shape}", t)
    want_dtype = img.img.dtype if dtype is None else np.dtype(dtype)
    if out.img.dtype != want_dtype:
        raise Violation(f"{what}:dtype", f"{out.img.dtype} from {img.img.dtype}"
                        + ("" if dtype is None else f" with conversion dtype {dtype}"), t)
    if out.space_dim != img.space_dim or out.series != img.series or out.scalar != img.scalar:
        raise Violation(f"{what}:kind", "space_dim / series / scalar flag changed", t)


# ---------------------------------------------------------------------------------------
# 1 + 2. Resize with inter_area
# ---------------------------------------------------------------------------------------

OBJ_APIS = ["shape", "ref", "key", "factor", "key-factor", "key-general", "factor-x", "factor-y"]
FUN_APIS = ["fun-shape", "fun-ref", "fun-factor", "fun-factor-y"]
# option forms of Resize: positional target ("shape" / "ref" / "factor"), the same through the
# keyed option dictionary ("key": '<key>resize shape', "key-factor": '<key>resize x' + '<key>resize
# y', "key-general": the single '<key>resize' factor for both axes), one-sided factors (the other
# factor keeps its default 1), and the functional wrapper darsia.resize.


def gen_resize(apis, inputs):
    def gen(tier):
        @st.composite
        def strat(draw):
            spec = draw(_img_specs())
            api = draw(st.sampled_from(apis))
            h, w = spec["shape"]
            up = draw(st.integers(0, 2)) == 0
            if api == "key-general":
                # one factor for both axes: integer up-sampling by q, or down-sampling by 1/q of
                # an image whose extents are multiples of q
                q = draw(st.sampled_from([1, 2, 2, 3, 3]))
                if up:
                    target = [h * q, w * q]
                else:
                    target = [draw(st.integers(1, 4)), draw(st.integers(1, 4))]
                    vox = [d / n for d, n in zip(spec["dimensions"], spec["shape"])]
                    spec["shape"] = [target[0] * q, target[1] * q]
                    spec["dimensions"] = [n * v for n, v in zip(spec["shape"], vox)]
            elif up:
                target = [h * draw(st.integers(1, 3)), w * draw(st.integers(1, 3))]
            else:
                target = [draw(st.integers(1, h)), draw(st.integers(1, w))]
            if api in ("factor-x",):
                target[0] = spec["shape"][0]
            if api in ("factor-y", "fun-factor-y"):
                target[1] = spec["shape"][1]
            return {"img": spec, "target": target, "mode": "up" if up else "down",
                    "api": api, "input": draw(st.sampled_from(inputs)),
                    # data whose total vanishes (difference of two distributions, dipole) or is zero
                    "data": draw(st.sampled_from(["general", "general", "general", "zero-sum", "all-zero"])),
                    # documented conversion dtype ("conversion dtype before resizing")
                    "conv": draw(st.sampled_from([None, None, None, "float64", "float32"]))}

        return strat()

    return gen


def _do_resize(case, img, conservative):
    spec, target, api = case["img"], case["target"], case["api"]
    h, w = spec["shape"]
    conv = case.get("conv")
    cons = {"resize conservative": True} if conservative else {}
    dt = {} if conv is None else {"dtype": getattr(np, conv)}
    ref_kw = dict(space_dim=2, dimensions=[1.0, 1.0])
    if api == "shape":
        op = darsia.Resize(shape=tuple(target), interpolation="inter_area", **dt, **cons)
    elif api == "ref":
        ref = darsia.Image(np.zeros(tuple(target)), **ref_kw)
        op = darsia.Resize(ref_image=ref, interpolation="inter_area", **dt, **cons)
    elif api in ("key", "key-factor", "key-general"):
        kw = {"pre resize interpolation": "inter_area"}
        if api == "key":
            kw["pre resize shape"] = tuple(target)
        elif api == "key-factor":
            kw["pre resize x"] = target[1] / w
            kw["pre resize y"] = target[0] / h
        else:
            kw["pre resize"] = target[0] / h  # == target[1] / w by construction
        if conservative:
            kw["pre resize conservative"] = True
        if conv is not None:
            kw["pre resize dtype"] = getattr(np, conv)
        # un-prefixed entries belong to another option group of the same dictionary; the entries
        # carrying this object's key decide (only options that are also given with the key)
        kw["resize interpolation"] = "inter_nearest"
        if api == "key":
            kw["resize shape"] = (target[0] + 1, target[1] + 2)
        if conservative:
            kw["resize conservative"] = False
        op = darsia.Resize(key="pre ", **kw)
    elif api == "factor":
        op = darsia.Resize(fx=target[1] / w, fy=target[0] / h, interpolation="inter_area", **dt, **cons)
    elif api == "factor-x":
        op = darsia.Resize(fx=target[1] / w, interpolation="inter_area", **dt, **cons)
    elif api == "factor-y":
        op = darsia.Resize(fy=target[0] / h, interpolation="inter_area", **dt, **cons)
    elif api == "fun-shape":
        return darsia.resize(img, shape=tuple(target), interpolation="inter_area", **dt)
    elif api == "fun-ref":
        ref = darsia.Image(np.zeros(tuple(target)), **ref_kw)
        return darsia.resize(img, ref_image=ref, interpolation="inter_area", **dt)
    elif api == "fun-factor":
        return darsia.resize(img, fx=target[1] / w, fy=target[0] / h, interpolation="inter_area", **dt)
    elif api == "fun-factor-y":
        return darsia.resize(img, fy=target[0] / h, interpolation="inter_area", **dt)
    return op(img)


def _resize_class(case):
    h, w = case["img"]["shape"]
    th, tw = case["target"]
    if case["mode"] == "up":
        return "identity" if (th, tw) == (h, w) else "up-integer"
    if (th, tw) == (h, w):
        return "identity"
    return "down-integer" if (h % th == 0 and w % tw == 0) else "down-nonint"


def _resize_nontrivial(case):
    spec = case["img"]
    return (any(n % 2 for n in spec["shape"]) or _resize_class(case) == "down-nonint"
            or spec["payload"] == "vector" or spec["series"])


def _resize_input(case):
    img = gens.build_image(case["img"])
    kind = case.get("data", "general")
    if kind == "zero-sum":
        img.img = img.img - img.img[::-1]  # antisymmetric along the rows: every column sums to zero exactly
    elif kind == "all-zero":
        img.img = np.zeros_like(img.img)
    return img


def check_resize_conservative(case):
    spec = case["img"]
    img = _resize_input(case)
    before = img.img.copy()
    snap = gens.snapshot(img)
    conv = case.get("conv")
    t = _tags(spec, cls=_resize_class(case), api=case["api"], conv=str(conv))
    arg = img if case["input"] == "image" else img.img
    out = _do_resize(case, arg, conservative=True)
    if case["input"] == "image":
        if not isinstance(out, darsia.Image):
            raise Violation("resize:return-type", f"{type(out).__name__} for an Image", t)
        _same_frame(out, spec, img, t, "resize", dtype=conv)
        arr = out.img
    else:
        if isinstance(out, darsia.Image) or not isinstance(out, np.ndarray):
            raise Violation("resize:return-type", f"{type(out).__name__} for an array", t)
        arr = out
        if arr.dtype != np.dtype(conv or spec["dtype"]):
            raise Violation("resize:dtype", f"{arr.dtype} from {before.dtype} with conversion dtype {conv}", t)
    if list(arr.shape[:2]) != list(case["target"]) or arr.shape[2:] != before.shape[2:]:
        raise Violation("resize:shape", f"{arr.shape} for target {case['target']} from "
                        f"{before.shape}", t)
    s0 = before.astype(float).sum(axis=(0, 1))
    m0 = np.abs(before.astype(float)).sum(axis=(0, 1))
    if not np.all(np.isfinite(arr)):
        raise Violation("resize-conservative:nonfinite", f"{before.shape[:2]} -> {case['target']}: non-finite values "
                        f"for finite input ({case.get('data', 'general')} data)", t)
    ok, msg = _close(arr.astype(float).sum(axis=(0, 1)), s0, np.maximum(m0, 0.0), TOL_CV)
    if not ok:
        raise Violation("resize-conservative:sum", f"{before.shape[:2]} -> {case['target']} "
                        f"({_resize_class(case)}, {case.get('data', 'general')} data): np.sum {msg}", t)
    if case.get("data") == "zero-sum" and before.shape[0] % 2 == 0 and case["target"][0] % 2 == 0 \
            and (before.shape[0] % case["target"][0] == 0 or case["target"][0] % before.shape[0] == 0):
        # sub-region integrals: the upper half alone carries a non-zero sum which is conserved as well
        h0, h1 = before.shape[0] // 2, case["target"][0] // 2
        su0 = before[:h0].astype(float).sum(axis=(0, 1))
        mu0 = np.abs(before[:h0].astype(float)).sum(axis=(0, 1))
        ok, msg = _close(arr[:h1].astype(float).sum(axis=(0, 1)), su0, mu0, TOL_CV)
        if not ok:
            raise Violation("resize-conservative:half-sum", f"{before.shape[:2]} -> {case['target']}: sum over the "
                            f"upper half {msg}", t)
    _assert_unchanged(img, snap, "resize:mutates", t)
    return Outcome(_resize_nontrivial(case), case,
                   _labels(spec, _resize_class(case), f"api-{case['api']}", case["input"],
                           f"data-{case.get('data', 'general')}", f"conv-{conv}"))


def check_resize_area(case):
    spec = case["img"]
    img = gens.build_image(spec)
    before = img.img.copy()
    snap = gens.snapshot(img)
    conv = case.get("conv")
    t = _tags(spec, cls=_resize_class(case), api=case["api"], conv=str(conv))
    out = _do_resize(case, img, conservative=False)
    if not isinstance(out, darsia.Image):
        raise Violation("resize:return-type", f"{type(out).__name__} for an Image", t)
    _same_frame(out, spec, img, t, "resize", dtype=conv)
    if list(out.img.shape[:2]) != list(case["target"]):
        raise Violation("resize:shape", f"{out.img.shape} for target {case['target']}", t)
    want, mag = _ref_integral(before, 2, spec["dimensions"])
    ok, msg = _close(_geom_integral(img), want, mag, TOL_CV if spec["dtype"] == "float32" else TOL64)
    if not ok:
        raise Violation("integral-observer", f"Geometry.integrate of the input: {msg}", t)
    ok, msg = _close(_geom_integral(out), want, mag, TOL_CV)
    if not ok:
        raise Violation("resize-area:integral", f"{before.shape[:2]} -> {case['target']} "
                        f"({_resize_class(case)}): integral {msg}", t)
    _assert_unchanged(img, snap, "resize:mutates", t)
    return Outcome(_resize_nontrivial(case), case,
                   _labels(spec, _resize_class(case), f"api-{case['api']}", f"conv-{conv}"))


def gen_resize_reuse(tier):
    @st.composite
    def strat(draw):
        target = [draw(st.integers(1, 6)), draw(st.integers(1, 6))]
        n = draw(st.integers(2, 4))
        imgs = []
        for _ in range(n):
            spec = draw(_img_specs())
            # pure down-sampling or integer up-sampling w.r.t. the fixed target
            if draw(st.booleans()):
                spec["shape"] = [target[0] * draw(st.integers(1, 3)), target[1] * draw(st.integers(1, 3))]
            else:
                spec["shape"] = [draw(st.integers(target[0], 12)), draw(st.integers(target[1], 12))]
            spec["dimensions"] = [float(spec["shape"][0]) * 0.5, float(spec["shape"][1]) * 0.25]
            imgs.append(spec)
        return {"target": target, "imgs": imgs, "conservative": draw(st.booleans()),
                "api": draw(st.sampled_from(["shape", "ref"]))}

    return strat()


def check_resize_reuse(case):
    """One Resize object applied to several images of different shapes: every result conserves its
    own input and equals what a fresh Resize object gives."""
    def make():
        cons = {"resize conservative": True} if case["conservative"] else {}
        if case["api"] == "shape":
            return darsia.Resize(shape=tuple(case["target"]), interpolation="inter_area", **cons)
        ref = darsia.Image(np.zeros(tuple(case["target"])), space_dim=2, dimensions=[1.0, 1.0])
        return darsia.Resize(ref_image=ref, interpolation="inter_area", **cons)

    shared = make()
    t = {"api": case["api"], "conservative": case["conservative"]}
    for k, spec in enumerate(case["imgs"]):
        img = gens.build_image(spec)
        before = img.img.copy()
        out = shared(img)
        fresh = make()(gens.build_image(spec))
        if out.img.shape != fresh.img.shape or not np.array_equal(out.img, fresh.img, equal_nan=True):
            raise Violation("resize-reuse:history", f"call {k} of a re-used Resize object on shape "
                            f"{spec['shape']} (earlier shapes {[s['shape'] for s in case['imgs'][:k]]}) differs "
                            f"from a fresh Resize object", t)
        if case["conservative"]:
            s0 = before.astype(float).sum(axis=(0, 1))
            m0 = np.abs(before.astype(float)).sum(axis=(0, 1))
            ok, msg = _close(out.img.astype(float).sum(axis=(0, 1)), s0, m0, TOL_CV)
            if not ok:
                raise Violation("resize-reuse:sum", f"call {k} ({spec['shape']} -> {case['target']}): np.sum {msg}", t)
        if not np.array_equal(img.img, before):
            raise Violation("resize:mutates", "input array modified", t)
    shapes = {tuple(s["shape"]) for s in case["imgs"]}
    return Outcome(len(shapes) >= 2, case, ("conservative" if case["conservative"] else "plain",
                                             f"n{len(case['imgs'])}"), evals=len(case["imgs"]))


# ---------------------------------------------------------------------------------------
# 3 + 4. uniform refinement / coarsening
# ---------------------------------------------------------------------------------------

_REF_DIMS = (1, 2, 2, 2, 3)
_MAXLEV = {1: 3, 2: 3, 3: 2}


def gen_refine(tier):
    @st.composite
    def strat(draw):
        spec = draw(_img_specs(dims=_REF_DIMS, max_extent={1: 16, 2: 12, 3: 5}))
        return {"img": spec, "levels": draw(st.integers(0, _MAXLEV[spec["dim"]]))}

    return strat()


def _ceil_half(n, times):
    for _ in range(times):
        n = (n + 1) // 2
    return n


def check_refine(case):
    spec, lev = case["img"], case["levels"]
    img = gens.build_image(spec)
    before = img.img.copy()
    snap = gens.snapshot(img)
    dim = spec["dim"]
    t = _tags(spec, levels=lev)
    out = darsia.uniform_refinement(img, lev)
    _same_frame(out, spec, img, t, "refine")
    want_shape = [n * 2**lev for n in spec["shape"]]
    if list(out.img.shape[:dim]) != want_shape:
        raise Violation("refine:shape", f"{out.img.shape} from {before.shape} at level {lev}", t)
    want, mag = _ref_integral(before, dim, spec["dimensions"])
    tol = TOL_CV if spec["dtype"] == "float32" else TOL64
    ok, msg = _close(_geom_integral(out), want, mag, tol)
    if not ok:
        raise Violation("refine:integral", f"level {lev} on {before.shape}: {msg}", t)
    _assert_unchanged(img, snap, "refine:mutates", t)
    return Outcome(lev >= 1 and (dim >= 2 or _pclass(spec) != "scalar"), case,
                   _labels(spec, f"level+{lev}"))


def gen_coarsen(tier):
    @st.composite
    def strat(draw):
        dim = draw(st.sampled_from(list(_REF_DIMS)))
        lev = draw(st.integers(1, _MAXLEV[dim]))
        cls = draw(st.sampled_from(["general-divisible", "constant-any", "constant-any"]))
        if cls == "general-divisible":
            qmax = {1: 6, 2: 3, 3: 2}[dim]
            shape = [draw(st.integers(1, qmax)) * 2**lev for _ in range(dim)]
            spec = draw(_img_specs(dims=(dim,), min_extent=1))
            vox = [d / n for d, n in zip(spec["dimensions"], spec["shape"])]
            spec["shape"] = shape
            spec["dimensions"] = [n * h for n, h in zip(shape, vox)]
        else:
            spec = draw(_img_specs(dims=(dim,), max_extent={1: 24, 2: 12, 3: 6}))
        return {"img": spec, "levels": -lev, "cls": cls,
                "consts": [draw(st.integers(-16, 16)) / 4.0 for _ in range(9)]}

    return strat()


def _coarsen_input(case):
    spec = case["img"]
    img = gens.build_image(spec)
    if case["cls"] == "constant-any":
        tr = _trail(spec)
        n = int(np.prod(tr)) if tr else 1
        c = np.array((case["consts"] * 2)[:n], dtype=float).reshape(tr)
        if not np.any(c):
            c = c + 1.0
        img.img[...] = c.astype(img.img.dtype)
    return img


def check_coarsen(case):
    spec, lev = case["img"], case["levels"]
    dim = spec["dim"]
    img = _coarsen_input(case)
    before = img.img.copy()
    snap = gens.snapshot(img)
    odd = any((n % 2**abs(lev)) != 0 for n in spec["shape"])
    t = _tags(spec, levels=lev, cls=case["cls"], divisible=not odd)
    try:
        out = darsia.uniform_refinement(img, lev)
    except ValueError as e:
        if not odd:
            raise
        # same root cause as the halved last row: the extent of an intermediate level is odd
        # (or 1) while the code pairs it up as if it still had the input's extent
        raise Violation("coarsen-odd-extent:constant", f"level {lev} on shape "
                        f"{list(before.shape)} ({case['cls']} data): ValueError({e})", t)
    _same_frame(out, spec, img, t, "coarsen")
    want_shape = [_ceil_half(n, abs(lev)) for n in spec["shape"]]
    if list(out.img.shape[:dim]) != want_shape:
        raise Violation("coarsen:shape", f"{out.img.shape} from {before.shape} at level {lev}", t)
    want, mag = _ref_integral(before, dim, spec["dimensions"])
    tol = TOL_CV if spec["dtype"] == "float32" else TOL64
    ok, msg = _close(_geom_integral(out), want, mag, tol)
    if not ok:
        kind = "coarsen:integral" if not odd else "coarsen-odd-extent:constant"
        raise Violation(kind, f"level {lev} on shape {list(before.shape)} "
                        f"({case['cls']} data): integral {msg}", t)
    _assert_unchanged(img, snap, "coarsen:mutates", t)
    nt = odd or dim >= 2 or _pclass(spec) != "scalar"
    return Outcome(nt, case, _labels(spec, f"level{lev}", case["cls"],
                                     "divisible" if not odd else "non-divisible"))


def gen_roundtrip(tier):
    @st.composite
    def strat(draw):
        spec = draw(_img_specs(dims=_REF_DIMS, max_extent={1: 16, 2: 12, 3: 5},
                               times=("none", "time", "both")))
        return {"img": spec, "levels": draw(st.integers(1, _MAXLEV[spec["dim"]]))}

    return strat()


def check_roundtrip(case):
    spec, lev = case["img"], case["levels"]
    img = gens.build_image(spec)
    snap = gens.snapshot(img)
    t = _tags(spec, levels=lev)
    fine = darsia.uniform_refinement(img, lev)
    back = darsia.uniform_refinement(fine, -lev)
    if back.img.shape != snap["img"].shape:
        raise Violation("roundtrip:shape", f"{snap['img'].shape} -> {fine.img.shape} -> "
                        f"{back.img.shape}", t)
    if not np.array_equal(back.img, snap["img"]):
        i = tuple(np.argwhere(back.img != snap["img"])[0])
        raise Violation("roundtrip:values", f"refine {lev} then coarsen {lev} on shape "
                        f"{list(snap['img'].shape)}: voxel {list(i)} {back.img[i]!r} vs "
                        f"{snap['img'][i]!r}", t)
    ok, why = gens.snapshot_equal(gens.snapshot(back), snap)
    if not ok:
        raise Violation("roundtrip:metadata", why, t)
    ok, why = gens.snapshot_equal(gens.snapshot(img), snap)
    if not ok:
        raise Violation("roundtrip:mutates", why, t)
    return Outcome(True, case, _labels(spec, f"level{lev}"))


# ---------------------------------------------------------------------------------------
# 5 + 6. axis reduction
# ---------------------------------------------------------------------------------------


def gen_reduce(tier):
    @st.composite
    def strat(draw):
        spec = draw(_img_specs(dims=(2, 3), max_extent={2: 9, 3: 5}))
        dim = spec["dim"]
        if draw(st.booleans()):
            axis = draw(st.integers(0, dim - 1))
        else:
            axis = draw(st.sampled_from(list("xyz"[:dim])))
        return {"img": spec, "axis": axis, "via": draw(st.sampled_from(_VIAS)),
                "slice": draw(st.integers(0, 10**6))}

    return strat()


def _matrix_axis(dim, axis):
    if isinstance(axis, int):
        return axis
    return AXES[dim]["xyz".index(axis)][0]


# call forms: everything spelled out ("object" / "function"), or relying on the documented defaults
# (AxisReduction: dim=3, mode="average"; reduce_axis: mode="average") with keyword arguments
_VIAS = ["object", "function", "object-defaults", "function-defaults"]


def _make_reduction(via, axis, dim, mode, **kw):
    if via == "object-defaults":
        args = {"axis": axis}
        if dim != 3:
            args["dim"] = dim
        if mode != "average":
            args["mode"] = mode
        return darsia.AxisReduction(**args, **kw)
    return darsia.AxisReduction(axis, dim=dim, mode=mode, **kw)


def _defaults_used(via, dim, mode):
    if via == "object-defaults":
        return dim == 3 or mode == "average"
    return via == "function-defaults" and mode == "average"


def _reduce(case, img, mode, **kw):
    dim = case["img"]["dim"]
    via = case["via"]
    if via in ("object", "object-defaults"):
        return _make_reduction(via, case["axis"], dim, mode, **kw)(img)
    if via == "function-defaults":
        if mode == "average":
            return darsia.reduce_axis(img, case["axis"], **kw)
        return darsia.reduce_axis(image=img, axis=case["axis"], mode=mode, **kw)
    return darsia.reduce_axis(img, case["axis"], mode, **kw)


def _reduce_frame(out, img, spec, m, t):
    dim = spec["dim"]
    want_dims = [float(d) for i, d in enumerate(spec["dimensions"]) if i != m]
    if out.space_dim != dim - 1:
        raise Violation("reduce:space-dim", f"{out.space_dim} from {dim}", t)
    if [float(d) for d in out.dimensions] != want_dims:
        raise Violation("reduce:dimensions", f"retained dimensions {list(out.dimensions)}, input "
                        f"{spec['dimensions']} without matrix axis {m}", t)
    want_shape = tuple(n for i, n in enumerate(img.img.shape) if i != m)
    if out.img.shape != want_shape:
        raise Violation("reduce:shape", f"{out.img.shape} vs {want_shape}", t)
    if out.series != img.series or out.scalar != img.scalar:
        raise Violation("reduce:kind", "series / scalar flag changed", t)
    # physical extent of the retained axes: each retained Cartesian axis keeps its interval
    # [min, max].  (Asserted where the library's reduced axis naming is coherent: both reductions in
    # 2-D and the x / y reductions in 3-D; after a z reduction the unchanged library itself names the
    # two retained axes crosswise, which no listed property covers.)
    from vf.oracles import AXES, RefCS

    c_red = [c for c, (mm, s_) in enumerate(AXES[dim]) if mm == m][0]
    if dim == 2 or c_red in (0, 1):
        old = RefCS(dim, spec["shape"], spec["dimensions"], spec["origin"])
        lo_old = np.minimum(old.coordinate([0] * dim), old.coordinate(spec["shape"]))
        hi_old = np.maximum(old.coordinate([0] * dim), old.coordinate(spec["shape"]))
        kept = [c for c in range(dim) if c != c_red]
        new = RefCS(dim - 1, list(want_shape[: dim - 1]), [float(d) for d in out.dimensions],
                    [float(v) for v in np.asarray(out.origin)])
        lo_new = np.minimum(new.coordinate([0] * (dim - 1)), new.coordinate(list(want_shape[: dim - 1])))
        hi_new = np.maximum(new.coordinate([0] * (dim - 1)), new.coordinate(list(want_shape[: dim - 1])))
        scale = np.abs(lo_old).max() + np.abs(hi_old).max() + 1.0
        if np.any(np.abs(lo_new - lo_old[kept]) > 1e-12 * scale) or np.any(np.abs(hi_new - hi_old[kept]) > 1e-12 * scale):
            raise Violation("reduce:extent", f"retained axes {['xyz'[c] for c in kept]} span "
                            f"{list(zip(lo_old[kept].tolist(), hi_old[kept].tolist()))} in the input but "
                            f"{list(zip(lo_new.tolist(), hi_new.tolist()))} in the reduced image (origin "
                            f"{np.asarray(out.origin).tolist()})", t)


def _reduce_labels(case, mode=None):
    spec = case["img"]
    a = case["axis"]
    extra = ("defaults-used",) if mode and _defaults_used(case["via"], spec["dim"], mode) else ()
    return _labels(spec, f"axis-{a}" if isinstance(a, str) else f"index-{a}", case["via"], *extra)


def _reduce_values(out, before, m, mode, dtype, axis, t, idx=None):
    """sum == plain array sum, average == sum / number of voxels, slice == np.take."""
    if mode == "slice":
        want = np.take(before, idx, axis=m)
        if out.img.shape != want.shape or not np.array_equal(out.img, want):
            raise Violation(f"reduce-slice:matrix-axis-{m}", f"slice {idx} along axis {axis} "
                            f"(matrix axis {m}) of shape {list(before.shape)}: result shape "
                            f"{list(out.img.shape)}, np.take gives {list(want.shape)}"
                            + ("" if out.img.shape != want.shape else " (values differ)"), t)
        return
    s = before.astype(float).sum(axis=m)
    mag = np.abs(before.astype(float)).sum(axis=m)
    n = before.shape[m]
    tol = TOL_CV if dtype == "float32" else 4e-16
    if mode == "sum":
        ok, msg = _close(out.img, s, mag, 0.0 if dtype == "float64" else tol)
        if not ok:
            raise Violation("reduce-sum", f"axis {axis} (matrix axis {m}) of shape "
                            f"{list(before.shape)}: {msg}", t)
    else:
        ok, msg = _close(out.img, s / n, mag / n, tol)
        if not ok:
            raise Violation("reduce-average", f"axis {axis} (matrix axis {m}, {n} voxels) "
                            f"of shape {list(before.shape)}: {msg}", t)


def _check_reduce_mode(case, mode):
    spec = case["img"]
    dim = spec["dim"]
    m = _matrix_axis(dim, case["axis"])
    img = gens.build_image(spec)
    before = img.img.copy()
    snap = gens.snapshot(img)
    t = _tags(spec, axis=str(case["axis"]), mode=mode, via=case["via"])
    out = _reduce(case, img, mode)
    _reduce_frame(out, img, spec, m, t)
    _reduce_values(out, before, m, mode, spec["dtype"], case["axis"], t)
    _assert_unchanged(img, snap, "reduce:mutates", t)
    return Outcome(True, case, _reduce_labels(case, mode))


def check_reduce_sum(case):
    return _check_reduce_mode(case, "sum")


def check_reduce_average(case):
    return _check_reduce_mode(case, "average")


def check_reduce_integral(case):
    spec = case["img"]
    dim = spec["dim"]
    m = _matrix_axis(dim, case["axis"])
    img = gens.build_image(spec)
    snap = gens.snapshot(img)
    t = _tags(spec, axis=str(case["axis"]), mode="average", via=case["via"])
    want, mag = _ref_integral(img.img, dim, spec["dimensions"])
    tol = TOL_CV if spec["dtype"] == "float32" else TOL64
    ok, msg = _close(_geom_integral(img), want, mag, tol)
    if not ok:
        raise Violation("integral-observer", f"Geometry.integrate of the input: {msg}", t)
    out = _reduce(case, img, "average")
    _reduce_frame(out, img, spec, m, t)
    length = float(spec["dimensions"][m])
    ok, msg = _close(_geom_integral(out) * length, want, mag, tol)
    if not ok:
        raise Violation("reduce-integral", f"axis {case['axis']}: integral of the average x "
                        f"{length!r} vs integral of the input: {msg}", t)
    # the sum carries the integral divided by the voxel size along the axis
    out_s = _reduce(case, img, "sum")
    h = length / spec["shape"][m]
    ok, msg = _close(_geom_integral(out_s) * h, want, mag, tol)
    if not ok:
        raise Violation("reduce-integral-sum", f"axis {case['axis']}: integral of the sum x voxel "
                        f"size {h!r} vs integral of the input: {msg}", t)
    _assert_unchanged(img, snap, "reduce:mutates", t)
    return Outcome(True, case, _reduce_labels(case, "average"), evals=2)


def check_reduce_slice(case):
    spec = case["img"]
    dim = spec["dim"]
    m = _matrix_axis(dim, case["axis"])
    img = gens.build_image(spec)
    before = img.img.copy()
    snap = gens.snapshot(img)
    idx = case["slice"] % spec["shape"][m]
    t = _tags(spec, axis=str(case["axis"]), mode="slice", matrix_axis=m)
    try:
        out = _reduce(case, img, "slice", slice_idx=idx)
    except IndexError as e:
        raise Violation(f"reduce-slice:matrix-axis-{m}", f"slice {idx} along axis {case['axis']} "
                        f"(matrix axis {m}) of shape {list(before.shape)}: IndexError({e})", t)
    _reduce_values(out, before, m, "slice", spec["dtype"], case["axis"], t, idx=idx)
    _reduce_frame(out, img, spec, m, t)
    _assert_unchanged(img, snap, "reduce:mutates", t)
    return Outcome(True, case, _reduce_labels(case, "slice") + (f"matrix-axis-{m}",))


def gen_reduce_reuse(tier):
    @st.composite
    def strat(draw):
        dim = draw(st.sampled_from([2, 3]))
        if draw(st.booleans()):
            axis = draw(st.integers(0, dim - 1))
        else:
            axis = draw(st.sampled_from(list("xyz"[:dim])))
        n = draw(st.integers(2, 4))
        imgs = [draw(_img_specs(dims=(dim,), max_extent={2: 7, 3: 4})) for _ in range(n)]
        return {"dim": dim, "axis": axis, "imgs": imgs, "mode": draw(st.sampled_from(["sum", "average", "slice"])),
                "via": draw(st.sampled_from(["object", "object-defaults"])), "slice": draw(st.integers(0, 10**6))}

    return strat()


def check_reduce_reuse(case):
    """One AxisReduction object applied to several images of different shapes, voxel sizes, origins
    and payload kinds: every result obeys the laws of a single call (sum == array sum, average ==
    sum / number of voxels *of that image*, slice == np.take; retained dimensions / extent of that
    image), and the object keeps its configuration."""
    dim, mode = case["dim"], case["mode"]
    m = _matrix_axis(dim, case["axis"])
    kw = {}
    if mode == "slice":
        kw["slice_idx"] = case["slice"] % min(s["shape"][m] for s in case["imgs"])
    shared = _make_reduction(case["via"], case["axis"], dim, mode, **kw)
    config = (shared.index, shared.axis, shared.mode, dict(shared.kwargs))
    for k, spec in enumerate(case["imgs"]):
        img = gens.build_image(spec)
        before = img.img.copy()
        snap = gens.snapshot(img)
        t = _tags(spec, axis=str(case["axis"]), mode=mode, via=case["via"], call=k)
        out = shared(img)
        _reduce_frame(out, img, spec, m, t)
        _reduce_values(out, before, m, mode, spec["dtype"], case["axis"], t, idx=kw.get("slice_idx"))
        _assert_unchanged(img, snap, "reduce:mutates", t)
        if (shared.index, shared.axis, shared.mode, dict(shared.kwargs)) != config:
            raise Violation("reduce-reuse:config", f"call {k} changed the reduction object: "
                            f"{config} -> {(shared.index, shared.axis, shared.mode, shared.kwargs)}", t)
    ext = {s["shape"][m] for s in case["imgs"]}
    a = case["axis"]
    return Outcome(len(ext) >= 2, case,
                   (f"dim{dim}", f"mode-{mode}", f"axis-{a}" if isinstance(a, str) else f"index-{a}",
                    case["via"], f"n{len(case['imgs'])}",
                    "extents-differ" if len(ext) >= 2 else "extents-equal"), evals=len(case["imgs"]))


# ---------------------------------------------------------------------------------------
# 7. extrusion
# ---------------------------------------------------------------------------------------


def gen_extrude(tier):
    return st.fixed_dictionaries({
        "img": _img_specs(dims=(2,), max_extent={2: 9}),
        "num": st.integers(1, 6),
        "height": st.sampled_from([1.0, 0.5, 4.0, 0.3, 2.75, 1e-3, 123.0]),
    })


def check_extrude(case):
    spec = case["img"]
    img = gens.build_image(spec)
    before = img.img.copy()
    snap = gens.snapshot(img)
    num, height = case["num"], case["height"]
    t = _tags(spec, num=num)
    out = darsia.extrude_along_axis(img, height, num)
    if out.space_dim != 3:
        raise Violation("extrude:space-dim", f"{out.space_dim}", t)
    if out.img.shape != (num, *before.shape):
        raise Violation("extrude:shape", f"{out.img.shape} vs {(num, *before.shape)}", t)
    if [float(d) for d in out.dimensions] != [float(height)] + [float(d) for d in spec["dimensions"]]:
        raise Violation("extrude:dimensions", f"{list(out.dimensions)}", t)
    if out.img.dtype != before.dtype or out.series != img.series or out.scalar != img.scalar:
        raise Violation("extrude:kind", "dtype / series / scalar flag changed", t)
    want, mag = _ref_integral(before, 2, spec["dimensions"])
    tol = TOL_CV if spec["dtype"] == "float32" else TOL64
    ok, msg = _close(_geom_integral(out), want * height, mag * height, tol)
    if not ok:
        raise Violation("extrude:integral", f"height {height}, num {num}: {msg}", t)
    _assert_unchanged(img, snap, "extrude:mutates", t)
    return Outcome(True, case, _labels(spec, f"num{min(num, 3)}"))


# ---------------------------------------------------------------------------------------
# 8 + 9. superposition
# ---------------------------------------------------------------------------------------


def gen_superpose(shared):
    def gen(tier):
        @st.composite
        def strat(draw):
            k = draw(st.sampled_from([1, 2, 2, 3, 3, 4, 4]))
            vox = [float(2.0 ** draw(st.integers(-6, 6))) for _ in range(2)]  # rows, cols
            series = draw(st.sampled_from([False, False, True]))
            nt = draw(st.integers(1, 3)) if series else 0
            anchor = [draw(st.integers(-40, 40)), draw(st.integers(-40, 40))]  # in voxels
            imgs = []
            shape0 = [draw(st.integers(1, 8)), draw(st.integers(1, 8))]
            for n in range(k):
                if shared:
                    shape, off = list(shape0), [0, 0]
                else:
                    shape = [draw(st.integers(1, 8)), draw(st.integers(1, 8))]
                    off = [draw(st.integers(-6, 6)), draw(st.integers(-6, 6))]
                imgs.append({"shape": shape, "off": off, "pseed": draw(st.integers(0, 2**16))})
            return {"vox": vox, "series": series, "nt": nt, "anchor": anchor, "imgs": imgs,
                    "dtype": draw(st.sampled_from(["float64", "float32"])),
                    "cls": draw(st.sampled_from(["Image", "ScalarImage"])),
                    "time": draw(st.sampled_from(["none", "time"]))}

        return strat()

    return gen


def _sup_build(case):
    """Images on one global lattice: image n covers lattice rows off[0]..off[0]+H (downwards
    from the anchor) and columns off[1]..off[1]+W; origin = Cartesian top-left corner."""
    hr, hc = case["vox"]
    ar, ac = case["anchor"]
    cls = getattr(darsia, case["cls"])
    out = []
    for spec in case["imgs"]:
        shape = list(spec["shape"]) + ([case["nt"]] if case["series"] else [])
        arr = gens.payload_array(shape, case["dtype"], spec["pseed"])
        i0, j0 = spec["off"]
        origin = [(ac + j0) * hc, -(ar + i0) * hr]
        kw = {"space_dim": 2, "dimensions": [spec["shape"][0] * hr, spec["shape"][1] * hc],
              "origin": origin, "series": case["series"]}
        if cls is darsia.Image:
            kw["scalar"] = True
        if case["time"] == "time":
            kw["time"] = [10.0 * i for i in range(case["nt"])] if case["series"] else 10.0
        out.append(cls(arr, **kw))
    return out


def _sup_tags(case):
    return {"k": len(case["imgs"]), "dtype": case["dtype"], "series": case["series"]}


def _sup_labels(case):
    offs = {tuple(s["off"]) for s in case["imgs"]}
    return (f"k{len(case['imgs'])}", case["dtype"], "series" if case["series"] else "single",
            case["cls"], "offsets-differ" if len(offs) > 1 else "offsets-equal")


def check_superpose_shared(case):
    imgs = _sup_build(case)
    befores = [im.img.copy() for im in imgs]
    snaps = [gens.snapshot(im) for im in imgs]
    t = _sup_tags(case)
    out = darsia.superpose(imgs)
    want = np.zeros_like(befores[0])
    for b in befores:
        want = want + b
    if out.img.shape != want.shape:
        raise Violation("superpose-shared:shape", f"{out.img.shape} vs {want.shape}", t)
    if not np.array_equal(out.img, want):
        i = tuple(np.argwhere(out.img != want)[0])
        raise Violation("superpose-shared:values", f"{len(imgs)} images of shape "
                        f"{list(want.shape)}: voxel {list(i)} {out.img[i]!r} vs sum {want[i]!r}", t)
    if [float(d) for d in out.dimensions] != [float(d) for d in imgs[0].dimensions]:
        raise Violation("superpose-shared:dimensions", f"{list(out.dimensions)}", t)
    if not np.array_equal(np.asarray(out.origin, float), np.asarray(imgs[0].origin, float)):
        raise Violation("superpose-shared:origin", f"{np.asarray(out.origin).tolist()}", t)
    for im, sn in zip(imgs, snaps):
        _assert_unchanged(im, sn, "superpose:mutates", t)
    return Outcome(len(imgs) >= 2, case, _sup_labels(case))


def check_superpose_integral(case):
    imgs = _sup_build(case)
    befores = [im.img.copy() for im in imgs]
    snaps = [gens.snapshot(im) for im in imgs]
    t = _sup_tags(case)
    hr, hc = case["vox"]
    ar, ac = case["anchor"]
    out = darsia.superpose(imgs)
    r0 = min(s["off"][0] for s in case["imgs"])
    r1 = max(s["off"][0] + s["shape"][0] for s in case["imgs"])
    c0 = min(s["off"][1] for s in case["imgs"])
    c1 = max(s["off"][1] + s["shape"][1] for s in case["imgs"])
    want_dims = [(r1 - r0) * hr, (c1 - c0) * hc]
    want_origin = [(ac + c0) * hc, -(ar + r0) * hr]
    if [float(d) for d in out.dimensions] != want_dims:
        raise Violation("superpose:canvas-dimensions", f"{list(out.dimensions)} vs extremal "
                        f"corners {want_dims}", t)
    if np.asarray(out.origin, float).tolist() != want_origin:
        raise Violation("superpose:canvas-origin", f"{np.asarray(out.origin).tolist()} vs "
                        f"{want_origin}", t)
    if list(out.img.shape[:2]) != [r1 - r0, c1 - c0] or out.img.shape[2:] != befores[0].shape[2:]:
        raise Violation("superpose:canvas-shape", f"{out.img.shape} vs {[r1 - r0, c1 - c0]}", t)
    vol = hr * hc
    want = sum(b.astype(float).sum(axis=(0, 1)) for b in befores) * vol
    mag = sum(np.abs(b.astype(float)).sum(axis=(0, 1)) for b in befores) * vol
    ok, msg = _close(_geom_integral(out), want, mag, 0.0)
    if not ok:
        raise Violation("superpose:integral", f"{len(imgs)} images, offsets "
                        f"{[s['off'] for s in case['imgs']]}, shapes "
                        f"{[s['shape'] for s in case['imgs']]}: {msg}", t)
    # every image keeps its place: on the common lattice the canvas is the sum of the arrays, each
    # added at its own voxel offset (all images share one voxel lattice, so the transfer is a pure
    # translation by whole voxels; dyadic payloads add exactly)
    placed = np.zeros((r1 - r0, c1 - c0) + befores[0].shape[2:], dtype=float)
    cover = np.zeros((r1 - r0, c1 - c0), dtype=int)
    for sp, b in zip(case["imgs"], befores):
        i, j = sp["off"][0] - r0, sp["off"][1] - c0
        placed[i:i + sp["shape"][0], j:j + sp["shape"][1]] += b.astype(float)
        cover[i:i + sp["shape"][0], j:j + sp["shape"][1]] += 1
    if not np.array_equal(out.img.astype(float), placed):
        i = tuple(np.argwhere(out.img.astype(float) != placed)[0])
        raise Violation("superpose:placement", f"{len(imgs)} images, offsets "
                        f"{[sp['off'] for sp in case['imgs']]}, shapes "
                        f"{[sp['shape'] for sp in case['imgs']]}: canvas voxel {list(i)} holds "
                        f"{out.img[i]!r}, the images covering it add up to {placed[i]!r}", t)
    for im, sn in zip(imgs, snaps):
        _assert_unchanged(im, sn, "superpose:mutates", t)
    offs = {tuple(s["off"]) for s in case["imgs"]}
    return Outcome(len(offs) >= 2, case, _sup_labels(case) + (
        "overlapping" if cover.max() > 1 else "disjoint", "gaps" if cover.min() == 0 else "canvas-covered"))


# ---------------------------------------------------------------------------------------
# 10. conservative resizing as the preprocessing step of the earth mover's distance
# ---------------------------------------------------------------------------------------

TOL_EMD = 2e-5  # cv2.EMD works in float32; relative to mass x diameter (probe: 1.0e-7)


def gen_emd(tier):
    @st.composite
    def strat(draw):
        base = [draw(st.integers(1, 5)), draw(st.integers(1, 5))]  # coarse lattice (rows, cols)
        blk = [draw(st.integers(1, max(1, base[0] - 1))), draw(st.integers(1, max(1, base[1] - 1)))]
        pos = [[draw(st.integers(0, base[0] - blk[0])), draw(st.integers(0, base[1] - blk[1]))]
               for _ in range(2)]
        mode = draw(st.sampled_from(["up", "down", "down"]))
        fac = [draw(st.integers(1, 3)), draw(st.integers(1, 3))]
        return {"base": base, "blk": blk, "pos": pos, "mode": mode, "fac": fac,
                "vox": [draw(st.sampled_from([1.0, 0.5, 0.25, 2.0, 0.3, 7.3])) for _ in range(2)],
                "nt": draw(st.sampled_from([0, 0, 2])), "dtype": draw(st.sampled_from(["float64", "float32"])),
                "api": draw(st.sampled_from(["shape", "key", "factor"])), "pseed": draw(st.integers(0, 2**16))}

    return strat()


def check_emd_conservative(case):
    """EMD(preprocess=conservative Resize): two distributions that are translates of each other
    (same positive block of data at two places of an otherwise empty image) keep equal sums under
    conservative resizing (the compatibility check of EMD accepts them) and are still translates of
    each other after integer up-sampling / down-sampling by whole coarse voxels, so the distance
    is  conserved sum x physical shift x cell volume of the resized image  (the generalisation of
    tests/unit/test_emd.py::test_emd_2d_resize)."""
    (hb, wb), (bh, bw), fac = case["base"], case["blk"], case["fac"]
    q = fac if case["mode"] == "down" else [1, 1]  # image voxels per coarse voxel
    k = fac if case["mode"] == "up" else [1, 1]  # resized voxels per coarse voxel
    shape = [hb * q[0], wb * q[1]]
    target = [hb * k[0], wb * k[1]]
    nt = case["nt"]
    tr = [nt] if nt else []
    data = (np.abs(gens.payload_array([bh * q[0], bw * q[1]] + tr, "float64", case["pseed"])) + 0.125)
    dims = [shape[0] * case["vox"][0], shape[1] * case["vox"][1]]
    t = {"mode": case["mode"], "dtype": case["dtype"], "series": bool(nt), "api": case["api"]}

    def make(p):
        arr = np.zeros(shape + tr, dtype=case["dtype"])
        arr[p[0] * q[0]:(p[0] + bh) * q[0], p[1] * q[1]:(p[1] + bw) * q[1]] = data
        kw = {"time": [0.0, 10.0]} if nt else {}
        return darsia.Image(arr, space_dim=2, dimensions=list(dims), series=bool(nt), scalar=True, **kw)

    if case["api"] == "shape":
        pre = darsia.Resize(shape=tuple(target), interpolation="inter_area", **{"resize conservative": True})
    elif case["api"] == "key":
        pre = darsia.Resize(key="emd ", **{"emd resize shape": tuple(target), "emd resize interpolation": "inter_area",
                                           "emd resize conservative": True})
    else:
        pre = darsia.Resize(fx=target[1] / shape[1], fy=target[0] / shape[0], interpolation="inter_area",
                            **{"resize conservative": True})
    a, b = make(case["pos"][0]), make(case["pos"][1])
    snaps = [gens.snapshot(a), gens.snapshot(b)]
    try:
        d = darsia.EMD(pre)(a, b)
    except AssertionError as e:
        # the only assertions on this path are the compatibility checks of EMD (equal grids, equal sums)
        raise Violation("emd-conservative:rejected", f"{shape} -> {target}: two translates with equal sums are "
                        f"rejected after conservative resizing: AssertionError({e})", t)
    mass = data.sum(axis=(0, 1))
    shift = float(np.hypot((case["pos"][1][0] - case["pos"][0][0]) * q[0] * case["vox"][0],
                           (case["pos"][1][1] - case["pos"][0][1]) * q[1] * case["vox"][1]))
    cell = (dims[0] / target[0]) * (dims[1] / target[1])
    diam = float(np.hypot(dims[0], dims[1]))
    got = np.asarray(d, dtype=float)
    want = np.asarray(mass * shift * cell, dtype=float)
    if got.shape != want.shape:
        raise Violation("emd-conservative:shape", f"result shape {got.shape} for {max(nt, 1)} time steps", t)
    ok, msg = _close(got, want, mass * diam * cell, TOL_EMD)
    if not ok:
        raise Violation("emd-conservative:distance", f"{shape} -> {target} ({case['mode']}), shift {shift!r}, sum "
                        f"{np.asarray(mass).tolist()}, resized cell volume {cell!r}: EMD {msg}", t)
    for im, sn in zip((a, b), snaps):
        _assert_unchanged(im, sn, "emd-conservative:mutates", t)
    cls = "identity" if fac == [1, 1] else case["mode"]
    return Outcome(cls != "identity" and shift > 0, case,
                   (cls, case["dtype"], "series" if nt else "single", f"api-{case['api']}",
                    "shifted" if shift > 0 else "coincident"))


# ---------------------------------------------------------------------------------------

_RULE = ("Hypothesis draws 2-D images (extents 1..12 incl. odd and single-voxel axes, float32 / "
         "float64, scalar / vector / series, unit / power-of-two / generic voxel sizes, default "
         "or user origin) and a configuration: resize target (both extents not larger, or "
         "integer multiples) x API form (shape / reference image / factors, positional or through "
         "the keyed option dictionary incl. the single general factor, one-sided factors, the "
         "functional wrapper) x optional conversion dtype; refinement level (1-3-D images); "
         "reduction axis by index or Cartesian name (2-D and 3-D images) x object/function x "
         "spelled-out or default arguments, one reduction object re-used on 2..4 images; extrusion "
         "height and layer count; 1..4 images on one voxel lattice at integer voxel offsets; two "
         "translates of one positive block as input of EMD with a conservative Resize as "
         "preprocessing (integer up-/down-sampling); non-trivial = "
         "odd extent or non-integer down-sampling ratio or vector/series payload (resize), "
         "non-divisible extent or dim >= 2 (coarsening), >= 2 different offsets (superpose); "
         "distinct = the whole case")

_SH = {"quick": 1, "thorough": 8}
_N = {"quick": 1200, "thorough": 10000}

PROP = Prop(
    pid="C11",
    rule=_RULE,
    assumptions=[
        "integral of the input from a plain numpy sum x prod(dimensions)/prod(shape); integral "
        "of the result through Geometry(**shape_metadata()).integrate",
        "cv2 / float32 tolerance 1e-5 x sum of magnitudes (design-time probe: 9.1e-7), plain "
        "float64 sums 1e-13, dyadic payloads exact",
        "coarsening of general data asserted only for extents divisible by 2^|levels|; constant "
        "data on every shape; no mixed up/down resizing, no non-integer up-sampling, superpose "
        "only for equal power-of-two voxel sizes at integer voxel offsets (there the canvas equals "
        "the arrays added at their voxel offsets, exactly)",
        "resize factors are always the exact ratio target/extent (cv2 takes the scale from the factor "
        "itself, a rounded extent would not be covered exactly); a requested conversion dtype is the "
        "dtype of the result; un-prefixed options never override the ones carrying the object's key",
        "EMD of two translates = conserved sum x physical shift x cell volume of the resized image "
        "(Kantorovich duality: the translation plan is optimal); cv2.EMD is float32: 2e-5 x sum x "
        "diameter x cell volume (probe: 1.0e-7)",
        "arguments are compared before / after through a deep snapshot of array and metadata()",
    ],
    subs=[
        Sub("resize_conservative_sum", check_resize_conservative,
            gen=gen_resize(OBJ_APIS, ["image", "image", "array"]),
            n={"quick": 2400, "thorough": 24000}, shards={"quick": 2, "thorough": 16}),
        Sub("resize_area_integral", check_resize_area,
            gen=gen_resize(OBJ_APIS + FUN_APIS, ["image"]),
            n={"quick": 2400, "thorough": 24000}, shards={"quick": 2, "thorough": 16}),
        Sub("resize_object_reuse", check_resize_reuse, gen=gen_resize_reuse, n=_N, shards=_SH),
        Sub("refine_integral", check_refine, gen=gen_refine, n=_N, shards=_SH),
        Sub("coarsen_integral", check_coarsen, gen=gen_coarsen,
            n={"quick": 2400, "thorough": 16000}, shards={"quick": 2, "thorough": 8}),
        Sub("refine_then_coarsen_identity", check_roundtrip, gen=gen_roundtrip, n=_N, shards=_SH),
        Sub("reduce_sum_is_array_sum", check_reduce_sum, gen=gen_reduce, n=_N, shards=_SH),
        Sub("reduce_average_is_sum_over_n", check_reduce_average, gen=gen_reduce, n=_N, shards=_SH),
        Sub("reduce_integral", check_reduce_integral, gen=gen_reduce, n=_N, shards=_SH),
        Sub("reduce_slice_is_take", check_reduce_slice, gen=gen_reduce, n=_N, shards=_SH),
        Sub("reduce_object_reuse", check_reduce_reuse, gen=gen_reduce_reuse,
            n={"quick": 600, "thorough": 6000}, shards=_SH),
        Sub("extrude_integral", check_extrude, gen=gen_extrude, n=_N, shards=_SH),
        Sub("superpose_shared_grid", check_superpose_shared, gen=gen_superpose(True),
            n=_N, shards=_SH),
        Sub("superpose_integral", check_superpose_integral, gen=gen_superpose(False),
            n={"quick": 2400, "thorough": 16000}, shards={"quick": 2, "thorough": 16}),
        Sub("emd_conservative_preprocess", check_emd_conservative, gen=gen_emd,
            n={"quick": 600, "thorough": 6000}, shards=_SH),
    ],
)
