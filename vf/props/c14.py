"""C14 - signal-to-data models obey their defining algebra."""
import itertools
import os
import warnings

import numpy as np
from hypothesis import strategies as st

import darsia
from darsia.utils.kernels import BaseKernel
from vf import gens
from vf.runner import Outcome, Prop, Sub, Violation

EPS32 = float(np.finfo(np.float32).eps)


_NUMBA_PID = None


def _numba_ready():
    """The runner forks its workers from a parent in which `import darsia` has already started
    numba's OpenMP pool; GNU OpenMP terminates a forked child on its first parallel region.  The
    kernels' numba functions are created at call time, so it suffices to re-initialise numba's
    threading layer as the fork-safe 'workqueue' once per worker (NUMBA_NUM_THREADS=1: results do
    not depend on the layer)."""
    global _NUMBA_PID
    if _NUMBA_PID == os.getpid():
        return
    import numba
    from numba.np.ufunc import parallel

    if not parallel._is_initialized or numba.threading_layer() != "workqueue":
        numba.config.THREADING_LAYER = "workqueue"
        parallel._is_initialized = False
        parallel._launch_threads()
    _NUMBA_PID = os.getpid()


def dy(lo, hi, den=8):
    """dyadic numbers k/den in [lo, hi]"""
    return st.integers(int(lo * den), int(hi * den)).map(lambda k: k / den)


# ---------------------------------------------------------------------------------------
# signals and label maps
# ---------------------------------------------------------------------------------------


@st.composite
def signal_specs(draw, kinds=("1d", "pixels3", "2d", "3d", "rgb")):
    kind = draw(st.sampled_from(list(kinds)))
    if kind == "1d":
        shape = [draw(st.integers(1, 40))]
    elif kind == "pixels3":
        shape = [draw(st.integers(1, 30)), 3]
    elif kind == "2d":
        shape = [draw(st.integers(1, 9)), draw(st.integers(1, 9))]
    elif kind == "3d":
        shape = [draw(st.integers(1, 5)) for _ in range(3)]
    else:
        shape = [draw(st.integers(1, 7)), draw(st.integers(1, 7)), 3]
    return {"kind": kind, "shape": shape, "pseed": draw(st.integers(0, 2**20)),
            "dtype": draw(st.sampled_from(["float64", "float64", "float32"]))}


INT_DTYPES = ("uint8", "uint16", "int16", "int32", "int64")


def make_signal(spec, salt=0):
    if spec["dtype"] in INT_DTYPES:
        # integer-typed signals (raw photographs, label-like data): small values around the range of
        # the model parameters so that bounds fall between, on and outside the signal values
        lo = 0 if spec["dtype"].startswith("u") else -6
        rng = np.random.default_rng(spec["pseed"] + salt)
        return rng.integers(lo, 9, size=spec["shape"]).astype(spec["dtype"])
    return gens.payload_array(spec["shape"], spec["dtype"], spec["pseed"] + salt, dyadic=True)


LABEL_IDS = [0, 1, 2, 3, 5, 7, 11, 200]


@st.composite
def label_specs(draw, max_extent=8):
    h, w = draw(st.integers(1, max_extent)), draw(st.integers(1, max_extent))
    nlab = draw(st.integers(1, min(5, h * w)))
    ids = sorted(draw(st.permutations(LABEL_IDS))[:nlab])
    return {"shape": [h, w], "ids": ids, "lseed": draw(st.integers(0, 2**20))}


def make_labels(spec):
    rng = np.random.default_rng(spec["lseed"])
    h, w = spec["shape"]
    ids = np.array(spec["ids"], dtype=np.uint8)
    flat = ids[rng.integers(0, len(ids), size=h * w)]
    pos = rng.permutation(h * w)[: len(ids)]
    flat[pos] = ids  # every label occurs
    return flat.reshape(h, w).astype(np.uint8)


def upsample2(labels):
    return np.repeat(np.repeat(labels, 2, axis=0), 2, axis=1)


# ---------------------------------------------------------------------------------------
# 1. clip_bounds_idempotent
# ---------------------------------------------------------------------------------------


@st.composite
def gen_clip_cases(draw):
    lo = draw(st.one_of(st.none(), dy(-3, 3)))
    lo_eff = 0.0 if lo is None else lo
    hi = draw(st.one_of(st.none(), dy(lo_eff, 4)))
    sig = draw(signal_specs())
    # the signal is a float array or an integer-typed one (images as read from file are uint8 / uint16,
    # differences of them signed); the bounds are real numbers in either case
    idt = draw(st.sampled_from([None] * 6 + ["uint8", "uint8", "uint16", "int16", "int32", "int64"]))
    image = draw(st.booleans())
    if idt is not None:
        sig["dtype"] = idt
        image = image or draw(st.booleans())
    return {
        "sig": sig, "lo": lo, "hi": hi,
        "key": draw(st.sampled_from(["", "model "])),
        "via": draw(st.sampled_from(["ctor", "ctor", "update", "dofs-none", "dofs-all", "dofs-both",
                                     "dofs-min", "dofs-max"])),
        "image": image,
    }


def _build_clip(case):
    lo, hi, key, via = case["lo"], case["hi"], case["key"], case["via"]
    lo_eff = 0.0 if lo is None else lo
    if via == "ctor" or (hi is None and via in ("dofs-none", "dofs-all", "dofs-both", "dofs-max")):
        kw = {}
        if lo is not None:
            kw[key + "min value"] = lo
        if hi is not None:
            kw[key + "max value"] = hi
        return darsia.ClipModel(key=key, **kw), lo_eff, hi
    # start from other bounds, then move to the target ones
    m = darsia.ClipModel(**{"min value": -100.0, "max value": 100.0 if hi is not None else None})
    if via == "update":
        m.update(min_value=lo_eff, max_value=hi)
    elif via in ("dofs-none", "dofs-all", "dofs-both"):
        dofs = {"dofs-none": None, "dofs-all": "all", "dofs-both": ["max_value", "min_value"]}[via]
        m.update_model_parameters(np.array([lo_eff, hi]), dofs)
    elif via == "dofs-min":
        m.update_model_parameters(np.array([lo_eff]), ["min_value"])
        if hi is not None:
            m.update(max_value=hi)
    elif via == "dofs-max":
        m.update_model_parameters(np.array([hi]), ["max_value"])
        m.update(min_value=lo_eff)
    return m, lo_eff, hi


def check_clip(case):
    x = make_signal(case["sig"])
    m, lo, hi = _build_clip(case)
    integer = case["sig"]["dtype"] in INT_DTYPES
    t = {"via": case["via"], "hi": "none" if hi is None else "set", "image": case["image"],
         "signal": case["sig"]["dtype"]}
    x0 = x.copy()
    if case["image"] and x.ndim >= 2 and case["sig"]["kind"] in ("2d", "rgb", "3d"):
        scalar = case["sig"]["kind"] != "rgb"
        if case["sig"]["kind"] == "3d":
            img = darsia.Image(x.copy(), dimensions=[1.0, 2.0, 3.0], space_dim=3, scalar=True, name="sig")
        else:
            img = darsia.Image(x.copy(), dimensions=[1.0, 2.0], scalar=scalar, name="sig")
        before = gens.snapshot(img)
        out_img = m(img)
        if not isinstance(out_img, darsia.Image) or out_img is img:
            raise Violation("clip-image-type", f"ClipModel(Image) returned {type(out_img).__name__}", t)
        ok, why = gens.snapshot_equal(before, gens.snapshot(img))
        if not ok:
            raise Violation("clip-input-modified", f"input image changed: {why}", t)
        # "output type is the same as input type": the same image (metadata) with clipped values
        after = gens.snapshot(out_img)
        if after["meta"].keys() != before["meta"].keys() or \
                any(after["meta"][k] != before["meta"][k] for k in before["meta"]):
            raise Violation("clip-image-metadata", "ClipModel(Image): the metadata of the result differ from "
                            "those of the input image", t)
        got = np.asarray(out_img.img)
        again = np.asarray(m(out_img).img)
        form = "image3d" if case["sig"]["kind"] == "3d" else "image"
    else:
        got = np.asarray(m(x))
        again = np.asarray(m(got))
        form = "array"
        if not np.array_equal(x, x0):
            raise Violation("clip-input-modified", "input array changed", t)
    want = np.where(x0 < lo, lo, x0)
    if hi is not None:
        want = np.where(x0 > hi, hi, want)
    if got.shape != x0.shape:
        raise Violation("clip-shape", f"{x0.shape} -> {got.shape}", t)
    if np.any(got < lo) or (hi is not None and np.any(got > hi)):
        raise Violation("clip-bounds", f"values outside [{lo}, {hi}]: min {got.min()!r} max {got.max()!r}", t)
    if not np.array_equal(got, want):
        raise Violation("clip-values", f"clip to [{lo}, {hi}] changed values inside the bounds or "
                        f"mapped outside values to something other than the bound", t)
    if not np.array_equal(again, got):
        raise Violation("clip-idempotent", "clip(clip(x)) != clip(x)", t)
    active = bool(np.any(x0 < lo) or (hi is not None and np.any(x0 > hi)))
    labels = (case["sig"]["kind"], form, f"via-{case['via']}", "max-none" if hi is None else "max-set",
              "signal-" + case["sig"]["dtype"])
    if integer:
        # the class in which the bound itself is not representable in the signal's type
        lo_frac = bool(lo != np.floor(lo) and np.any(x0 < lo))
        hi_frac = bool(hi is not None and hi != np.floor(hi) and np.any(x0 > hi))
        labels += (("integer-" + form + "-fractional-bound-active") if lo_frac or hi_frac
                   else ("integer-" + form + "-bound-integral-or-inactive"),)
        if lo_frac:
            labels += ("integer-" + form + "-fractional-lower-bound-active",)
    return Outcome(active, [case["sig"], lo, hi, case["via"], form], labels)


# ---------------------------------------------------------------------------------------
# 2. affine_in_signal
# ---------------------------------------------------------------------------------------


@st.composite
def gen_affine_cases(draw):
    return {
        "sig": draw(signal_specs()),
        "model": draw(st.sampled_from(["scaling", "linear", "linear"])),
        "s": draw(st.one_of(st.just(1.0), dy(-4, 4, 4), dy(-4, 4, 4), dy(-4, 4, 4))),
        "o": draw(dy(-4, 4, 4)),
        "key": draw(st.sampled_from(["", "balancing "])),
        "via": draw(st.sampled_from(["ctor", "ctor", "update", "dofs-none", "dofs-all", "dofs-both",
                                     "dofs-scaling", "dofs-offset"])),
    }


def _build_affine(case):
    s, o, key, via, kind = case["s"], case["o"], case["key"], case["via"], case["model"]
    if kind == "scaling":
        o = 0.0
        if via == "ctor":
            return darsia.ScalingModel(key=key, **{key + "scaling": s}), s, o
        m = darsia.ScalingModel(scaling=7.0)
        if via == "update":
            m.update(scaling=s)
        else:
            dofs = {"dofs-none": None, "dofs-all": "all"}.get(via, ["scaling"])
            m.update_model_parameters(np.array([s]), dofs)
        return m, s, o
    if via == "ctor":
        return darsia.LinearModel(key=key, **{key + "scaling": s, key + "offset": o}), s, o
    m = darsia.LinearModel(scaling=7.0, offset=-3.0)
    if via == "update":
        m.update(scaling=s, offset=o)
    elif via in ("dofs-none", "dofs-all", "dofs-both"):
        dofs = {"dofs-none": None, "dofs-all": "all", "dofs-both": ["offset", "scaling"]}[via]
        m.update_model_parameters(np.array([s, o]), dofs)
    elif via == "dofs-scaling":
        m.update_model_parameters(np.array([s]), ["scaling"])
        o = -3.0
    elif via == "dofs-offset":
        m.update_model_parameters(np.array([o]), ["offset"])
        s = 7.0
    return m, s, o


def check_affine(case):
    t = {"model": case["model"], "via": case["via"]}
    try:
        m, s, o = _build_affine(case)
    except Exception as e:  # re-raised with tags so that the crash can be matched
        e.vf_tags = t
        raise
    x = make_signal(case["sig"])
    y = make_signal(case["sig"], salt=1)
    x0 = x.copy()
    fx, fy = np.asarray(m(x)), np.asarray(m(y))
    fm = np.asarray(m(0.5 * x + 0.5 * y))
    if not np.array_equal(x, x0):
        raise Violation("affine-input-modified", "input array changed", t)
    want = s * x0 + o
    if fx.shape != x0.shape or not np.array_equal(fx, want):
        raise Violation(f"affine-value:{case['model']}", f"f(x) != {s}*x + {o} "
                        f"(max diff {float(np.abs(fx - want).max()) if fx.shape == x0.shape else 'shape'})", t)
    if not np.array_equal(fm, 0.5 * fx + 0.5 * fy):
        raise Violation(f"affine-midpoint:{case['model']}", "f(x/2 + y/2) != f(x)/2 + f(y)/2", t)
    return Outcome(s != 1.0 or o != 0.0, [case["sig"], case["model"], s, o, case["via"]],
                   (case["sig"]["kind"], case["model"], f"via-{case['via']}",
                    "scaling-one" if s == 1.0 else "scaling-general"))


# ---------------------------------------------------------------------------------------
# model parts for CombinedModel (3, 4)
# ---------------------------------------------------------------------------------------


@st.composite
def part_specs(draw, kinds):
    kind = draw(st.sampled_from(list(kinds)))
    if kind == "clip":
        lo = draw(dy(-3, 2))
        return {"kind": kind, "lo": lo, "hi": draw(st.one_of(st.none(), dy(lo, 4)))}
    if kind == "scaling":
        return {"kind": kind, "s": draw(st.one_of(st.just(1.0), dy(-3, 3, 4)))}
    if kind == "linear":
        return {"kind": kind, "s": draw(dy(-3, 3, 4)), "o": draw(dy(-3, 3, 4))}
    if kind == "threshold":
        lo = draw(dy(-3, 2))
        return {"kind": kind, "lo": lo, "hi": draw(st.one_of(st.none(), dy(lo, 4))),
                "return_float": draw(st.booleans())}
    if kind == "hetlinear":
        return {"kind": kind, "s": [draw(dy(-3, 3, 4)) for _ in range(5)],
                "o": [draw(dy(-3, 3, 4)) for _ in range(5)]}
    raise AssertionError(kind)


def build_part(p, labels=None):
    k = p["kind"]
    if k == "clip":
        return darsia.ClipModel(**{"min value": p["lo"], "max value": p["hi"]})
    if k == "scaling":
        return darsia.ScalingModel(scaling=p["s"])
    if k == "linear":
        return darsia.LinearModel(scaling=p["s"], offset=p["o"])
    if k == "threshold":
        return darsia.StaticThresholdModel(float(p["lo"]), None if p["hi"] is None else float(p["hi"]),
                                           return_float=p["return_float"])
    if k == "hetlinear":
        n = len(np.unique(labels))
        return darsia.HeterogeneousLinearModel(labels, scaling=np.array(p["s"][:n]),
                                               offset=np.array(p["o"][:n]))
    raise AssertionError(k)


def ref_part(p, x, mask=None, labels=None):
    """numpy semantics of one part (independent of the model classes)."""
    k = p["kind"]
    if k == "clip":
        out = np.where(x < p["lo"], p["lo"], x)
        return out if p["hi"] is None else np.where(x > p["hi"], p["hi"], out)
    if k == "scaling":
        return p["s"] * x
    if k == "linear":
        return p["s"] * x + p["o"]
    if k == "threshold":
        out = x > p["lo"]
        if p["hi"] is not None:
            out = out & (x < p["hi"])
        if mask is not None:
            return out & mask
        return out.astype(np.float32) if p["return_float"] else out
    if k == "hetlinear":
        ids = np.unique(labels)
        out = np.zeros_like(x)
        for i, lab in enumerate(ids):
            reg = labels == lab
            out[reg] = (p["s"][i] * x + p["o"][i])[reg]
        return out
    raise AssertionError(k)


# ---------------------------------------------------------------------------------------
# 3. combined_is_composition
# ---------------------------------------------------------------------------------------


@st.composite
def gen_combined_cases(draw):
    with_kernel = draw(st.integers(0, 7)) == 0
    parts = draw(st.lists(part_specs(("clip", "scaling", "linear", "linear", "threshold")),
                          min_size=0 if with_kernel else 1, max_size=3 if with_kernel else 4))
    if with_kernel:
        parts = [p for p in parts if p["kind"] != "threshold"]
        sig = draw(signal_specs(kinds=("pixels3", "rgb")))
        sig["dtype"] = "float32"
    else:
        sig = draw(signal_specs())
    return {"sig": sig, "parts": parts, "kernel": draw(kernel_specs(max_n=3, dims=(3,))) if with_kernel else None,
            "mask": draw(st.booleans()), "mseed": draw(st.integers(0, 2**16))}


def check_combined(case):
    _numba_ready()
    x = make_signal(case["sig"])
    x0 = x.copy()
    parts = case["parts"]
    t = {"parts": "-".join(p["kind"] for p in parts), "kernel": case["kernel"] is not None}
    models = [build_part(p) for p in parts]
    if case["kernel"] is not None:
        km, _, _ = build_kernel_model(case["kernel"])
        models = [km] + models
    cm = darsia.CombinedModel(models)
    has_thr = any(p["kind"] == "threshold" for p in parts)
    mask = None
    if case["mask"] and has_thr:
        mask = np.random.default_rng(case["mseed"]).integers(0, 2, size=x.shape).astype(bool)
    got = np.asarray(cm(x) if mask is None else cm(x, mask))
    if not np.array_equal(x, x0):
        raise Violation("combined-input-modified", "input array changed by the combined model", t)
    # (i) the same part objects applied one after the other
    seq = x0.copy()
    for mdl, p in zip(models, ([{"kind": "kernel"}] if case["kernel"] is not None else []) + parts):
        if p["kind"] == "threshold" and mask is not None:
            seq = mdl(seq, mask)
        else:
            seq = mdl(seq)
    seq = np.asarray(seq)
    if got.shape != seq.shape or not np.array_equal(got, seq):
        raise Violation("combined-vs-sequential", f"CombinedModel({t['parts']}) differs from applying its "
                        "parts one after the other", t)
    # (ii) independent numpy semantics (exact: dyadic payloads)
    if case["kernel"] is None:
        ref = x0.copy()
        for p in parts:
            ref = ref_part(p, ref, mask)
        if got.shape != ref.shape or not np.array_equal(got.astype(float), np.asarray(ref).astype(float)):
            raise Violation("combined-vs-reference", f"CombinedModel({t['parts']}) differs from the "
                            "composition of the parts' defining formulas", t)
    n = len(models)
    return Outcome(n >= 2, [case["sig"], parts, case["kernel"], mask is not None],
                   (f"parts{n}", "with-kernel" if case["kernel"] else "no-kernel",
                    "masked" if mask is not None else "unmasked") + tuple(sorted({p["kind"] for p in parts})))


# ---------------------------------------------------------------------------------------
# 4. flat_parameter_routing
# ---------------------------------------------------------------------------------------

NPAR = {"clip": 2, "scaling": 1, "linear": 2}
NAMES = {"clip": ["min_value", "max_value"], "scaling": ["scaling"], "linear": ["scaling", "offset"],
         "hetlinear": ["scaling", "offset"]}


@st.composite
def gen_routing_cases(draw):
    mode = draw(st.sampled_from(["none", "all", "single-entry", "single-entry", "model", "model"]))
    lab = draw(label_specs(max_extent=6))
    nparts = draw(st.sampled_from([1, 1, 2, 3])) if mode == "model" else draw(st.integers(1, 4))
    kinds = ("clip", "scaling", "linear", "linear", "hetlinear")
    parts = [draw(part_specs(kinds)) for _ in range(nparts)]
    for p in parts:
        if p["kind"] == "clip" and p["hi"] is None:
            p["hi"] = p["lo"] + 1.0
    case = {"mode": mode, "labels": lab, "parts": parts,
            "params": [draw(dy(-3, 3, 4)) for _ in range(4 * 10)], "pseed": draw(st.integers(0, 2**20))}
    if mode in ("single-entry", "model"):
        k = draw(st.integers(0, nparts - 1))
        names = NAMES[parts[k]["kind"]]
        sub = draw(st.sampled_from([names, names[:1], names[-1:], list(reversed(names))]))
        case["target"] = k
        if mode == "model":
            case["dofs"] = draw(st.sampled_from([None, "all", sub, sub]))
            # the part is addressed directly or through CombinedModel.__getitem__
            case["access"] = draw(st.sampled_from(["direct", "item"]))
        else:
            case["dofs"] = sub
    return case


def _npar(p, nlab):
    return 2 * nlab if p["kind"] == "hetlinear" else NPAR[p["kind"]]


def _assign(p, names, vals, nlab):
    """expected part spec after setting the named parameters from the flat values `vals`."""
    q = dict(p)
    k = p["kind"]
    canon = [n for n in NAMES[k] if n in names]  # the models consume the values in their own order
    pos = 0
    for n in canon:
        if k == "hetlinear":
            v = list(vals[pos: pos + nlab])
            pos += nlab
            if len(canon) == 1:
                pos = 0
            key = "s" if n == "scaling" else "o"
            q[key] = v + list(p[key][nlab:])
        else:
            v = vals[pos]
            pos += 1
            key = {"min_value": "lo", "max_value": "hi", "scaling": "s", "offset": "o"}[n]
            q[key] = v
    return q


def check_routing(case):
    labels = make_labels(case["labels"])
    nlab = len(case["labels"]["ids"])
    parts = case["parts"]
    mode = case["mode"]
    t = {"mode": mode, "parts": "-".join(p["kind"] for p in parts),
         "dofs": str(case.get("dofs")), "target": parts[case["target"]]["kind"] if "target" in case else None}
    models = [build_part(p, labels) for p in parts]
    npar = [_npar(p, nlab) for p in parts]
    params = list(case["params"])
    expected = [dict(p) for p in parts]
    cm = darsia.CombinedModel(models)
    arr = None
    try:
        if mode in ("none", "all"):
            total = sum(npar)
            vec = params[:total]
            # keep clip bounds ordered
            off = 0
            for p, n in zip(parts, npar):
                if p["kind"] == "clip":
                    vec[off: off + 2] = sorted(vec[off: off + 2])
                off += n
            if cm.num_parameters != total:
                raise Violation("num-parameters", f"CombinedModel.num_parameters = {cm.num_parameters}, "
                                f"parts need {npar}", t)
            arr = np.array(vec)
            cm.update_model_parameters(arr, None if mode == "none" else "all")
            off = 0
            for i, (p, n) in enumerate(zip(parts, npar)):
                expected[i] = _assign(p, NAMES[p["kind"]], vec[off: off + n], nlab)
                off += n
        else:
            k = case["target"]
            p = parts[k]
            dofs = case["dofs"]
            names = NAMES[p["kind"]] if dofs in (None, "all") else dofs
            nvals = sum((nlab if p["kind"] == "hetlinear" else 1) for _ in set(names))
            vec = params[:nvals]
            if p["kind"] == "clip":
                if set(names) == {"min_value", "max_value"}:
                    vec = sorted(vec)
                elif set(names) == {"min_value"}:
                    vec = [min(vec[0], p["hi"])]
                else:
                    vec = [max(vec[0], p["lo"])]
            arr = np.array(vec)
            if mode == "model":
                if case.get("access") == "item":
                    cm[k].update_model_parameters(arr, dofs)
                else:
                    # the caller's own reference; the combined model is assembled afterwards
                    models[k].update_model_parameters(arr, dofs)
                    cm = darsia.CombinedModel(models)
            else:
                cm.update_model_parameters(arr, [(k, list(dofs))])
            expected[k] = _assign(p, names, vec, nlab)
    except Violation:
        raise
    except Exception as e:
        e.vf_tags = t
        raise
    if not np.array_equal(arr, np.array(vec)):
        raise Violation("routing:parameters-modified", f"mode={mode}: update_model_parameters changed the "
                        "caller's parameter vector", t)
    # behavioural read-back: every part against the defining formula with the expected parameters
    x = gens.payload_array(list(labels.shape), "float64", case["pseed"], dyadic=True)
    for i, (mdl, q) in enumerate(zip(models, expected)):
        try:
            got = np.asarray(mdl(x.copy()))
        except Exception as e:
            e.vf_tags = t
            raise
        want = ref_part(q, x, labels=labels)
        if got.shape != want.shape or not np.array_equal(got, want):
            touched = mode in ("none", "all") or i == case.get("target")
            raise Violation("routing:" + ("wrong-values" if touched else "other-part-changed"),
                            f"mode={mode} dofs={case.get('dofs')}: part {i} ({q['kind']}) does not behave "
                            f"like its formula with parameters {q}", t)
    # "update_model_parameters(...) then model(signal)": the combined model itself is the sequential
    # composition of the parts' formulas with the new parameters
    want = x.copy()
    for q in expected:
        want = ref_part(q, want, labels=labels)

    def end_to_end(kind, what):
        try:
            got = np.asarray(cm(x.copy()))
        except Exception as e:
            e.vf_tags = t
            raise
        if got.shape != want.shape or not np.array_equal(got, want):
            raise Violation(kind, f"mode={mode} dofs={case.get('dofs')}: CombinedModel({t['parts']})(signal) "
                            f"{what} differs from the composition of the parts' formulas with the updated "
                            f"parameters {expected}", t)

    end_to_end("routing:combined-after-update", "after the update")
    if mode != "model":
        # CombinedModel documents that it works on a copy of the flat vector: an optimiser re-using
        # its buffer afterwards must not reach into the model
        arr[...] = 64.0
        end_to_end("routing:aliases-caller-vector", "after the caller overwrote its own parameter vector")
    return Outcome(len(parts) >= 2 or mode == "model", [case["mode"], parts, case["params"][:8], case.get("dofs"),
                                                        case.get("target"), case["labels"], case.get("access")],
                   (f"mode-{mode}", f"parts{len(parts)}", f"dofs-{case.get('dofs')}")
                   + ((f"access-{case.get('access')}",) if mode == "model" else ())
                   + tuple(sorted({p["kind"] for p in parts})), evals=2 + len(parts))


# ---------------------------------------------------------------------------------------
# 5. heterogeneous_matches_homogeneous
# ---------------------------------------------------------------------------------------


@st.composite
def gen_hetero_cases(draw):
    flavour = draw(st.sampled_from(["hetlinear", "hetlinear", "hetlinear", "hetmodel-linear",
                                    "hetmodel-clip", "hetmodel-kernel", "hetmodel-kernel"]))
    lab = draw(label_specs(max_extent=7 if flavour != "hetmodel-kernel" else 4))
    case = {"flavour": flavour, "labels": lab, "pseed": draw(st.integers(0, 2**20)),
            "s": [draw(dy(-3, 3, 4)) for _ in range(5)], "o": [draw(dy(-3, 3, 4)) for _ in range(5)],
            "s2": [draw(dy(-3, 3, 4)) for _ in range(5)], "o2": [draw(dy(-3, 3, 4)) for _ in range(5)]}
    if flavour == "hetlinear":
        case["init"] = draw(st.sampled_from(["array", "list", "float", "default"]))
        # 1 = label resolution, 2 = twice as fine, 0 = half as fine (only sensible for even label shapes)
        case["calls"] = draw(st.lists(st.sampled_from([1, 1, 2, 0]), min_size=1, max_size=4))
        case["update"] = draw(st.sampled_from([None, "none", "all", "both", "scaling", "offset", "update"]))
        case["key"] = draw(st.sampled_from(["", "balancing "]))
        # signal form: plain (H, W) or multichannel (H, W, 3) (the model masks / resizes by shape[:2]);
        # label maps as they come out of segmentations: any integer type, ids beyond 255
        case["chan"] = draw(st.sampled_from([0, 0, 0, 3]))
        case["sdtype"] = draw(st.sampled_from(["float64", "float64", "float32"]))
        case["ldtype"] = draw(st.sampled_from(["uint8", "uint8", "uint16", "int32", "int64"]))
    elif flavour == "hetmodel-kernel":
        case["kernel"] = draw(kernel_specs(max_n=3))
        # the form MultichromaticTracerAnalysis uses: a data-less prototype inside a CombinedModel,
        # labels calibrated one by one through item access - possibly not all of them
        case["proto"] = draw(st.sampled_from(["data", "empty", "empty"]))
        case["wrap"] = draw(st.booleans())
        case["calibrated"] = [draw(st.sampled_from([True, True, True, False])) for _ in range(5)]
    return case


def _check_regions(got, x, labels, ids, s, o, t, what):
    if got.shape != x.shape:
        raise Violation("hetero-shape", f"{what}: {x.shape} -> {got.shape}", t)
    for i, lab in enumerate(ids):
        reg = labels == lab
        want = s[i] * x + o[i]
        if not np.array_equal(got[reg], want[reg]):
            raise Violation("hetero-region", f"{what}: on the region of label {lab} the result differs from "
                            f"the homogeneous model with scaling {s[i]} offset {o[i]}", t)


def check_hetero(case):
    _numba_ready()
    labels = make_labels(case["labels"])
    fl = case["flavour"]
    ldtype = case.get("ldtype", "uint8") if fl == "hetlinear" else "uint8"
    if ldtype != "uint8":
        labels = labels.astype(ldtype)
        labels[labels == 200] = 300  # an id that does not fit into 8 bits
    ids = np.unique(labels)
    n = len(ids)
    t = {"flavour": fl, "nlabels": n}
    rng_seed = case["pseed"]
    evals = 0
    if fl == "hetlinear":
        chan, sdtype = case.get("chan", 0), case.get("sdtype", "float64")
        t.update(ldtype=ldtype, chan=chan, sdtype=sdtype)
        s, o = list(case["s"][:n]), list(case["o"][:n])
        key = case["key"]
        init = case["init"]
        t["init"] = init
        if init == "array":
            m = darsia.HeterogeneousLinearModel(labels, key=key, **{key + "scaling": np.array(s), key + "offset": np.array(o)})
        elif init == "list":
            m = darsia.HeterogeneousLinearModel(labels, key=key, **{key + "scaling": list(s), key + "offset": list(o)})
        elif init == "float":
            s, o = [s[0]] * n, [o[0]] * n
            m = darsia.HeterogeneousLinearModel(labels, key=key, **{key + "scaling": float(s[0]), key + "offset": float(o[0])})
        else:
            s, o = [1.0] * n, [0.0] * n
            m = darsia.HeterogeneousLinearModel(labels)
        if m.num_parameters != 2 * n:
            raise Violation("num-parameters", f"{m.num_parameters} for {n} labels", t)
        lab_before = labels.copy()

        def run_calls(tag):
            nonlocal evals
            for k, f in enumerate(case["calls"]):
                coarse = f == 0 and labels.shape[0] % 2 == 0 and labels.shape[1] % 2 == 0 and min(labels.shape) >= 2
                if coarse:
                    lab_f = labels[::2, ::2]  # only its shape is used, see below
                else:
                    lab_f = upsample2(labels) if f == 2 else labels
                x = gens.payload_array(list(lab_f.shape) + ([chan] if chan else []), sdtype, rng_seed + k,
                                       dyadic=True)
                x0 = x.copy()
                try:
                    got = np.asarray(m(x))
                except Exception as e:
                    e.vf_tags = t
                    raise
                evals += 1
                if not np.array_equal(x, x0):
                    raise Violation("hetero-input-modified", "signal changed", t)
                if coarse:
                    # which label a coarse voxel gets is the resampler's business; every value must
                    # still be the homogeneous model of *some* label, and later calls must be exact
                    cand = np.stack([s[i] * x0 + o[i] for i in range(n)], axis=0)
                    hit = cand == got[None] if got.shape == x0.shape else None
                    if chan and hit is not None:
                        hit = np.all(hit, axis=-1)  # one label per voxel, the same for all channels
                    if hit is None or not np.all(np.any(hit, axis=0)):
                        raise Violation("hetero-coarse", f"{tag} call {k + 1} (half resolution): a value is "
                                        "not the homogeneous model of any label", t)
                    continue
                _check_regions(got, x0, lab_f, ids, s, o, t,
                               f"{tag} call {k + 1} of resolutions {case['calls']} (x{f})")

        run_calls("initial")
        up = case["update"]
        if up is not None:
            s2, o2 = list(case["s2"][:n]), list(case["o2"][:n])
            if up == "update":
                m.update(scaling=np.array(s2), offset=np.array(o2))
                s, o = s2, o2
            elif up in ("none", "all", "both"):
                dofs = {"none": None, "all": "all", "both": ["offset", "scaling"]}[up]
                m.update_model_parameters(np.array(s2 + o2), dofs)
                s, o = s2, o2
            elif up == "scaling":
                m.update_model_parameters(np.array(s2), ["scaling"])
                s = s2
            else:
                m.update_model_parameters(np.array(o2), ["offset"])
                o = o2
            run_calls(f"after update ({up})")
        if not np.array_equal(labels, lab_before):
            raise Violation("hetero-labels-modified", "label array changed", t)
        resized = 2 in case["calls"] or 0 in case["calls"]
        return Outcome(n >= 2, [case["labels"], s, o, case["calls"], case["update"], init, ldtype, chan, sdtype],
                       (f"labels{n}", "hetlinear", f"init-{init}", f"update-{up}",
                        "resized" if resized else "same-resolution",
                        "shape-changes" if len(set(case["calls"])) > 1 else "shape-constant",
                        f"labels-{ldtype}", f"signal-{sdtype}", "multichannel" if chan else "scalar-signal",
                        "label-id-300" if 300 in ids else "label-ids-8bit"), evals=evals)
    # ---- HeterogeneousModel(obj, labels Image) ----
    lab_img = darsia.Image(labels.copy(), dimensions=[1.0, 1.0], scalar=True)
    if fl == "hetmodel-linear":
        het = darsia.HeterogeneousModel(darsia.LinearModel(scaling=case["s"][0], offset=case["o"][0]), lab_img)
        x = gens.payload_array(list(labels.shape), "float64", rng_seed, dyadic=True)
        got = np.asarray(het(x))
        _check_regions(got, x, labels, ids, [case["s"][0]] * n, [case["o"][0]] * n, t, "shared parameters")
        # per-label parameters through item access (as the calibration presets do)
        for i, lab in enumerate(ids):
            het[lab].update(scaling=case["s2"][i], offset=case["o2"][i])
        got = np.asarray(het(x))
        _check_regions(got, x, labels, ids, case["s2"][:n], case["o2"][:n], t, "per-label parameters")
        evals = 2
    elif fl == "hetmodel-clip":
        het = darsia.HeterogeneousModel(darsia.ClipModel(**{"min value": -1.0, "max value": 1.0}), lab_img)
        x = gens.payload_array(list(labels.shape), "float64", rng_seed, dyadic=True)
        bounds = []
        for i, lab in enumerate(ids):
            lo = min(case["s2"][i], case["o2"][i])
            hi = max(case["s2"][i], case["o2"][i])
            het[lab].update(min_value=lo, max_value=hi)
            bounds.append((lo, hi))
        got = np.asarray(het(x))
        for i, lab in enumerate(ids):
            reg = labels == lab
            if not np.array_equal(got[reg], np.clip(x, *bounds[i])[reg]):
                raise Violation("hetero-region", f"HeterogeneousModel(ClipModel): region of label {lab} "
                                f"is not clipped to {bounds[i]}", t)
        evals = 1
    else:
        kspec = case["kernel"]
        empty = case.get("proto", "data") == "empty"
        wrap = bool(case.get("wrap", False))
        calibrated = list(case.get("calibrated", [True] * 5))[:n]
        t.update(proto="empty" if empty else "data", wrap=wrap)

        def prototype():
            if empty:
                with warnings.catch_warnings():
                    warnings.simplefilter("ignore", UserWarning)  # "No input data given."
                    return darsia.KernelInterpolation(make_kernel(kspec["ktype"], kspec["par"]))
            return build_kernel_model(kspec)[0]

        het = darsia.HeterogeneousModel(prototype(), lab_img)
        cm = darsia.CombinedModel([het]) if wrap else None
        x = np.random.default_rng(rng_seed).integers(0, 101, size=(*labels.shape, kspec["d"])) / 100.0
        x = x.astype(np.float32)
        x0 = x.copy()

        def compare(homogeneous, stage):
            got = np.asarray(cm(x) if wrap else het(x))
            if not np.array_equal(x, x0):
                raise Violation("hetero-input-modified", "signal changed", t)
            if got.shape != labels.shape:
                raise Violation("hetero-shape", f"{x.shape} -> {got.shape}", t)
            for i, lab in enumerate(ids):
                reg = labels == lab
                want = np.asarray(homogeneous[i](x0[reg]))
                tol = 1e-5 * (1.0 + float(np.abs(want).max()))
                if want.shape != got[reg].shape or not np.all(np.abs(got[reg] - want) <= tol):
                    raise Violation("hetero-region", f"HeterogeneousModel(KernelInterpolation) {stage}: region "
                                    f"of label {lab} differs from the homogeneous interpolation of that label "
                                    f"by {float(np.abs(got[reg] - want).max()):.3e}", t)

        # before any calibration every label behaves like the prototype (checked for the data-less
        # prototype, which costs no kernel evaluations)
        proto_h = prototype()  # homogeneous reference (evaluation does not change a model)
        if empty:
            compare([proto_h] * n, "before calibration")
        fresh = []
        for i, lab in enumerate(ids):
            if not calibrated[i]:
                fresh.append(proto_h)
                continue
            ks = dict(kspec, pseed=kspec["pseed"] + 1 + i)
            mdl, sup, val = build_kernel_model(ks)
            (cm[0] if wrap else het)[lab].update(supports=sup, values=val)
            fresh.append(mdl)
        compare(fresh, "after label-wise calibration")
        evals = 2 * n if empty else n
        return Outcome(n >= 2, [case["labels"], fl, case["pseed"], kspec, empty, wrap, calibrated],
                       (f"labels{n}", fl, "prototype-empty" if empty else "prototype-with-data",
                        "inside-combined" if wrap else "bare",
                        "all-labels-calibrated" if all(calibrated) else "some-labels-uncalibrated"), evals=evals)
    return Outcome(n >= 2, [case["labels"], fl, case["pseed"], case["s2"][:n], case["o2"][:n]],
                   (f"labels{n}", fl), evals=evals)


# ---------------------------------------------------------------------------------------
# 6. static_threshold_exact
# ---------------------------------------------------------------------------------------


@st.composite
def gen_threshold_cases(draw):
    hetero = draw(st.booleans())
    lab = draw(label_specs())
    case = {"hetero": hetero, "labels": lab, "mask": draw(st.booleans()),
            "return_float": draw(st.booleans()), "pseed": draw(st.integers(0, 2**20)),
            "upper": draw(st.sampled_from(["none", "set", "set"])),
            "xdtype": draw(st.sampled_from(["float64", "float64", "float32"]))}
    lows = [draw(dy(-2, 1, 4)) for _ in range(5)]
    case["lo"] = lows
    case["hi"] = [lo + draw(dy(0, 3, 4)) for lo in lows]
    if hetero:
        case["form"] = draw(st.sampled_from(["list", "array", "float"]))
        case["sig"] = None
    else:
        case["form"] = "float"
        case["sig"] = draw(signal_specs(kinds=("1d", "2d", "3d")))
    return case


def check_threshold(case):
    het = case["hetero"]
    t = {"hetero": het, "mask": case["mask"], "return_float": case["return_float"], "upper": case["upper"],
         "form": case["form"]}
    rng = np.random.default_rng(case["pseed"])
    if het:
        labels = make_labels(case["labels"])
        ids = np.unique(labels)
        n = len(ids)
        shape = labels.shape
    else:
        labels, ids, n = None, [None], 1
        shape = tuple(case["sig"]["shape"])
    lo = case["lo"][:n]
    hi = case["hi"][:n] if case["upper"] == "set" else None
    if case["form"] == "float":
        lo = [lo[0]] * n
        hi = None if hi is None else [hi[0]] * n
    # quarter-grid values so that signals hit the bounds exactly
    x = (rng.integers(-12, 17, size=shape) / 4.0).astype(case.get("xdtype", "float64"))
    mask = rng.integers(0, 2, size=shape).astype(bool) if case["mask"] else None
    if het:
        conv = {"list": list, "array": np.array, "float": lambda v: float(v[0])}[case["form"]]
        m = darsia.StaticThresholdModel(conv(lo), None if hi is None else conv(hi), labels=labels,
                                        return_float=case["return_float"])
        want = np.zeros(shape, dtype=bool)
        for i, lab in enumerate(ids):
            inside = x > lo[i]
            if hi is not None:
                inside &= x < hi[i]
            want |= inside & (labels == lab)
    else:
        m = darsia.StaticThresholdModel(float(lo[0]), None if hi is None else float(hi[0]),
                                        return_float=case["return_float"])
        want = x > lo[0]
        if hi is not None:
            want &= x < hi[0]
    if mask is not None:
        want &= mask
    x0 = x.copy()
    got = np.asarray(m(x) if mask is None else m(x, mask))
    if not np.array_equal(x, x0):
        raise Violation("threshold-input-modified", "signal changed", t)
    if got.shape != want.shape:
        raise Violation("threshold-shape", f"{want.shape} -> {got.shape}", t)
    if got.dtype != bool and not np.all((got == 0) | (got == 1)):
        raise Violation("threshold-values", f"non-binary output values (dtype {got.dtype})", t)
    # documented: "return_float (bool): flag controlling whether the output is a float or boolean";
    # restricted to a mask the result is the "boolean mask" of the docstring (not asserted for the
    # undocumented combination mask + return_float)
    if not case["return_float"] and got.dtype != bool:
        raise Violation("threshold-dtype:bool", f"return_float=False: output dtype {got.dtype}, expected bool", t)
    if case["return_float"] and mask is None and not np.issubdtype(got.dtype, np.floating):
        raise Violation("threshold-dtype:float", f"return_float=True: output dtype {got.dtype}, expected a "
                        "floating-point array of zeros and ones", t)
    gb = got.astype(bool)
    if not np.array_equal(gb, want):
        bad = tuple(np.argwhere(gb != want)[0])
        on_bound = bool(any(x[bad] == b for b in lo) or (hi is not None and any(x[bad] == b for b in hi)))
        raise Violation("threshold-set" + (":on-bound" if on_bound else ""),
                        f"voxel {bad} with value {x[bad]} (bounds lo={lo} hi={hi}, mask="
                        f"{None if mask is None else bool(mask[bad])}): got {bool(gb[bad])}, expected "
                        f"{bool(want[bad])}", t)
    try:
        m.update_model_parameters(np.array([0.0, 1.0]))
    except NotImplementedError:
        pass  # documented: static thresholds cannot be calibrated
    else:
        raise Violation("threshold-update-accepted", "StaticThresholdModel.update_model_parameters did "
                        "not raise NotImplementedError", t)
    hits = bool(np.any(np.isin(x, lo)) or (hi is not None and np.any(np.isin(x, hi))))
    return Outcome(n >= 2 or hits, [case["labels"] if het else case["sig"], lo, hi, case["mask"],
                                    case["return_float"], case["pseed"], case["form"], case.get("xdtype")],
                   ("heterogeneous" if het else "homogeneous", f"labels{n}",
                    "mask" if case["mask"] else "nomask", "float" if case["return_float"] else "bool",
                    f"upper-{case['upper']}", "bound-hit" if hits else "no-bound-hit",
                    "signal-" + case.get("xdtype", "float64")))


# ---------------------------------------------------------------------------------------
# kernels (7, 8)
# ---------------------------------------------------------------------------------------


@st.composite
def kernel_specs(draw, max_n=4, dims=(3, 3, 3, 2, 1), ns=(1, 2, 2, 3, 3, 4)):
    ktype = draw(st.sampled_from(["gaussian", "gaussian", "linear"]))
    d = draw(st.sampled_from(list(dims)))
    if ktype == "gaussian":
        par = draw(st.sampled_from([0.5, 1.0, 2.0, 4.0, 8.0, 9.73]))
        n = min(max_n, draw(st.sampled_from(list(ns))))
    else:
        par = draw(st.sampled_from([0.0, 0.0, 0.25, 1.0]))
        nmax = min(max_n, d + (1 if par > 0 else 0))
        n = min(nmax, draw(st.sampled_from(list(ns))))
    return {"ktype": ktype, "par": par, "n": n, "d": d, "pseed": draw(st.integers(0, 2**20))}


def make_kernel(ktype, par):
    return darsia.GaussianKernel(gamma=par) if ktype == "gaussian" else darsia.LinearKernel(a=par)


def ref_kernel(ktype, par, x, y):
    """float64 kernel from the defining formula."""
    x = np.asarray(x, dtype=np.float64)
    y = np.asarray(y, dtype=np.float64)
    if ktype == "gaussian":
        return np.exp(-float(np.float32(par)) * np.sum((x - y) ** 2, axis=-1))
    return np.sum(x * y, axis=-1) + par


def make_supports(spec):
    """Distinct supports on the 1/100 grid in [0,1]^d, pairwise distance >= 0.3, kernel matrix of
    condition <= 1e3; lexicographically sorted (the model sorts them itself).  Deterministic
    rejection sampling; returns None if no admissible set is found."""
    rng = np.random.default_rng(spec["pseed"])
    n, d = spec["n"], spec["d"]
    for _ in range(200):
        s = rng.integers(0, 101, size=(n, d)) / 100.0
        if spec["ktype"] == "linear":
            s = np.maximum(s, 0.05)
        ok = True
        for i, j in itertools.combinations(range(n), 2):
            if np.linalg.norm(s[i] - s[j]) < 0.3:
                ok = False
        if not ok:
            continue
        s32 = s.astype(np.float32).astype(np.float64)
        x = np.array([[ref_kernel(spec["ktype"], spec["par"], a, b) for b in s32] for a in s32])
        if np.linalg.cond(x) > 1e3:
            continue
        order = np.lexsort(s.T[::-1])
        return s[order], x[np.ix_(order, order)]
    return None


def make_values(spec, salt=0):
    rng = np.random.default_rng(spec["pseed"] + 77 + salt)
    return rng.integers(-8, 9, size=spec["n"]) / 4.0


def build_kernel_model(spec):
    res = make_supports(spec)
    if res is None:
        # fall back to a single support: always admissible
        spec = dict(spec, n=1)
        res = make_supports(spec)
    sup, _ = res
    val = make_values(dict(spec, n=len(sup)))
    return (darsia.KernelInterpolation(make_kernel(spec["ktype"], spec["par"]), supports=sup.copy(),
                                       values=val.copy()), sup, val)


_CAL = None  # calibration hook: list collecting err / tol ratios


def kernel_tol(ktype, par, weights, pts, sup, vmax):
    """Bound on the float32 evaluation error of sum_n w_n k(x, s_n) (backward-error form).
    Gaussian: the exponent gamma |x-s|^2 carries (d+2) roundings, |d exp(-t)| <= 0.37 t-relative,
    fast-math exp a few ulps -> per-term error <= eps32 |w_n| (d + 6); linear: (d+1) roundings of
    sum |x_j s_j| + a.  Accumulating n terms and the float32 cast of the weights add n + 1 ulps.
    Safety factor 4 (observed: <= 0.06 of this bound over 10 000 cases); plus 4 eps32 |v|max."""
    n, d = sup.shape
    if ktype == "gaussian":
        unit = float(d + 6 + n)
    else:
        mag = float(np.max(np.sum(np.abs(np.reshape(pts, (-1, d)))[:, None, :] * np.abs(sup)[None, :, :], axis=-1)))
        unit = (mag + abs(par)) * (d + n + 2)
    return 4 * EPS32 * float(np.sum(np.abs(weights))) * unit + 4 * EPS32 * vmax


@st.composite
def gen_kernel_cases(draw):
    update = draw(st.sampled_from([None, None, None, "values", "kernel", "kernel+values", "all", "none",
                                   "update-supports", "append", "append", "advanced", "advanced"]))
    # AdvancedKernelInterpolation works on colour triplets only (reshape(-1, 3))
    spec = draw(kernel_specs(dims=(3,), ns=(2, 2, 3, 3, 4))) if update == "advanced" else draw(kernel_specs())
    return {"k": spec, "form": draw(st.sampled_from(["batch", "single", "image"])),
            "update": update,
            "par2": draw(st.sampled_from([0.5, 2.0, 6.0])), "as_list": draw(st.booleans()),
            # hand one support over twice (same value): the model reduces to the distinct supports
            "dup": update is None and draw(st.sampled_from([False, True]))}


def _eval_at_supports(m, sup, form):
    if form == "batch":
        return np.asarray(m(sup))
    if form == "single":
        return np.array([np.asarray(m(s)) for s in sup]).reshape(len(sup))
    tile = np.tile(sup[None, :, :], (2, 1, 1))  # (2, n, d) "image"
    out = np.asarray(m(tile))
    if out.shape != (2, len(sup)) or not np.array_equal(out[0], out[1]):
        raise Violation("kernel-image-shape", f"(2, n, d) signal -> {out.shape} / rows differ", {})
    return out[0]


def check_kernel_reproduces(case):
    _numba_ready()
    spec = case["k"]
    res = make_supports(spec)
    t = {"ktype": spec["ktype"], "n": spec["n"], "d": spec["d"], "form": case["form"], "update": case["update"]}
    if res is None:
        return Outcome(False, status="skipped", labels=("no-admissible-supports",))
    sup, xmat = res
    val = make_values(spec)
    # hand the supports over in a scrambled order: value i must stay attached to support i
    perm = np.random.default_rng(spec["pseed"] + 5).permutation(len(sup))
    sup_in, val_in = sup[perm], val[perm]
    sup_give, val_give = sup_in, val_in
    dup = bool(case.get("dup", False))
    if dup:
        drng = np.random.default_rng(spec["pseed"] + 13)
        j, at = int(drng.integers(0, len(sup_in))), int(drng.integers(0, len(sup_in) + 1))
        sup_give = np.insert(sup_in, at, sup_in[j], axis=0)
        val_give = np.insert(val_in, at, val_in[j])
    with warnings.catch_warnings():
        warnings.simplefilter("ignore", UserWarning)  # "Supports are not unique."
        if case["as_list"]:
            m = darsia.KernelInterpolation(make_kernel(spec["ktype"], spec["par"]),
                                           supports=sup_give.tolist(), values=val_give.tolist())
        else:
            m = darsia.KernelInterpolation(make_kernel(spec["ktype"], spec["par"]), supports=sup_give.copy(),
                                           values=val_give.copy())
    ktype, par = spec["ktype"], spec["par"]

    def verify(sup_chk, val_chk, xm, stage, model=None):
        w = np.linalg.solve(xm, val_chk)
        got = _eval_at_supports(m if model is None else model, sup_chk, case["form"])
        tol = kernel_tol(ktype, par, w, sup_chk, sup_chk, float(np.abs(val_chk).max()))
        err = float(np.abs(got - val_chk).max())
        if _CAL is not None:
            _CAL.append(("rep", ktype, err / tol if tol > 0 else 0.0))
        if got.shape != val_chk.shape or not err <= tol:
            raise Violation(f"kernel-not-reproduced:{stage}", f"{ktype}({par}) n={len(sup_chk)} d={spec['d']} "
                            f"form={case['form']}: max |model(support_i) - value_i| = {err:.3e} "
                            f"(tol {tol:.2e})", t)

    verify(sup_in, val_in, xmat[np.ix_(perm, perm)], "initial-duplicate-support" if dup else "initial")
    evals = 1
    up = case["update"]
    if up == "advanced":
        # fixed + variable supports: the union is interpolated; afterwards only the variable values move
        k = 1 + int(np.random.default_rng(spec["pseed"] + 9).integers(0, len(sup_in) - 1))
        conv = (lambda a: a.tolist()) if case["as_list"] else (lambda a: a.copy())
        try:
            with warnings.catch_warnings():
                warnings.simplefilter("ignore", UserWarning)  # data-less constructor
                adv = darsia.AdvancedKernelInterpolation(make_kernel(spec["ktype"], spec["par"]))
            adv.update_advanced(fixed_supports=conv(sup_in[:k]), fixed_values=conv(val_in[:k]),
                                variable_supports=conv(sup_in[k:]), variable_values=conv(val_in[k:]))
            verify(sup_in, val_in, xmat[np.ix_(perm, perm)], "advanced", adv)
            val2 = val_in.copy()
            val2[k:] = make_values(spec, salt=1)[: len(sup_in) - k]
            adv.update_variable_model_parameters(val2[k:].copy())
            verify(sup_in, val2, xmat[np.ix_(perm, perm)], "advanced-variable-update", adv)
        except Violation:
            raise
        except Exception as e:
            e.vf_tags = t
            raise
        return Outcome(True, [spec, case["form"], up, k, case["as_list"]],
                       (spec["ktype"], f"n{len(sup_in)}", "advanced", case["form"], f"fixed{k}"), evals=3)
    if up == "append":
        # a second model built from the first k supports, the rest appended by update(append=True):
        # every value stays attached to its own support
        if len(sup_in) < 2:
            return Outcome(False, [spec, case["form"], up], ("append-needs-2-supports",), status="skipped")
        k = 1 + int(np.random.default_rng(spec["pseed"] + 9).integers(0, len(sup_in) - 1))
        m = darsia.KernelInterpolation(make_kernel(spec["ktype"], spec["par"]), supports=sup_in[:k].copy(),
                                       values=val_in[:k].copy())
        try:
            m.update(supports=sup_in[k:].copy(), values=val_in[k:].copy(), append=True)
        except Exception as e:
            e.vf_tags = t
            raise
        verify(sup_in, val_in, xmat[np.ix_(perm, perm)], "after-append")
        return Outcome(True, [spec, case["form"], up, k], (f"n{len(sup_in)}", "append", case["form"]), evals=2)
    if up is not None:
        # updated values refer to model.supports; the model may keep them in any order (it sorts them)
        msup = np.asarray(m.supports, dtype=np.float64)
        match = None
        if msup.shape == sup.shape:
            dist = np.abs(msup[:, None, :] - sup[None, :, :]).max(axis=-1)
            match = np.argmin(dist, axis=1)
            if sorted(match.tolist()) != list(range(len(sup))) or \
                    float(dist[np.arange(len(sup)), match].max()) > 2e-5:
                match = None
        if match is None:
            raise Violation("kernel-supports", "model.supports is not the set of supports handed in", t)
        msup, xmat, val = sup[match], xmat[np.ix_(match, match)], val[match]
        val2 = make_values(spec, salt=1)
        par2 = case["par2"] if ktype == "gaussian" else (0.5 if spec["n"] <= spec["d"] else par)
        k2 = make_kernel(ktype, par2)
        m32 = msup.astype(np.float32).astype(np.float64)
        xm2 = np.array([[ref_kernel(ktype, par2, a, b) for b in m32] for a in m32])
        try:
            if up == "values":
                m.update_model_parameters(val2.copy(), ["values"])
                xm, vv = xmat, val2
            elif up == "kernel":
                m.update_model_parameters([k2], ["kernel"])
                par, xm, vv = par2, xm2, val
            elif up == "kernel+values":
                m.update_model_parameters([k2] + list(val2), ["values", "kernel"])
                par, xm, vv = par2, xm2, val2
            elif up == "all":
                m.update_model_parameters([k2] + list(val2), "all")
                par, xm, vv = par2, xm2, val2
            elif up == "none":
                m.update_model_parameters([k2] + list(val2))
                par, xm, vv = par2, xm2, val2
            else:  # new supports + values through update()
                spec3 = dict(spec, pseed=spec["pseed"] + 1000)
                res3 = make_supports(spec3)
                if res3 is None:
                    return Outcome(True, [spec, case["form"], None], ("update-skipped",), evals=evals)
                sup3, xm = res3
                vv = val2
                m.update(supports=sup3.copy(), values=vv.copy())
                msup = sup3
        except Exception as e:
            e.vf_tags = t
            raise
        if np.linalg.cond(xm) <= 1e3:
            verify(msup, vv, xm, "after-kernel-update" if up in ("kernel", "kernel+values", "all", "none")
                   else f"after-{up}")
            evals += 1
    return Outcome(spec["n"] >= 2, [spec, case["form"], case["update"], case["par2"], dup],
                   (spec["ktype"], f"n{spec['n']}", f"d{spec['d']}", case["form"], f"update-{case['update']}",
                    "duplicate-support" if dup else "supports-distinct"),
                   evals=evals)


@st.composite
def gen_fast_cases(draw):
    ktype = draw(st.sampled_from(["gaussian", "linear"]))
    d = draw(st.sampled_from([3, 3, 2, 1, 4]))
    ndim = draw(st.sampled_from([1, 2, 3]))
    shape = [draw(st.integers(1, 6)) for _ in range(ndim - 1)] + [d]
    return {"ktype": ktype, "par": draw(st.sampled_from([0.5, 1.0, 2.0, 8.0] if ktype == "gaussian"
                                                      else [0.0, 0.25, 1.0])),
            "n": draw(st.sampled_from([1, 2, 2, 3, 4, 5])), "d": d, "shape": shape,
            "pseed": draw(st.integers(0, 2**20)),
            "range": draw(st.sampled_from(["unit", "signed"])),
            # memory layout of the signal: images reach the kernels also as views (sub-regions, flipped or
            # transposed images), not only as freshly allocated C-ordered arrays
            "layout": draw(st.sampled_from(["c", "c", "strided", "reversed", "fortran"]))}


def _with_layout(arr, layout):
    """an array with the values of `arr` and the requested memory layout."""
    if layout == "strided":
        big = np.zeros(tuple(2 * n for n in arr.shape), dtype=arr.dtype)
        view = big[tuple(slice(None, None, 2) for _ in arr.shape)]
        view[...] = arr
        return view
    if layout == "reversed":
        return arr[tuple(slice(None, None, -1) for _ in arr.shape)].copy()[
            tuple(slice(None, None, -1) for _ in arr.shape)]
    if layout == "fortran":
        return np.asfortranarray(arr)
    return arr


def check_kernel_fast(case):
    _numba_ready()
    rng = np.random.default_rng(case["pseed"])
    lo = 0 if case["range"] == "unit" else -100
    layout = case.get("layout", "c")
    sig = _with_layout((rng.integers(lo, 101, size=case["shape"]) / 100.0).astype(np.float32), layout)
    sup = (rng.integers(lo, 101, size=(case["n"], case["d"])) / 100.0).astype(np.float32)
    w = (rng.integers(-16, 17, size=case["n"]) / 4.0).astype(np.float32)
    k = make_kernel(case["ktype"], case["par"])
    t = {"ktype": case["ktype"], "ndim": len(case["shape"]), "n": case["n"], "d": case["d"], "layout": layout}
    s0 = sig.copy()
    try:
        fast = np.asarray(k.linear_combination(sig, sup, w))
    except Exception as e:
        e.vf_tags = t
        raise
    plain = np.asarray(BaseKernel.linear_combination(k, sig, sup, w))
    ref = sum(float(w[n]) * ref_kernel(case["ktype"], case["par"], sig, sup[n]) for n in range(case["n"]))
    ref = np.asarray(ref)
    if not np.array_equal(sig, s0):
        raise Violation("kernel-input-modified", "signal changed", t)
    if fast.shape != tuple(case["shape"][:-1]):
        raise Violation("kernel-fast-shape", f"signal {sig.shape} -> {fast.shape}", t)
    tol = kernel_tol(case["ktype"], case["par"], w, sig, sup, 0.0)
    e1 = float(np.abs(fast.astype(np.float64) - plain.astype(np.float64)).max())
    e2 = float(np.abs(fast.astype(np.float64) - ref).max())
    if _CAL is not None:
        _CAL.append(("fast", case["ktype"], max(e1, e2) / tol if tol > 0 else 0.0))
    if not e1 <= tol:
        raise Violation(f"kernel-fast-vs-plain:{case['ktype']}", f"numba linear_combination differs from the "
                        f"plain kernel sum by {e1:.3e} (tol {tol:.2e}) for a {len(case['shape'])}-d signal", t)
    if not e2 <= tol:
        raise Violation(f"kernel-fast-vs-formula:{case['ktype']}", f"numba linear_combination differs from the "
                        f"float64 kernel formula by {e2:.3e} (tol {tol:.2e})", t)
    return Outcome(case["n"] >= 2, [case["ktype"], case["par"], case["n"], case["shape"], case["pseed"], case["range"],
                                    layout],
                   (case["ktype"], f"ndim{len(case['shape'])}", f"n{case['n']}", f"d{case['d']}", case["range"],
                    f"layout-{layout}"))


# ---------------------------------------------------------------------------------------
# 9. polynomial_span
# ---------------------------------------------------------------------------------------


def enum_poly(tier):
    seeds = range(2 if tier == "quick" else 8)
    return [{"degree": d, "pseed": s, "form": f} for d in range(0, 5) for s in seeds
            for f in ("points", "grid")]


def check_polynomial_span(case):
    d = case["degree"]
    t = {"degree": d}
    sp = darsia.PolynomialApproximationSpace(d)
    size = (d + 1) * (d + 2) // 2
    if sp.size != size:
        raise Violation("polynomial-size", f"degree {d}: size {sp.size}, expected {size}", t)
    rng = np.random.default_rng(1000 * d + case["pseed"])
    pts = rng.uniform(-1, 1, size=(60, 2))
    if case["form"] == "grid":
        x = pts.reshape(6, 10, 2)
    else:
        x = pts
    cols = []
    for k in range(size):
        b = np.asarray(sp.basis(x, k), dtype=float)
        b = np.broadcast_to(b, x.shape[:-1]).reshape(-1)
        cols.append(b)
    full = sp(x)
    if len(full) != size or any(
            not np.array_equal(np.broadcast_to(np.asarray(f, dtype=float), x.shape[:-1]).reshape(-1), c)
            for f, c in zip(full, cols)):
        raise Violation("polynomial-call", "space(x) is not the list of basis(x, k)", t)
    bmat = np.stack(cols, axis=1)
    expo = [(a, b) for a in range(d + 1) for b in range(d + 1 - a)]
    mono = np.stack([pts[:, 0] ** a * pts[:, 1] ** b for a, b in expo], axis=1)
    rank = int(np.linalg.matrix_rank(bmat, tol=1e-9))
    missing = []
    for (a, b), col in zip(expo, mono.T):
        coef = np.linalg.lstsq(bmat, col, rcond=None)[0]
        if np.linalg.norm(bmat @ coef - col) > 1e-8 * max(1.0, np.linalg.norm(col)):
            missing.append(f"x^{a} y^{b}")
    outside = []
    for k, col in enumerate(bmat.T):
        coef = np.linalg.lstsq(mono, col, rcond=None)[0]
        if np.linalg.norm(mono @ coef - col) > 1e-8 * max(1.0, np.linalg.norm(col)):
            outside.append(k)
    if rank != size or missing or outside:
        raise Violation("polynomial-span", f"degree {d}: rank {rank}/{size}; monomials of total degree <= {d} "
                        f"not in the span: {missing}; basis functions outside the space: {outside}", t)
    return Outcome(d >= 2, [d, case["pseed"], case["form"]], (f"degree{d}", case["form"]), evals=2 * size)


# ---------------------------------------------------------------------------------------

_RULE = ("Hypothesis draws the signal form (1-D, Nx3 pixel list, 2-D, 3-D, HxWx3; float32/float64; "
         "dyadic values k/8), the model parameters (dyadic), the way they are set (constructor with / "
         "without key prefix, update(), every documented dofs subset incl. None / 'all'), label maps "
         "with 1..5 distinct uint8 labels (every label present), 1-4 parts of a combined model, "
         "Gaussian (gamma 0.5..9.73) / linear (a 0..1) kernels with 1..4 supports on the 1/100 grid "
         "(pairwise distance >= 0.3, cond(X) <= 1e3, else re-drawn deterministically), polynomial "
         "degrees 0..4 enumerated; further classes: Images in 2-D, RGB and 3-D for ClipModel, integer-typed "
         "clip signals (uint8/uint16/int16/int32/int64 arrays and Images, values -6..8, real-valued bounds "
         "between the representable values), label maps of "
         "type uint8/uint16/int32/int64 (id 300), multichannel and float32 signals for the label-wise linear "
         "model, data-less KernelInterpolation prototypes inside CombinedModel([HeterogeneousModel]) "
         "calibrated label by label through item access (not necessarily all labels), a support handed "
         "over twice, AdvancedKernelInterpolation (fixed + variable supports), float32 threshold signals, "
         "C-ordered / strided / reversed / Fortran-ordered kernel signals; "
         "non-trivial = clipping active / s,o non-default / >= 2 parts / "
         ">= 2 labels or a signal value on a bound / >= 2 supports / degree >= 2; distinct = the case "
         "without duplicates")

PROP = Prop(
    pid="C14",
    rule=_RULE,
    assumptions=[
        "dyadic payloads and parameters: clip / affine / threshold / routing laws are compared exactly",
        "kernel laws: backward-error tolerance 4 eps32 sum|w_n| U + 4 eps32 |v|max with U = d+6+n "
        "(Gaussian) or (max sum_j|x_j s_j| + a)(d+n+2) (linear): float32 evaluation, fast-math exp, "
        "float32-rounded kernel matrix",
        "updated values of a KernelInterpolation refer to model.supports, in whatever order the model keeps "
        "them (only required: the same set of supports as handed in)",
        "CombinedModel works on its own copy of the flat parameter vector (stated in its source): overwriting "
        "the caller's vector afterwards must not change the model; not asserted for single models",
        "StaticThresholdModel: bool output without return_float, floating output with return_float and no "
        "mask; the type for mask + return_float is not asserted (undocumented)",
        "LinearModel / ScalingModel / CombinedModel are given arrays only (documented np.ndarray; darsia.Image "
        "has no float arithmetic); only ClipModel documents Image input",
        "a support handed over twice carries the same value both times",
        "multi-entry dofs lists of CombinedModel are not asserted (undocumented layout); parts without "
        "num_parameters (KernelInterpolation) are not routed through CombinedModel",
        "label maps are resized only by the exact factor 2 (nearest neighbour = block replication)",
    ],
    subs=[
        Sub("clip_bounds_idempotent", check_clip, gen=lambda tier: gen_clip_cases(),
            n={"quick": 800, "thorough": 20000}, shards={"quick": 1, "thorough": 8}),
        Sub("affine_in_signal", check_affine, gen=lambda tier: gen_affine_cases(),
            n={"quick": 800, "thorough": 20000}, shards={"quick": 1, "thorough": 8}),
        Sub("combined_is_composition", check_combined, gen=lambda tier: gen_combined_cases(),
            n={"quick": 800, "thorough": 20000}, shards={"quick": 2, "thorough": 16}),
        Sub("flat_parameter_routing", check_routing, gen=lambda tier: gen_routing_cases(),
            n={"quick": 800, "thorough": 20000}, shards={"quick": 2, "thorough": 16}),
        Sub("heterogeneous_matches_homogeneous", check_hetero, gen=lambda tier: gen_hetero_cases(),
            n={"quick": 600, "thorough": 12000}, shards={"quick": 4, "thorough": 16}),
        Sub("static_threshold_exact", check_threshold, gen=lambda tier: gen_threshold_cases(),
            n={"quick": 800, "thorough": 20000}, shards={"quick": 1, "thorough": 8}),
        Sub("kernel_reproduces_values", check_kernel_reproduces, gen=lambda tier: gen_kernel_cases(),
            n={"quick": 400, "thorough": 8000}, shards={"quick": 3, "thorough": 16}),
        Sub("kernel_fast_equals_plain", check_kernel_fast, gen=lambda tier: gen_fast_cases(),
            n={"quick": 300, "thorough": 6000}, shards={"quick": 2, "thorough": 16}),
        Sub("polynomial_span", check_polynomial_span, enum=enum_poly, exhaustive=True,
            shards={"quick": 1, "thorough": 1}),
    ],
)
