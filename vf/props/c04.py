"""C04 - Wasserstein solvers: mass conservation, self-consistent results, honest status,
also under injected failures of the inner linear solve."""
import warnings

import numpy as np
from hypothesis import strategies as st

import darsia
from vf import wass
from vf.oracles import RefGrid
from vf.runner import Outcome, Prop, Sub, Violation


def gen_run(tier, fault=False):
    mc = {1: 40, 2: 8, 3: 4} if tier == "quick" else {1: 40, 2: 10, 3: 5}

    @st.composite
    def strat(draw):
        g = draw(wass.grid_specs(max_cells=mc, min_cells=2, dims=(1, 2, 2, 2, 3, 3)))
        o = draw(wass.option_specs(max_iter=12 if tier == "quick" else 40))
        case = {"grid": g, "mass": draw(wass.mass_specs()), "opt": o,
                "weight": draw(wass.weight_specs())}
        # small / large total mass (power-of-two scale) and the library's default linear tolerances
        case["mass"]["amp_exp"] = draw(st.sampled_from([0, 0, 0, -14, -24, 10]))
        o["lso"] = draw(st.sampled_from(["tight", "tight", "default"]))
        # storage type of the pixel data (photographs are integer-typed); used when it holds the values
        case["mass"]["dtype"] = draw(st.sampled_from([None, None, None, None, "uint8", "uint16", "int32", "float32"]))
        # the grid handed to the solver: built directly, or derived from the images (darsia.generate_grid)
        g["via_image"] = draw(st.sampled_from([False, False, True]))
        if not fault and draw(st.integers(0, 11)) == 0:
            o["num_iter"] = 0  # only the initial Darcy flux: still mass-conserving, never converged
        elif not fault and draw(st.integers(0, 7)) == 0:
            # the same class built directly (a random draw reaches it in about 1 of 100 runs): Newton with
            # Anderson acceleration whose last iteration is the first one after a restart
            r = draw(st.sampled_from([2, 3, 5]))
            o.update(method="newton", aa_depth=draw(st.sampled_from([2, 5])), aa_restart=r,
                     num_iter=r * draw(st.sampled_from([1, 1, 2])) + 1, tol=draw(st.sampled_from([1e-6, 1e-12])))
        elif o["aa_depth"] and o["aa_restart"] and draw(st.booleans()):
            # Anderson acceleration with restart: runs that end on or next to a restart boundary (the
            # returned flux is then the first iterate mixed against a freshly reset history), with
            # tolerances that keep the run from stopping earlier (round 5, C04-u1)
            o["num_iter"] = o["aa_restart"] * draw(st.sampled_from([1, 2, 3])) + draw(st.sampled_from([0, 1, 1, 2]))
            o["tol"] = draw(st.sampled_from([1e-6, 1e-12]))
        if fault:
            o["tol"] = draw(st.sampled_from([None, 1e-12, 1e-12, 1e-3]))
            case["fault_point"] = draw(st.sampled_from(["linear_solve", "linear_solve", "face_weight",
                                                        "dissipation", "anderson"]))
            if case["fault_point"] == "anderson" and not o["aa_depth"]:
                o["aa_depth"] = draw(st.sampled_from([2, 5]))
                o["aa_restart"] = draw(st.sampled_from([None, 3]))
            hi = o["num_iter"] * (3 if case["fault_point"] in ("face_weight", "dissipation") else 1)
            case["fault_at"] = draw(st.integers(1, hi))
            case["fault_exc"] = draw(st.sampled_from(["runtime", "runtime", "memory", "custom", "floating",
                                                      "linalg", "type"]))
            # a failure that persists (every later call of the step fails as well)
            case["fault_sticky"] = case["fault_point"] == "linear_solve" and draw(st.sampled_from([False, False, True]))
        return case

    return strat()


def gen_status(tier):
    """Runs for the status check: the three documented tolerances are chosen independently of each other
    (each may also be left at its default) and the iteration budget is long enough for some of the runs
    to stop on the criteria and for others to run out of iterations."""
    tol = st.sampled_from([None, 0.3, 1e-2, 1e-4, 1e-7])

    @st.composite
    def strat(draw):
        case = draw(gen_run(tier))
        if draw(st.booleans()):
            case["opt"]["tols"] = {"residual": draw(tol), "increment": draw(tol), "distance": draw(tol)}
            case["opt"]["num_iter"] = draw(st.integers(3, 60 if tier == "quick" else 150))
        return case

    return strat()


def _thin_zero_flux(shape, a, b):
    """(thin, zero_flux): at most one axis with extent >= 2, and the unique mass-conserving flux
    of the pair vanishes exactly on some face."""
    big = [i for i, s in enumerate(shape) if s >= 2]
    if len(big) > 1:
        return False, False
    d = (b - a).ravel()
    cum = np.cumsum(d)[:-1]
    return True, bool(np.any(cum == 0))


def _tags(case, a, b):
    g, o = case["grid"], case["opt"]
    thin, zf = _thin_zero_flux(g["shape"], a, b)
    return {"dim": len(g["shape"]), "method": o["method"], "formulation": o["formulation"],
            "solver": o["linear_solver"], "mobility": o["mobility_mode"], "l1": o["l1_mode"],
            "thin": thin, "zero_flux": zf, "degenerate_mobility": False,
            "weighted": case.get("weight") is not None,
            "aa": bool(o.get("aa_depth"))}


def _run(case, fault_at=None, fault_point="linear_solve", fault_exc="runtime", sticky=False):
    grid, o = case["grid"], case["opt"]
    a, b = wass.make_masses(grid["shape"], case["mass"])
    tags = _tags(case, a, b)
    tags["dtype"] = str(wass.storage_dtype(a, b, case["mass"].get("dtype")))
    i1, i2 = wass.make_images(grid, a, b, case["mass"].get("dtype"))
    wimg = wass.make_weight(grid, case.get("weight"))
    with warnings.catch_warnings():
        warnings.simplefilter("ignore")
        np.seterr(all="ignore")
        try:
            w1, g = wass.make_solver(grid, o, wimg)
            cap = wass.capture_solve(w1)
            wass.watch_mobility(w1, tags)
            st_ = wass.inject_fault(w1, fault_at, fault_point, fault_exc, sticky) if fault_at is not None else None
            d, info = w1(i1, i2)
            cap["images"] = (i1, i2)
            # observations of the run that identify two open findings (see known_findings.json)
            tags["amg_converged"] = not cap.get("amg_unconverged", False)
            tags["anderson_at_noise_floor"] = wass.anderson_at_noise_floor(o, info)
        except tuple(c for c in wass.FAULT_TYPES.values() if c) + (wass.InjectedFault,) as e:
            if fault_at is None or "injected failure" not in str(e):
                e.vf_tags = tags
                raise
            # the injected exception left the call: either it hit a step outside the iteration (the
            # initial Darcy solve, the final pressure reconstruction) or the iteration let it escape
            return ("escaped", type(e).__name__, st_), tags, a, b, None, None, None
        except Exception as e:  # crash of the solver: reported by the runner with these tags
            e.vf_tags = tags
            raise
    return (d, info, cap, w1, st_), tags, a, b, g, wimg, RefGrid(grid["shape"], grid["vox"])


def _key(case):
    g, o = case["grid"], case["opt"]
    return [g["shape"], g["vk"], case["mass"]["kind"], o["method"], o["l1_mode"], o["mobility_mode"],
            o["formulation"], o["linear_solver"], bool(o["aa_depth"]), case.get("weight") is not None,
            case.get("fault_at"), case["mass"]["pseed"] % 50]


def _labels(case, extra=()):
    g, o = case["grid"], case["opt"]
    return (f"dim{len(g['shape'])}", o["method"], o["l1_mode"], o["mobility_mode"],
            f"{o['formulation']}/{o['linear_solver']}", f"mass-{case['mass']['kind']}",
            "aa" if o["aa_depth"] else "no-aa", "weighted" if case.get("weight") else "unweighted",
            "thin" if 1 in g["shape"] or len(g["shape"]) == 1 else "thick",
            "dtype-" + (case["mass"].get("dtype") or "float64") if not case["mass"].get("amp_exp") else "dtype-float64",
            "no-iteration" if o["num_iter"] == 0 else "iterated",
            "grid-from-image" if g.get("via_image") else "grid-direct") + tuple(extra)


def _nontrivial(case, info):
    g = case["grid"]
    its = len(info["convergence_history"]["distance"]) if info else 0
    return (sum(1 for s in g["shape"] if s >= 2) >= 2 and its >= 2) or case.get("fault_at") is not None


def _mass_residual(ref, u, a, b, sol=None):
    """max |div u - f| and the magnitude "linear-solver precision" is relative to: the mass source,
    |D| |u|, and - because the flux is recovered from the pressure, u = W^-1 (g + D^T p) - the largest
    right-hand side / solution entry of any linear solve of the run (`sol`, recorded by the harness: an
    Anderson-mixed iterate can carry pressures of 1e15, and a relative linear tolerance then leaves an
    absolute error of that order times the tolerance)."""
    f = ref.vol * (b - a).ravel("F")
    D = ref.divergence()
    res = D @ u - f
    scale = float(np.abs(f).max() + np.abs(D).max() * np.abs(u).max())
    if sol is not None:
        scale = max(scale, float(np.abs(D).max() * sol))
    return float(np.abs(res).max()), scale


def _check_initial_solve(case, ref, cap, a, b, tags):
    """The initial Darcy solve (unit mobility, so no degenerate weights) conserves mass to the
    precision of the linear solver, relative to the data."""
    first = cap.get("first_solution")
    if first is None or not np.all(np.isfinite(first)):
        return
    u0 = first[: ref.num_faces]
    f = ref.vol * (b - a).ravel("F")
    res = float(np.abs(ref.divergence() @ u0 - f).max())
    scale = float(np.abs(f).max() + np.abs(ref.divergence()).max() * np.abs(first).max())
    if res > _lin_tol(case["opt"]) * max(scale, 1e-300):
        raise Violation("initial-solve-mass-balance", f"the initial Darcy solve misses the mass balance by "
                        f"{res:.3e} (data scale {scale:.3e}, {case['opt']['formulation']}/"
                        f"{case['opt']['linear_solver']}, linear options {case['opt'].get('lso', 'tight')})", tags)


def _lin_tol(o):
    if o["linear_solver"] == "direct":
        return 1e-9
    # library defaults: relative 1e-6 per linear solve
    return 1e-7 if o.get("lso", "tight") == "tight" else 1e-3


def check_mass_balance(case):
    out, tags, a, b, g, wimg, ref = _run(case)
    d, info, cap, w1, _ = out
    sol = cap["solution"]
    u = sol[: ref.num_faces]
    if not np.all(np.isfinite(u)):
        return Outcome(False, _key(case), _labels(case, ("nonfinite",)), status="skipped")
    _check_initial_solve(case, ref, cap, a, b, tags)
    res, scale = _mass_residual(ref, u, a, b, cap["linmax"])
    if res > _lin_tol(case["opt"]) * max(scale, 1e-300):
        raise Violation("mass-balance", f"max |div u - vol (m2-m1)| = {res:.3e} (scale {scale:.3e}), "
                        f"{case['opt']['method']} {case['opt']['formulation']}/{case['opt']['linear_solver']}",
                        tags)
    return Outcome(_nontrivial(case, info), _key(case), _labels(case))


def _cost_matches(case, ref, u, d, wimg, tags, kind):
    cw = None if wimg is None else np.asarray(wimg.img, dtype=float)
    c, dens = wass.ref_cost(ref, u, case["opt"]["l1_mode"], cw)
    if not np.isfinite(d) or abs(c - d) > 1e-9 * max(abs(c), 1e-300) + 1e-13:
        raise Violation(kind, f"reported distance {d!r} but the transport cost of the returned flux is "
                        f"{c!r} ({case['opt']['method']}, {case['opt']['l1_mode']})", tags)
    return c, dens


def check_distance_is_cost(case):
    out, tags, a, b, g, wimg, ref = _run(case)
    d, info, cap, w1, _ = out
    u = cap["solution"][: ref.num_faces]
    if not np.all(np.isfinite(u)):
        if np.isfinite(d) and info["converged"]:
            raise Violation("nonfinite-converged", "non-finite flux reported as converged", tags)
        return Outcome(False, _key(case), _labels(case, ("nonfinite",)), status="skipped")
    _cost_matches(case, ref, u, float(d), wimg, tags, "distance-not-cost")
    # the library's own functional agrees with the independent evaluation
    own = float(w1.l1_dissipation(u))
    if abs(own - float(d)) > 1e-12 * max(abs(own), 1e-300):
        raise Violation("distance-not-own-cost", f"distance {d!r} vs l1_dissipation(flux) {own!r}", tags)
    if float(cap["distance"]) != float(d):
        raise Violation("distance-passthrough", "__call__ returns another distance than _solve", tags)
    return Outcome(_nontrivial(case, info), _key(case), _labels(case))


def check_aux_outputs(case):
    out, tags, a, b, g, wimg, ref = _run(case)
    d, info, cap, w1, _ = out
    sol = cap["solution"]
    nf, nc = ref.num_faces, ref.num_cells
    u = sol[:nf]
    p = sol[nf:nf + nc]
    if not np.all(np.isfinite(sol)):
        return Outcome(False, _key(case), _labels(case, ("nonfinite",)), status="skipped")
    shape = tuple(case["grid"]["shape"])
    flux = np.asarray(info["flux"])
    want = darsia.face_to_cell(g, u)
    if flux.shape != (*shape, len(shape)) or not np.array_equal(flux, want):
        raise Violation("aux-flux", "info['flux'] is not the cell reconstruction of the returned face flux", tags)
    # ... and that reconstruction is the cell-centre value of the lowest-order Raviart-Thomas field: per
    # axis the mean of the fluxes through the two opposite faces (harness's own face bookkeeping)
    own = wass.ref_cell_flux(ref, u)
    if not np.allclose(flux, own, rtol=1e-13, atol=1e-13 * np.abs(u).max()):
        k = np.unravel_index(int(np.argmax(np.abs(flux - own))), flux.shape)
        raise Violation("aux-flux-centre", f"info['flux']{list(k)} = {flux[k]!r}, mean of the opposite face fluxes "
                        f"is {own[k]!r}", tags)
    # cell reconstruction at the centre = mean of the two opposite face values (independent)
    _, dens_ref = wass.ref_cost(ref, u, case["opt"]["l1_mode"],
                                None if wimg is None else np.asarray(wimg.img, float))
    td = np.asarray(info["transport_density"])
    if td.shape != shape or not np.allclose(td, dens_ref, rtol=1e-10, atol=1e-13 * (1 + np.abs(dens_ref).max())):
        raise Violation("aux-density", "info['transport_density'] is not the density of the returned flux", tags)
    if abs(float(td.sum() * ref.vol) - float(d)) > 1e-10 * max(abs(float(d)), 1e-300) + 1e-13:
        raise Violation("aux-density-integral", f"integral of transport density {td.sum() * ref.vol!r} "
                        f"vs distance {d!r}", tags)
    pr = np.asarray(info["pressure"])
    if pr.shape != shape or not np.array_equal(pr.ravel("F"), p):
        raise Violation("aux-pressure", "info['pressure'] is not the pressure block of the solution", tags)
    pin = int(w1.constrained_cell_flat_index)
    if abs(p[pin]) > 1e-8 * max(1.0, np.abs(p).max()):
        raise Violation("aux-pressure-pin", f"pressure at the reference cell is {p[pin]!r} "
                        f"(max |p| = {np.abs(p).max():.3e})", tags)
    # the pressure belongs to this flux: with the flux equation W M u = D^T p (+ pinned cell, p_c = 0) of
    # the last linear solve, sum_cells p * vol * (m2 - m1) = u^T W M u > 0 for every non-zero transport
    f = ref.vol * (b - a).ravel("F")
    if np.any(f != 0) and np.any(u != 0) and not tags.get("degenerate_mobility") and case["opt"]["num_iter"] > 0:
        pf = float(p @ f)
        if not pf > 0:
            raise Violation("aux-pressure-sign", f"sum p * vol * (m2 - m1) = {pf!r} is not positive: the reported "
                            f"pressure is not the potential of the reported flux ({case['opt']['method']})", tags)
    wf = np.asarray(info["weighted_flux"])
    wantw = want if wimg is None else want * np.asarray(wimg.img, float)[..., None]
    if not np.allclose(wf, wantw, rtol=1e-14, atol=0):
        raise Violation("aux-weighted-flux", "weighted_flux != flux * weight", tags)
    md = np.asarray(info["mass_diff"])
    if not np.array_equal(md, b - a):
        raise Violation("aux-mass-diff", "mass_diff != destination - source", tags)
    return Outcome(_nontrivial(case, info), _key(case), _labels(case))


def _criteria_met(o, hist):
    """Re-evaluate the documented stopping inequalities on the last recorded iterate."""
    big = np.finfo(float).max
    tol = o["tol"] if o.get("tol") is not None else big
    tols = {"residual": tol, "increment": tol, "distance": tol}
    for name, val in (o.get("tols") or {}).items():
        tols[name] = val if val is not None else big
    t_res, t_inc, t_dist = tols["residual"], tols["increment"], tols["distance"]
    with np.errstate(all="ignore"):
        if o["method"] == "newton":
            r, f, dd = hist["residual"], hist["flux_increment"], hist["distance_increment"]
            if len(r) < 3:
                return False
            return bool(r[-1] < t_res * r[0] and f[-1] < t_inc * f[0] and dd[-1] < t_dist)
        r, f, dd, dist = (hist["mass_conservation_residual"], hist["aux_force_increment"],
                          hist["distance_increment"], hist["distance"])
        if len(r) < 3:
            return False
        return bool(f[-1] < t_inc * f[0] and dd[-1] / dist[-1] < t_dist and r[-1] < t_res)


def check_status_honest(case):
    out, tags, a, b, g, wimg, ref = _run(case)
    d, info, cap, w1, _ = out
    o = case["opt"]
    hist = info["convergence_history"]
    its = len(hist["distance"])
    conv = bool(info["converged"])
    if conv and not _criteria_met(o, hist):
        raise Violation("converged-without-criteria", f"converged=True after {its} recorded iterations "
                        f"(num_iter {o['num_iter']}) but the stopping inequalities do not hold on the last "
                        f"recorded iterate", tags)
    if conv and not np.all(np.isfinite(cap["solution"][: ref.num_faces])):
        raise Violation("nonfinite-converged", "non-finite flux reported as converged", tags)
    if conv and its >= o["num_iter"] and o["num_iter"] < 3:
        raise Violation("converged-too-early", f"converged with num_iter={o['num_iter']}", tags)
    # the recorded history is the history of the run: the distance increments are the differences of the
    # recorded distances (the stopping test reads them), and a run that was not stopped by a failure
    # returns its last recorded distance
    dist = np.asarray(hist["distance"], dtype=float)
    inc = np.asarray(hist["distance_increment"], dtype=float)
    if len(dist) >= 2 and len(inc) == len(dist) and np.all(np.isfinite(dist)):
        want = np.abs(np.diff(dist))
        bad = np.abs(inc[1:] - want) > 1e-12 * np.abs(dist).max()
        if np.any(bad):
            k = int(np.flatnonzero(bad)[0]) + 1
            raise Violation("history-distance-increment", f"iteration {k}: recorded distance increment {inc[k]!r}, "
                            f"recorded distances differ by {want[k - 1]!r} ({o['method']})", tags)
    if len(dist) and np.isfinite(d) and np.isfinite(dist[-1]) and abs(float(d) - dist[-1]) > 1e-12 * abs(float(d)):
        raise Violation("history-last-distance", f"returned distance {float(d)!r}, last recorded distance "
                        f"{dist[-1]!r}", tags)
    # the other two documented call forms of the same object report the same distance and flag
    nondet = o["formulation"] == "flux_reduced" and o["linear_solver"] in ("amg", "cg")  # open finding
    if np.isfinite(d) and not nondet:
        i1, i2 = cap["images"]
        rt = 0.0 if o["linear_solver"] == "direct" else 1e-9
        with warnings.catch_warnings():
            warnings.simplefilter("ignore")
            try:
                w1.options["return_info"] = False
                w1.options["return_status"] = True
                np.random.seed(12345)
                pair = w1(i1, i2)
                w1.options["return_status"] = False
                np.random.seed(12345)
                plain = w1(i1, i2)
            except Exception as e:  # noqa
                e.vf_tags = tags
                raise
        if not (isinstance(pair, tuple) and len(pair) == 2):
            raise Violation("return-status-form", f"return_status=True returned {type(pair).__name__}", tags)
        if isinstance(plain, tuple):
            raise Violation("return-plain-form", "the plain call form returned a tuple", tags)
        if bool(pair[1]) != conv:
            raise Violation("return-status-flag", f"return_status form reports converged={bool(pair[1])}, the info "
                            f"form of the same computation {conv}", tags)
        for name, val in (("return_status", pair[0]), ("plain", plain)):
            if abs(float(val) - float(d)) > rt * abs(float(d)):
                raise Violation("return-form-distance", f"{name} form returns {float(val)!r}, info form {float(d)!r}",
                                tags)
    return Outcome(_nontrivial(case, info), _key(case),
                   _labels(case, ("converged" if conv else "not-converged",
                                  "tol-split" if o.get("tols") else "tol-binding" if o.get("tol") else "tol-default")))


def check_fault_flagged(case):
    point = case.get("fault_point", "linear_solve")
    exc = case.get("fault_exc", "runtime")
    sticky = bool(case.get("fault_sticky"))
    out, tags, a, b, g, wimg, ref = _run(case, fault_at=case["fault_at"], fault_point=point, fault_exc=exc,
                                         sticky=sticky)
    tags = dict(tags, fault_at=int(case["fault_at"]), first_iteration=case["fault_at"] == 1, fault_point=point,
                fault_exc=exc, sticky=sticky)
    if out[0] == "escaped":
        if point == "linear_solve":
            # every linear solve after the initial one (call 0, never targeted) is an inner step of the
            # iteration or the closing pressure reconstruction: its failure must be flagged, not raised
            raise Violation(f"fault-escaped:{exc}", f"a {out[1]} raised by linear solve {case['fault_at']} "
                            f"({'persistent' if sticky else 'one-shot'}; {case['opt']['method']}, "
                            f"{case['opt']['num_iter']} iterations) left the call instead of being flagged", tags)
        if exc == "runtime":
            # reference behaviour for this very call: the plain RuntimeError variant is swallowed iff the
            # step lies inside the iteration; if so, any other Exception must be swallowed as well
            return Outcome(False, _key(case), _labels(case, ("fault-outside-iteration",)), status="skipped")
        ref_out = _run(case, fault_at=case["fault_at"], fault_point=point, fault_exc="runtime")[0]
        if ref_out[0] == "escaped":
            return Outcome(False, _key(case), _labels(case, ("fault-outside-iteration",)), status="skipped")
        raise Violation(f"fault-escaped:{exc}", f"a {out[1]} raised by an inner step ({point}, call "
                        f"{case['fault_at']}) left the call although the same failure raised as RuntimeError is "
                        f"handled and flagged", tags)
    d, info, cap, w1, st_ = out
    if not st_["fired"]:
        return Outcome(False, _key(case), _labels(case, ("fault-not-reached",)), status="skipped")
    its = len(info["convergence_history"]["distance"])
    which = ("first" if case["fault_at"] == 1 else "later") if point == "linear_solve" else point
    if bool(info["converged"]):
        raise Violation(f"fault-reported-converged", f"inner step ({point}, call {case['fault_at']}) failed "
                        f"during a run of {case['opt']['num_iter']} iterations but converged=True "
                        f"({case['opt']['method']})", tags)
    u = cap["solution"][: ref.num_faces]
    if not np.all(np.isfinite(u)):
        return Outcome(False, _key(case), _labels(case, ("nonfinite",)), status="skipped")
    res, scale = _mass_residual(ref, u, a, b, cap["linmax"])
    if res > _lin_tol(case["opt"]) * max(scale, 1e-300):
        raise Violation(f"fault-mass-balance:{which}", f"after a failure in iteration {case['fault_at'] - 1} the "
                        f"returned flux violates the mass balance by {res:.3e}", tags)
    _cost_matches(case, ref, u, float(d), wimg, tags, f"fault-distance-not-cost:{which}")
    if point == "linear_solve" and case["fault_at"] >= 2:
        # "still describes the last valid iterate": the same run limited to the iterations that
        # completed before the failure returns the same flux and the same distance
        ref_case = dict(case, opt=dict(case["opt"], num_iter=case["fault_at"] - 1))
        ref_out = _run(ref_case)[0]
        d_ref, info_ref, cap_ref = ref_out[0], ref_out[1], ref_out[2]
        u_ref = cap_ref["solution"][: ref.num_faces]
        rt = 0.0 if case["opt"]["linear_solver"] == "direct" else 1e-10
        if np.all(np.isfinite(u_ref)) and len(info_ref["convergence_history"]["distance"]) == case["fault_at"] - 1:
            if not np.allclose(u, u_ref, rtol=rt, atol=rt * (1 + np.abs(u_ref).max())) or \
                    abs(float(d) - float(d_ref)) > rt * (1 + abs(float(d_ref))):
                raise Violation("fault-not-last-valid-iterate", f"after a failure in iteration {case['fault_at'] - 1} "
                                f"the returned flux / distance ({float(d)!r}) differ from the run stopped after "
                                f"{case['fault_at'] - 1} iterations ({float(d_ref)!r}; max flux difference "
                                f"{np.abs(u - u_ref).max():.3e})", tags)
    if point == "linear_solve" and its != case["fault_at"] - 1:
        raise Violation("fault-history", f"{its} iterations recorded, failure was injected in iteration "
                        f"{case['fault_at'] - 1}", tags)
    return Outcome(True, _key(case) + [point, exc, sticky],
                   _labels(case, (f"fault-{which}", f"exc-{exc}", "fault-persistent" if sticky else "fault-one-shot")))


def enum_combos(tier):
    """Every (method, L1 mode, mobility mode, formulation) combination once on three small grids."""
    out = []
    k = 0
    for method in ("newton", "bregman", "bregman_adaptive"):
        for l1 in wass.L1_MODES:
            for mob in wass.MOBILITY_MODES:
                for form, solver in (("full", "direct"), ("flux_reduced", "direct"), ("pressure", "direct"),
                                     ("pressure", "amg"), ("flux_reduced", "cg")):
                    k += 1
                    for si, (shape, vox) in enumerate((([3, 4], [0.5, 0.25]), ([6], [0.3]),
                                                       ([2, 3, 2], [1.0, 0.5, 2.0]))):
                        if tier == "quick" and si != k % 3:
                            continue  # quick tier: the three grids take turns over the combinations
                        out.append({
                            "grid": {"shape": shape, "vox": vox, "vk": "mixed"},
                            "mass": {"kind": "dense", "pseed": k},
                            "weight": None if k % 4 else {"kind": "var", "pseed": k},
                            "opt": {"method": method, "l1_mode": l1, "mobility_mode": mob,
                                    "formulation": form, "linear_solver": solver, "aa_depth": 0,
                                    "aa_restart": None, "num_iter": 6, "tol": None, "L": None,
                                    "update_every": 2},
                        })
    # the library's *default* linear tolerances on data of small and large total mass: the defaults are
    # relative (CG) / a relative residual tolerance (AMG), so the mass balance must hold relative to the data
    for method in ("newton", "bregman"):
        for solver in ("amg", "cg"):
            for amp in (-14, -24, 12):
                for shape, vox in (([3, 4], [0.5, 0.25]), ([6], [0.3])):
                    k += 1
                    out.append({
                        "grid": {"shape": shape, "vox": vox, "vk": "mixed"},
                        "mass": {"kind": "dense", "pseed": k, "amp_exp": amp},
                        "weight": None,
                        "opt": {"method": method, "l1_mode": "RAVIART_THOMAS", "mobility_mode": "CELL_BASED",
                                "formulation": "pressure", "linear_solver": solver, "aa_depth": 0,
                                "aa_restart": None, "num_iter": 6, "tol": None, "L": None, "update_every": 2,
                                "lso": "default"},
                    })
    return out


def check_combo(case):
    """All un-faulted laws on one run (used for the exhaustive option matrix)."""
    out, tags, a, b, g, wimg, ref = _run(case)
    d, info, cap, w1, _ = out
    u = cap["solution"][: ref.num_faces]
    if not np.all(np.isfinite(u)):
        if info["converged"]:
            raise Violation("nonfinite-converged", "non-finite flux reported as converged", tags)
        return Outcome(False, _key(case), _labels(case, ("nonfinite",)), status="skipped")
    _check_initial_solve(case, ref, cap, a, b, tags)
    res, scale = _mass_residual(ref, u, a, b, cap["linmax"])
    if res > _lin_tol(case["opt"]) * max(scale, 1e-300):
        raise Violation("mass-balance", f"max |div u - f| = {res:.3e}", tags)
    _cost_matches(case, ref, u, float(d), wimg, tags, "distance-not-cost")
    if bool(info["converged"]) and not _criteria_met(case["opt"], info["convergence_history"]):
        raise Violation("converged-without-criteria", "converged without criteria", tags)
    return Outcome(True, _key(case), _labels(case), evals=3)


_RULE = ("Hypothesis draws grid (1-3-D, single-cell axes, unit / power-of-two / generic anisotropic "
         "voxels), equal-mass integer-valued pair (dense / compactly supported / single cell), method "
         "(Newton, Bregman, adaptive Bregman), L1 mode, mobility mode, formulation, back-end, Anderson "
         "depth/restart, iteration count, tolerances, L, optional positive cell weight; fault cases "
         "add a one-shot exception in the k-th inner linear solve; plus the full option matrix on three "
         "fixed grids; non-trivial = (>= 2 axes with >= 2 cells and >= 2 completed iterations) or a "
         "fault case; distinct = (shape, voxel class, mass class, method, l1, mobility, formulation, "
         "back-end, aa, weight, fault index, payload seed mod 50)")

_N = {"quick": 160, "thorough": 3000}
_SH = {"quick": 4, "thorough": 16}

PROP = Prop(
    pid="C04",
    level="fault_enumeration",
    rule=_RULE,
    assumptions=[
        "the flat solution is captured by wrapping the bound _solve on the instance; faults are injected "
        "by wrapping the bound linear_solve (no source hook)",
        "mass balance is evaluated with the harness's own incidence matrix; the cost with the harness's "
        "own RT0 interpolation and numpy Gauss-Legendre / corner / midpoint rules",
        "tolerances: 1e-9 relative (direct), 1e-7 (amg/cg with 1e-12 linear tolerances); PETSc ksp absent",
        "non-finite iterates (division by a zero flux norm in face/subcell mobility) are only required to "
        "be flagged non-converged",
    ],
    subs=[
        Sub("mass_balance", check_mass_balance, gen=lambda t: gen_run(t), n=_N, shards=_SH),
        Sub("distance_is_cost_of_flux", check_distance_is_cost, gen=lambda t: gen_run(t), n=_N, shards=_SH),
        Sub("aux_outputs", check_aux_outputs, gen=lambda t: gen_run(t), n=_N, shards=_SH),
        Sub("status_honest", check_status_honest, gen=gen_status, n=_N, shards=_SH),
        Sub("fault_flagged", check_fault_flagged, gen=lambda t: gen_run(t, fault=True),
            n={"quick": 240, "thorough": 5000}, shards={"quick": 6, "thorough": 16}),
        Sub("option_matrix", check_combo, enum=enum_combos, exhaustive=True,
            shards={"quick": 6, "thorough": 16}),
    ],
)
