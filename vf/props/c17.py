"""C17 - operations that return new objects do not modify their arguments.

Three logical sub-checks (see DESIGN "### C17"):

* ``registry_<group>`` - a fixed registry of call forms (one ``Form`` each, grouped only so that
  every root cause gets its own shrinking rounds); every call runs on Hypothesis-drawn operands
  with deep before/after snapshots of every argument and of ``np.random.get_state()``, a
  memory-sharing test of the result against the arguments and a behavioural aliasing test
  (the *result* is mutated through the documented in-place API, the arguments must not move).
* ``chains`` - random chains of up to five such calls on shared operands and on earlier results.
* ``arithmetic_agrees`` - image arithmetic / comparisons agree element-wise with numpy on the
  raw arrays for every documented scalar type.
"""
import datetime as _dt
import random as _pyrandom

import cv2
import numpy as np
from hypothesis import strategies as st

import darsia
from vf import gens
from vf.oracles import AXES, RefCS
from vf.runner import Outcome, Prop, Sub, Violation

# Safety net: a dead worker makes multiprocessing.Pool wait forever.  Cap the address space of
# this process tree (baseline ~0.8 GB) so that a runaway allocation in the code under test
# surfaces as a MemoryError (reported as a crash) instead of an OOM-killed worker.
try:
    import resource as _resource

    _soft, _hard = _resource.getrlimit(_resource.RLIMIT_AS)
    _cap = 12 * 2**30
    if _soft == _resource.RLIM_INFINITY or _soft > _cap:
        _resource.setrlimit(_resource.RLIMIT_AS, (_cap, _hard))
except (ImportError, ValueError, OSError):  # pragma: no cover
    pass

ALL_DTYPES = ("float64", "float32", "uint8", "uint16", "bool")
FLOATS = ("float64", "float32")
CVTYPES = ("float64", "float32", "uint8", "uint16")

# exceptions with which the code (or numpy / cv2 underneath it) rejects an operand combination
# it does not support.  A call that raises is fine for C17 as long as nothing was mutated.
UFUNC = TypeError  # numpy's UFuncTypeError (in-place op into a narrower dtype) derives from it
REJ = (ValueError, NotImplementedError, AssertionError)
REJ_T = REJ + (UFUNC,)
REJ_CV = REJ_T + (cv2.error,)


# =======================================================================================
# deep snapshots
# =======================================================================================

_ATOMS = (bool, int, str, bytes, type(None), _dt.datetime, _dt.timedelta, _dt.date, complex)


def _walk(o, p, out, depth=0):
    if depth > 7:
        out[p] = ("deep", type(o).__name__)
    elif isinstance(o, darsia.Image):
        out[p + "<class>"] = type(o).__name__
        for k, v in vars(o).items():
            _walk(v, f"{p}.{k}", out, depth + 1)
    elif isinstance(o, np.ndarray):
        if o.dtype == object:
            out[p + "<ndarray>"] = (type(o).__name__, "object", tuple(o.shape))
            for i, x in enumerate(o.ravel().tolist()):
                _walk(x, f"{p}[{i}]", out, depth + 1)
        else:
            out[p] = ("ndarray", type(o).__name__, str(o.dtype), tuple(o.shape), o.tobytes())
    elif isinstance(o, np.generic):
        out[p] = ("npscalar", str(o.dtype), o.tobytes())
    elif isinstance(o, float):
        out[p] = ("float", repr(o))
    elif isinstance(o, _ATOMS):
        out[p] = (type(o).__name__, o)
    elif isinstance(o, (np.dtype, type)):
        out[p] = ("type", str(o))
    elif isinstance(o, (list, tuple)):
        out[p + "<len>"] = (type(o).__name__, len(o))
        for i, x in enumerate(o):
            _walk(x, f"{p}[{i}]", out, depth + 1)
    elif isinstance(o, dict):
        out[p + "<keys>"] = ("dict", tuple(sorted(repr(k) for k in o)))
        for k, v in o.items():
            _walk(v, f"{p}[{k!r}]", out, depth + 1)
    elif isinstance(o, slice):
        for nm in ("start", "stop", "step"):
            _walk(getattr(o, nm), f"{p}.{nm}", out, depth + 1)
    elif hasattr(o, "__dict__") and not callable(o):
        out[p + "<class>"] = type(o).__name__
        for k, v in vars(o).items():
            _walk(v, f"{p}.{k}", out, depth + 1)
    else:
        out[p] = ("opaque", type(o).__name__)


def snap(o):
    """Flat {path: leaf} snapshot.  Never compares / hashes Image objects themselves."""
    out = {}
    _walk(o, "", out)
    return out


def _short(leaf):
    if leaf is None:
        return "<absent>"
    if leaf[0] == "ndarray":
        return f"{leaf[1]}[{leaf[2]}]{list(leaf[3])}"
    return repr(leaf[-1])[:60]


def snap_diff(before, after):
    """-> None or (field, description) of the first difference."""
    for p in before:
        if p not in after:
            return _field(p), f"{p or '<value>'}: {_short(before[p])} -> <gone>"
        if before[p] != after[p]:
            a, b = before[p], after[p]
            if a[0] == "ndarray" and b[0] == "ndarray" and a[1:4] == b[1:4]:
                x = np.frombuffer(a[4], dtype=np.uint8)
                y = np.frombuffer(b[4], dtype=np.uint8)
                return _field(p), f"{p or '<value>'}: {_short(a)} values changed ({int((x != y).sum())} bytes)"
            return _field(p), f"{p or '<value>'}: {_short(a)} -> {_short(b)}"
    for p in after:
        if p not in before:
            return _field(p), f"{p or '<value>'}: <absent> -> {_short(after[p])}"
    return None


def _field(path):
    s = path.lstrip(".")
    for i, ch in enumerate(s):
        if ch in ".[<":
            s = s[:i]
            break
    return s or "value"


def _arrays(o, p="", depth=0):
    """(path, ndarray) for every numeric array reachable from o."""
    if depth > 4:
        return
    if isinstance(o, darsia.Image):
        for k, v in vars(o).items():
            if isinstance(v, np.ndarray) and v.dtype != object:
                yield f"{p}.{k}", v
    elif isinstance(o, np.ndarray):
        if o.dtype != object:
            yield p, o
    elif isinstance(o, (list, tuple)):
        for i, x in enumerate(o):
            yield from _arrays(x, f"{p}[{i}]", depth + 1)
    elif isinstance(o, dict):
        for k, v in o.items():
            yield from _arrays(v, f"{p}[{k!r}]", depth + 1)


def _images(o, depth=0):
    if depth > 4:
        return
    if isinstance(o, darsia.Image):
        yield o
    elif isinstance(o, (list, tuple)):
        for x in o:
            yield from _images(x, depth + 1)
    elif isinstance(o, dict):
        for x in o.values():
            yield from _images(x, depth + 1)


def _shares(x, y):
    if x.size == 0 or y.size == 0 or not np.may_share_memory(x, y):
        return False
    try:
        return bool(np.shares_memory(x, y, max_work=10**6))
    except Exception:  # numpy.TooHardError: overlapping bounds, undecided -> do not claim
        return False


# =======================================================================================
# building operands
# =======================================================================================


def mk(spec, unit=False, positive=False, cls=None, **over):
    """Image from a gens spec.  unit: float payload scaled into [-1, 1] (skimage / cv2 range);
    positive: |payload| + 1/8."""
    sp = dict(spec)
    arr = gens.payload_array(gens.full_shape(sp), sp["dtype"], sp["pseed"], True)
    if arr.dtype.kind == "f":
        if positive:
            arr = np.abs(arr) + arr.dtype.type(0.125)
        if unit:
            arr = arr / arr.dtype.type(8.0) if positive else arr / arr.dtype.type(4.0)
    kw = gens.image_kwargs(sp)
    kw.update(over)
    cls = cls or _spec_class(sp)
    if cls is darsia.ScalarImage:
        kw.pop("scalar", None)
    if cls is darsia.OpticalImage:
        for k in ("scalar", "space_dim"):
            kw.pop(k, None)
        kw.setdefault("color_space", sp.get("color_space", "RGB"))
    return cls(arr, **kw)


def _spec_class(sp):
    """The image class a spec asks for (key 'cls', drawn by ``_specs``), as far as the payload admits it:
    ScalarImage needs scalar data, OpticalImage 2-D data with three components."""
    want = sp.get("cls", "Image")
    if want == "ScalarImage" and sp["payload"] == "scalar":
        return darsia.ScalarImage
    if want == "OpticalImage" and sp["dim"] == 2 and sp["payload"] == "vector" and sp["ncomp"] == 3:
        return darsia.OpticalImage
    return darsia.Image


def cls_label(a):
    """Evidence label: the class of the operand."""
    return (f"cls:{type(a).__name__}",) if isinstance(a, darsia.Image) else ()


def other(spec, k=1, dtype=None):
    sp = dict(spec, pseed=spec["pseed"] + k)
    if dtype is not None:
        sp["dtype"] = dtype
    return sp


def _with_class(t):
    sp, want, cs = dict(t[0]), t[1], t[2]
    if want == "OpticalImage" and sp["dim"] == 2 and sp["payload"] == "vector":
        sp["ncomp"] = 3  # a trichromatic payload, so that the request can be honoured
        sp["color_space"] = cs
    sp["cls"] = want
    return sp


def _specs(**kw):
    """gens.image_specs plus the class of the image ("random images of every kind"): the general Image,
    ScalarImage (scalar payloads) or OpticalImage (2-D three-component payloads)."""
    return st.tuples(gens.image_specs(**kw),
                     st.sampled_from(["Image", "Image", "ScalarImage", "OpticalImage"]),
                     st.sampled_from(["RGB", "BGR", "HSV"])).map(_with_class)


S_ANY = _specs(dtypes=ALL_DTYPES, max_nt=3, max_comp=3)
S_SERIES = _specs(dtypes=ALL_DTYPES, series=(True,), max_nt=4, max_comp=3)
S_SCALAR = _specs(dtypes=ALL_DTYPES, payloads=("scalar",), max_nt=3)
S_23 = _specs(dims=(2, 3), dtypes=("float64", "float32", "uint8"), max_nt=3, max_comp=3, min_extent=2)
S_2D = _specs(dims=(2,), dtypes=CVTYPES, max_nt=3, max_comp=3, min_extent=2)
S_2D_PLAIN = _specs(dims=(2,), dtypes=CVTYPES, payloads=("scalar", "vector"), series=(False,),
                    min_extent=4, max_extent={2: 10})
S_2D_SCALAR = _specs(dims=(2,), dtypes=FLOATS, payloads=("scalar",), series=(False,), min_extent=2)


@st.composite
def optical_specs(draw, dtypes=("uint8", "float32", "float64"), series=(False, True)):
    sp = draw(_specs(dims=(2,), dtypes=dtypes, payloads=("vector",), series=series, max_nt=3,
                     min_extent=2))
    sp["ncomp"] = 3
    sp["color_space"] = draw(st.sampled_from(["RGB", "BGR"]))
    return sp


def mk_optical(spec):
    return mk(spec, unit=True, positive=True, cls=darsia.OpticalImage,
              color_space=spec.get("color_space", "RGB"))


# =======================================================================================
# the engine
# =======================================================================================


class Call:
    def __init__(self, args, fn, tolerated=REJ, view_ok=False, identity_ok=False, labels=(), setup=None,
                 repeat=True):
        self.args = args  # role -> caller-owned object
        self.labels = tuple(labels)  # class labels of the operands (evidence only)
        # setup (optional): builds the *callee* (model, Resize, Geometry, ... object) from the caller-owned
        # arguments.  It runs inside the oracle, i.e. after the snapshots were taken, so that arguments a
        # constructor / configuration call writes into are seen; fn then receives the callee.  Without a
        # setup fn takes no argument.
        self.setup = setup
        self.fn = fn
        self.tolerated = tolerated
        self.view_ok = view_ok  # result may be a numpy view of an argument (extraction / wrapping)
        self.identity_ok = identity_ok  # result may be an argument itself
        self.repeat = repeat  # the identical call is issued a second time (same callee, same arguments)


class Form:
    def __init__(self, name, group, gen, build, weight=4):
        self.name, self.group, self.gen, self.build, self.weight = name, group, gen, build, weight


FORMS = {}


def F(name, group, gen, build, weight=4):
    assert name not in FORMS, name
    FORMS[name] = Form(name, group, gen, build, weight)


def _appendable(r):
    """A single image that ``r.append`` accepts (same geometry, later in time)."""
    if r.series:
        arr = r.img[..., 0] if r.scalar else r.img[..., 0, :]
    else:
        arr = r.img
    last_date = r.date[-1] if isinstance(r.date, list) else r.date
    last_time = r.time[-1] if isinstance(r.time, list) else r.time
    md = r.metadata()
    md.update(
        series=False,
        dimensions=[d for d in r.dimensions],
        origin=np.array(r.origin, dtype=float),
        date=None if last_date is None else last_date + _dt.timedelta(days=1),
        time=None if last_time is None else last_time + 1.0,
    )
    return type(r)(np.array(arr, copy=True), **md)


class Watch:
    """Snapshots of a set of named caller-owned objects."""

    def __init__(self, objs):
        self.objs = dict(objs)
        self.snaps = {k: snap(v) for k, v in self.objs.items()}

    def add(self, role, obj):
        self.objs[role] = obj
        self.snaps[role] = snap(obj)

    def changed(self, roles=None):
        """First (role, field, description) whose snapshot no longer matches; None if all match."""
        for role in (roles if roles is not None else self.objs):
            d = snap_diff(self.snaps[role], snap(self.objs[role]))
            if d is not None:
                return role, d[0], d[1]
        return None


def _rng_equal(a, b):
    return a[0] == b[0] and np.array_equal(a[1], b[1]) and tuple(a[2:]) == tuple(b[2:])


class _Globals:
    """The process-wide random state an operation must leave alone: numpy's legacy global generator
    and the generator of Python's ``random`` module."""

    def __init__(self):
        cv2.setRNGSeed(0)
        np.random.seed(20231)
        _pyrandom.seed(20231)
        self.np_state = np.random.get_state()
        self.py_state = _pyrandom.getstate()

    def changed(self):
        if not _rng_equal(self.np_state, np.random.get_state()):
            return "numpy", "the state of the global numpy RNG"
        if self.py_state != _pyrandom.getstate():
            return "python", "the state of Python's global random module"
        return None


def _invoke(call, callee):
    return call.fn(callee) if call.setup is not None else call.fn()


def execute(name, call, tags, watch=None):
    """Run one call with the full C17 oracle.  -> (result or None, status, labels)"""
    w = watch if watch is not None else Watch(call.args)
    roles = list(call.args)
    for r in roles:
        if r not in w.objs:
            w.add(r, call.args[r])
    g0 = _Globals()
    raised = None
    callee = None
    try:
        if call.setup is not None:
            callee = call.setup()
        res = _invoke(call, callee)
    except call.tolerated as e:
        raised = e
        res = None
    # 1. arguments exactly as they were (also when the call raised)
    ch = w.changed()
    if ch is not None:
        role, field, desc = ch
        how = f" (the call raised {type(raised).__name__})" if raised is not None else ""
        raise Violation(f"mutated:{name}:{role}", f"{name} changed its argument '{role}': {desc}{how}",
                        dict(tags, form=name, role=role, field=field))
    # 2. global random state untouched
    gch = g0.changed()
    if gch is not None:
        raise Violation(f"rng:{name}" if gch[0] == "numpy" else f"rng:{gch[0]}:{name}",
                        f"{name} changed {gch[1]}", dict(tags, form=name))
    if raised is not None:
        return None, "raised", (f"raised:{type(raised).__name__}",)
    labels = []
    # 3. the result is a new object that shares no pixel memory with an argument
    res_imgs = list(_images(res))
    for role, obj in call.args.items():
        for ri in res_imgs + ([res] if isinstance(res, np.ndarray) else []):
            if ri is obj and not call.identity_ok:
                raise Violation(f"returns-argument:{name}:{role}", f"{name} returned its argument "
                                f"{role} itself instead of a new object", dict(tags, form=name, role=role))
    shared = None
    for rp, ra in _arrays(res):
        for role, obj in call.args.items():
            for ap, aa in _arrays(obj):
                if _shares(ra, aa):
                    shared = (f"result{rp}", f"{role}{ap}")
    if shared is not None:
        if not (call.view_ok or call.identity_ok):
            raise Violation(f"shares-memory:{name}", f"{name}: {shared[0]} shares memory with the "
                            f"argument {shared[1]}", dict(tags, form=name))
        labels.append("result-is-view")
    # 4. repeatability: nothing the call could see has changed (arguments: step 1, global random state:
    #    step 2), so the identical call - same callee object, same arguments - must give the identical
    #    result.  A difference means the first call altered something it was handed that the snapshots
    #    do not reach (the callee's own parameters, nested / opaque members, module-level state).
    if call.repeat:
        first = snap(res)
        g1 = _Globals()
        try:
            res2 = _invoke(call, callee)
        except call.tolerated as e:
            raise Violation(f"not-repeatable:{name}", f"{name}: the first call returned, the identical second "
                            f"call (same object, same arguments) raised {type(e).__name__}: {e}",
                            dict(tags, form=name))
        d = snap_diff(first, snap(res2))
        if d is not None:
            raise Violation(f"not-repeatable:{name}", f"{name}: the identical second call (same object, same "
                            f"arguments, arguments verified unchanged) returned another result: {d[1]}",
                            dict(tags, form=name))
        ch = w.changed()
        if ch is not None:
            raise Violation(f"mutated:{name}:{ch[0]}", f"the second call of {name} changed its argument "
                            f"'{ch[0]}': {ch[2]}", dict(tags, form=name, role=ch[0], field=ch[1]))
        if g1.changed() is not None:
            raise Violation(f"rng:{name}", f"the second call of {name} changed {g1.changed()[1]}",
                            dict(tags, form=name))
        labels.append("repeated")
    # 5. behavioural aliasing: documented in-place API on the *result* must not reach an argument
    for k, r in enumerate(res_imgs[:3]):
        if any(r is o for o in w.objs.values()):
            continue
        if r.space_dim < 1 or r.img.size == 0 or len(r.dimensions) != r.space_dim:
            continue
        try:
            r.append(_appendable(r), offset=1.0)
        except (AssertionError, ValueError, TypeError, IndexError, AttributeError, NotImplementedError):
            labels.append("append-not-applicable")
            continue
        ch = w.changed()
        if ch is not None:
            raise Violation("aliased:append", f"after r = {name}, the in-place r.append(img, offset) "
                            f"changed the argument {ch[0]} of the call: {ch[2]}",
                            dict(tags, form=name, role=ch[0], field=ch[1]))
        r.update_metadata({"name": "changed"}, dimensions=[7.0] * r.space_dim)
        r.reset_origin()
        r.set_time([float(i) for i in range(r.time_num)])
        ch = w.changed()
        if ch is not None:
            raise Violation("aliased:update", f"after r = {name}, update_metadata / reset_origin / "
                            f"set_time on r changed the argument {ch[0]}: {ch[2]}",
                            dict(tags, form=name, role=ch[0], field=ch[1]))
        labels.append("alias-probed")
    return res, "ok", tuple(labels)


def spec_tags(sp):
    if not isinstance(sp, dict) or "dim" not in sp:
        return {}
    t = {"dim": sp["dim"], "dtype": sp["dtype"], "series": sp["series"], "payload": sp["payload"]}
    if _spec_class(sp) is not darsia.Image:
        t["cls"] = _spec_class(sp).__name__
    return t


def check_registry(case):
    form = FORMS[case["form"]]
    p = case["p"]
    call = form.build(p)
    tags = spec_tags(p.get("a"))
    res, status, labels = execute(form.name, call, tags)
    labs = (form.name,) + tuple(f"{form.name}|{x}" for x in labels if x.startswith("raised"))
    labs += tuple(x for x in labels if not x.startswith("raised"))
    labs += tuple(x if x.startswith("cls:") else f"{form.name}|{x}" for x in call.labels)
    if status == "raised":
        return Outcome(nontrivial=False, key=case, labels=labs, status="rejected")
    return Outcome(nontrivial=True, key=case, labels=labs, evals=1 + len(call.args))


def group_gen(group):
    names = []
    for f in FORMS.values():
        if f.group == group:
            names += [f.name] * f.weight
    assert names, group

    def g(tier):
        return st.sampled_from(names).flatmap(
            lambda n: st.fixed_dictionaries({"form": st.just(n), "p": FORMS[n].gen}))

    return g


def fd(**kw):
    return st.fixed_dictionaries(kw)


# =======================================================================================
# registry: arithmetic and comparisons
# =======================================================================================

SCALARS = {
    "float": lambda v: float(v), "int": lambda v: int(v), "np.float64": lambda v: np.float64(v),
    "np.float32": lambda v: np.float32(v), "np.int64": lambda v: np.int64(int(v)),
    "np.int32": lambda v: np.int32(int(v)),
}
G_PAIR = fd(a=S_ANY, bd=st.sampled_from(ALL_DTYPES), same=st.booleans())
S_MOSTLY_FLOAT = _specs(dtypes=("float64", "float32") * 3 + ("uint8", "uint16", "bool"),
                        max_nt=3, max_comp=3)
G_SCAL = fd(a=S_MOSTLY_FLOAT, v=st.sampled_from([0.0, 1.0, 2.0, 3.0, -1.0, 0.5, 2.5, -1.5]))


def _pair(p):
    a = mk(p["a"])
    b = mk(other(p["a"], 1, None if p["same"] else p["bd"]))
    return a, b


def _binary(op, tol=REJ_T):
    def build(p):
        a, b = _pair(p)
        return Call({"self": a, "other": b}, lambda: op(a, b), tol, labels=cls_label(a))
    return build


# comparisons build their result with zeros_like(mode="voxels"), which cannot hold a series
# (IndexError in the constructor); that crash is reported once, by arithmetic_agrees
REJ_CMP = REJ_T + (IndexError,)


CMP = {"lt": lambda a, b: a < b, "gt": lambda a, b: a > b, "eq": lambda a, b: a == b,
       "le": lambda a, b: a <= b, "ge": lambda a, b: a >= b}

F("add", "arithmetic", G_PAIR, _binary(lambda a, b: a + b))
F("sub", "arithmetic", G_PAIR, _binary(lambda a, b: a - b))
for _n, _op in CMP.items():
    F(f"cmp:{_n}:image", "arithmetic", G_PAIR, _binary(_op, REJ_CMP), weight=2)


def _scalar_form(stype, right, op=None):
    def build(p):
        a = mk(p["a"])
        v = p["v"] if stype in ("float", "np.float64", "np.float32") else float(int(p["v"]))
        s = SCALARS[stype](v)
        if op is not None:
            return Call({"self": a}, lambda: op(a, s), REJ_CMP, labels=cls_label(a))
        return Call({"self": a}, (lambda: s * a) if right else (lambda: a * s), REJ_T, labels=cls_label(a))
    return build


for _t in SCALARS:
    F(f"mul:{_t}", "arithmetic", G_SCAL, _scalar_form(_t, False),
      weight={"float": 3, "int": 3, "np.float64": 2}.get(_t, 1))
F("rmul:float", "arithmetic", G_SCAL, _scalar_form("float", True), weight=3)
F("rmul:int", "arithmetic", G_SCAL, _scalar_form("int", True), weight=3)
for _n, _op in CMP.items():
    F(f"cmp:{_n}:scalar", "arithmetic", G_SCAL, _scalar_form("float", False, _op), weight=2)

# =======================================================================================
# registry: copies, type / colour conversions, metadata, standard images
# =======================================================================================

G_A = fd(a=S_ANY)


def _unary(fn, tolerated=REJ_T, unit=False, labels=None, **kw):
    def build(p):
        a = mk(p["a"], unit=unit)
        labs = cls_label(a) + (tuple(labels(a, p)) if labels is not None else ())
        return Call({"self": a}, lambda: fn(a, p), tolerated, labels=labs, **kw)
    return build


F("copy", "conversion", G_A, _unary(lambda a, p: a.copy()))
ASTYPES = {"int": int, "float": float, "uint8": np.uint8, "uint16": np.uint16, "float16": np.float16,
           "float32": np.float32, "float64": np.float64, "bool": bool}
for _n, _t in ASTYPES.items():
    F(f"astype:{_n}", "conversion", G_A, _unary(lambda a, p, _t=_t: a.astype(_t)), weight=2)
F("astype:Image", "conversion", G_A, _unary(lambda a, p: a.astype(darsia.Image)))
F("astype:ScalarImage", "conversion", fd(a=S_SCALAR), _unary(lambda a, p: a.astype(darsia.ScalarImage)))
IMG_AS = {"bool": bool, "float": float, "float32": np.float32, "float64": np.float64, "int": int,
          "uint8": np.uint8, "uint16": np.uint16}
for _n, _t in IMG_AS.items():
    F(f"img_as:{_n}", "conversion", G_A, _unary(lambda a, p, _t=_t: a.img_as(_t), unit=True), weight=2)


def _optical(fn, tolerated=REJ_CV):
    def build(p):
        a = mk_optical(p["a"])
        return Call({"self": a}, lambda: fn(a, p), tolerated)
    return build


G_OPT = fd(a=optical_specs())
F("astype:OpticalImage", "conversion", G_OPT, _optical(lambda a, p: a.astype(darsia.OpticalImage)))
for _cs in ("RGB", "BGR", "HSV", "HLS", "LAB"):
    F(f"to_trichromatic:{_cs}", "conversion", G_OPT,
      _optical(lambda a, p, _cs=_cs: a.to_trichromatic(_cs, return_image=True)), weight=2)
for _k in ("gray", "red", "green", "blue", "hue", "saturation", "value"):
    F(f"to_monochromatic:{_k}", "conversion", G_OPT,
      _optical(lambda a, p, _k=_k: a.to_monochromatic(_k)), weight=2)
F("reset_origin(return_image=True)", "conversion", G_A,
  _unary(lambda a, p: a.reset_origin(return_image=True)))
F("metadata", "conversion", G_A, _unary(lambda a, p: a.metadata(), view_ok=True))
F("shape_metadata", "conversion", G_A, _unary(lambda a, p: a.shape_metadata(), view_ok=True))
G_LIKE = fd(a=S_ANY, dt=st.sampled_from([None, "bool", "float32", "uint8"]))


def _dt_of(p):
    return None if p["dt"] is None else np.dtype(p["dt"]).type


for _fn in ("zeros_like", "ones_like"):
    for _mode in ("shape", "voxels"):
        F(f"{_fn}:{_mode}", "conversion", G_LIKE,
          _unary(lambda a, p, _fn=_fn, _mode=_mode: getattr(darsia, _fn)(a, mode=_mode, dtype=_dt_of(p)),
                 REJ_CMP if _mode == "voxels" else REJ_T),
          weight=2)

# =======================================================================================
# registry: extraction
# =======================================================================================

F("time_slice", "extraction", fd(a=S_SERIES, i=st.integers(0, 3)),
  _unary(lambda a, p: a.time_slice(p["i"] % a.time_num), view_ok=True))
F("time_interval", "extraction", fd(a=S_SERIES, lo=st.integers(0, 3), n=st.integers(1, 4)),
  _unary(lambda a, p: a.time_interval(slice(p["lo"] % a.time_num, p["lo"] % a.time_num + p["n"])),
         view_ok=True))
F("slice:int-axis", "extraction", fd(a=S_23, ax=st.integers(0, 2), cut=st.integers(0, 8)),
  _unary(lambda a, p: a.slice(p["cut"] % a.img.shape[p["ax"] % a.space_dim], p["ax"] % a.space_dim),
         view_ok=True))


def _slice_named(p):
    """cut = Cartesian coordinate of the centre of voxel layer k along the named axis."""
    sp = p["a"]
    a = mk(sp)
    c = p["ax"] % sp["dim"]
    m = AXES[sp["dim"]][c][0]
    v = np.zeros(sp["dim"])
    v[m] = p["cut"] % sp["shape"][m] + 0.5
    cut = float(RefCS(sp["dim"], sp["shape"], sp["dimensions"], sp["origin"]).coordinate(v)[c])
    return Call({"self": a}, lambda: a.slice(cut, "xyz"[c]), REJ_T + (IndexError,), view_ok=True,
                labels=cls_label(a))


F("slice:named-axis", "extraction", fd(a=S_23, ax=st.integers(0, 2), cut=st.integers(0, 8)), _slice_named)

G_SUB = fd(a=_specs(dtypes=ALL_DTYPES, max_nt=3, max_comp=3, min_extent=2),
           lo=st.lists(st.integers(0, 40), min_size=3, max_size=3),
           n=st.lists(st.integers(1, 40), min_size=3, max_size=3), open=st.integers(0, 7))


def _box(a, p):
    lo, hi = [], []
    for d in range(a.space_dim):
        n = a.img.shape[d]
        l_ = p["lo"][d] % n
        lo.append(l_)
        hi.append(min(n, l_ + p["n"][d]))
    return lo, hi


def _sub_slices(p):
    a = mk(p["a"])
    lo, hi = _box(a, p)
    roi = tuple(slice(None if (p["open"] >> d) & 1 and lo[d] == 0 else lo[d], hi[d]) for d in range(a.space_dim))
    return Call({"self": a, "roi": roi}, lambda: a.subregion(roi), REJ, view_ok=True, labels=cls_label(a))


def _overhang(a, p, lo, hi):
    """ROIs given by corner points may stick out of the image (they are clipped)."""
    lo, hi = list(lo), list(hi)
    for d in range(a.space_dim):
        if (p["open"] >> d) & 1:
            lo[d] -= 1 + p["n"][d] % 3
        if (p["open"] >> (d + 1)) & 1:
            hi[d] += 1 + p["lo"][d] % 3
    return lo, hi


def _sub_voxels(p):
    a = mk(p["a"])
    lo, hi = _box(a, p)
    lo, hi = _overhang(a, p, lo, hi)
    roi = darsia.VoxelArray([lo, hi])
    return Call({"self": a, "roi": roi}, lambda: a.subregion(roi), REJ, view_ok=True, labels=cls_label(a))


def _sub_coords(p):
    a = mk(p["a"])
    lo, hi = _box(a, p)
    lo, hi = _overhang(a, p, lo, hi)
    sp = p["a"]
    ref = RefCS(sp["dim"], sp["shape"], sp["dimensions"], sp["origin"])
    pts = np.vstack([ref.coordinate(np.array(lo) + 0.5), ref.coordinate(np.array(hi) + 0.5)])
    roi = darsia.CoordinateArray(pts)
    return Call({"self": a, "roi": roi}, lambda: a.subregion(roi), REJ, view_ok=True, labels=cls_label(a))


F("subregion:slices", "extraction", G_SUB, _sub_slices)
F("subregion:VoxelArray", "extraction", G_SUB, _sub_voxels)
F("subregion:CoordinateArray", "extraction", G_SUB, _sub_coords)


def _patches(p):
    a = mk(p["a"])
    num = [1 + p["num"][d] % max(1, a.img.shape[d] // 2) for d in range(2)]
    kw = {} if p["ov"] == 0 else {"rel_overlap": p["ov"] / 4.0}
    return Call({"img": a, "num_patches": num},
                lambda: [list(row) for row in darsia.Patches(a, num, **kw).patches], REJ, view_ok=True)


F("Patches", "extraction", fd(a=S_2D_PLAIN, num=st.lists(st.integers(0, 3), min_size=2, max_size=2),
                              ov=st.integers(0, 2)), _patches, weight=2)


def _bbox(p):
    vox = darsia.VoxelArray(np.array(p["pts"], dtype=int))
    ms = None if p["ms"] is None else list(p["ms"])
    return Call({"voxels": vox, "max_size": ms}, lambda: darsia.bounding_box(vox, p["pad"], ms), REJ)


F("bounding_box", "extraction",
  fd(pts=st.lists(st.lists(st.integers(0, 30), min_size=2, max_size=2), min_size=1, max_size=5),
     pad=st.integers(0, 3), ms=st.one_of(st.none(), st.lists(st.integers(5, 40), min_size=2, max_size=2))),
  _bbox)


def _box_of(p):
    lo = [min(q[d] for q in p["pts"]) for d in range(2)]
    hi = [max(q[d] for q in p["pts"]) + 1 + p["pad"] for d in range(2)]
    return tuple(slice(lo[d], hi[d]) for d in range(2))


def _bbox_inverse(p):
    box = _box_of(p)
    return Call({"bounding_box": box}, lambda: darsia.bounding_box_inverse(box), REJ)


def _perimeter(p):
    """perimeter accepts a tuple of slices or an array of corner points (voxels or metric units)."""
    if p["ms"] is None:
        box = _box_of(p)
    else:
        box = np.array(p["pts"], dtype=float) * (p["ms"][0] / 8.0)
        if len(p["pts"]) % 2:
            box = darsia.VoxelArray(np.array(p["pts"], dtype=int))
    return Call({"box": box}, lambda: darsia.perimeter(box), REJ)


G_BOX = fd(pts=st.lists(st.lists(st.integers(0, 30), min_size=2, max_size=2), min_size=1, max_size=5),
           pad=st.integers(0, 3), ms=st.one_of(st.none(), st.lists(st.integers(5, 40), min_size=2, max_size=2)))
F("bounding_box_inverse", "extraction", G_BOX, _bbox_inverse, weight=1)
F("perimeter", "extraction", G_BOX, _perimeter, weight=1)


def _random_patches(p):
    rng = np.random.default_rng(p["pseed"])
    mask = rng.random((p["n"], p["m"])) < p["fill"]
    return Call({"mask": mask}, lambda: darsia.random_patches(mask, p["w"], p["k"]), REJ)


F("random_patches", "extraction",
  fd(n=st.integers(4, 14), m=st.integers(4, 14), w=st.integers(1, 3), k=st.integers(1, 6),
     fill=st.sampled_from([1.0, 0.7, 0.3]), pseed=st.integers(0, 2**16)), _random_patches)

# =======================================================================================
# registry: constructors with caller-owned containers, reading, grid overlay
# =======================================================================================

CLASSES = {"Image": darsia.Image, "ScalarImage": darsia.ScalarImage, "OpticalImage": darsia.OpticalImage}


@st.composite
def ctor_params(draw, extents):
    cls = draw(st.sampled_from(["Image", "Image", "ScalarImage", "OpticalImage"]))
    if cls == "OpticalImage":
        sp = draw(optical_specs(dtypes=("uint8", "float64")))
    elif cls == "ScalarImage":
        sp = draw(_specs(dtypes=ALL_DTYPES, payloads=("scalar",), max_nt=3))
    else:
        sp = draw(S_ANY)
    ext = {}
    if extents:
        names = ["height", "width", "depth"][: sp["dim"]]
        chosen = draw(st.lists(st.sampled_from(names), min_size=1, max_size=len(names), unique=True))
        for nme in sorted(chosen):
            ext[nme] = draw(st.sampled_from([5.0, 0.75, 2.0, 3]))
    return {"cls": cls, "a": sp, "ext": ext, "int_dims": draw(st.booleans()),
            "trafo": draw(st.booleans())}


def _ctor(p):
    sp = p["a"]
    cls = CLASSES[p["cls"]]
    arr = gens.payload_array(gens.full_shape(sp), sp["dtype"], sp["pseed"], True)
    kw = gens.image_kwargs(sp)
    if cls is not darsia.Image:
        kw.pop("scalar", None)
    if cls is darsia.OpticalImage:
        kw.pop("space_dim", None)
        kw["color_space"] = sp.get("color_space", "RGB")
    owned = {"img": arr}
    if p["int_dims"]:
        kw["dimensions"] = [int(np.ceil(d)) for d in kw["dimensions"]]
    for k in ("dimensions", "origin", "date", "time"):
        if isinstance(kw.get(k), list):
            owned[k] = kw[k]
    trafo = [None] if p["trafo"] else None
    if trafo is not None:
        owned["transformations"] = trafo
    kw.update(p["ext"])
    return Call(owned, lambda: cls(arr, trafo, **kw), REJ, view_ok=True)


F("ctor(dimensions)", "constructors", ctor_params(False), _ctor)
F("ctor(dimensions,height/width/depth)", "constructors", ctor_params(True), _ctor)


def _imread_bytes(p):
    rng = np.random.default_rng(p["pseed"])
    shape = (p["n"], p["m"]) if p["gray"] else (p["n"], p["m"], 3)
    arr = rng.integers(0, 256, size=shape).astype(np.uint8)
    ok, buf = cv2.imencode(".png", arr)
    data = buf.tobytes()
    dims = [float(p["n"]) / 4, float(p["m"]) / 2]
    kw = {"dimensions": dims}
    owned = {"data": data, "dimensions": dims}
    if not p["gray"]:
        kw["color_space"] = "RGB"
    if p["origin"]:
        kw["origin"] = [1.5, -2.0]
        owned["origin"] = kw["origin"]
    trafo = [None] if p["trafo"] else None
    if trafo is not None:
        owned["transformations"] = trafo
    return Call(owned, lambda: darsia.imread_from_bytes(data, trafo, **kw), REJ_CV)


F("imread_from_bytes", "constructors",
  fd(n=st.integers(1, 9), m=st.integers(1, 9), gray=st.booleans(), origin=st.booleans(),
     trafo=st.booleans(), pseed=st.integers(0, 2**16)), _imread_bytes)


def _add_grid(p):
    a = mk_optical(p["a"])
    owned = {"self": a}
    kw = {"dx": a.dimensions[1] / p["nx"], "dy": a.dimensions[0] / p["ny"], "thickness": p["th"]}
    if p["origin"] is not None:
        o = [float(a.origin[0]) + p["origin"][0] * kw["dx"], float(a.origin[1]) - p["origin"][1] * kw["dy"]]
        if p["as_array"]:
            o = np.array(o)
        kw["origin"] = o
        owned["origin"] = o
    color = (0, 0, 125) if a.img.dtype == np.uint8 else (0.0, 0.0, 0.5)
    return Call(owned, lambda: a.add_grid(color=color, **kw), REJ_CV)


F("add_grid", "constructors",
  fd(a=optical_specs(dtypes=("uint8", "float32", "float64"), series=(False,)), nx=st.integers(1, 4),
     ny=st.integers(1, 4), th=st.integers(1, 2), as_array=st.booleans(),
     origin=st.one_of(st.none(), st.lists(st.sampled_from([0.0, 0.5, 0.25]), min_size=2, max_size=2))),
  _add_grid, weight=2)

# =======================================================================================
# registry: weighting, superposition, stacking
# =======================================================================================


def _weight_scalar(conv):
    def build(p):
        a = mk(p["a"])
        s = conv(p["v"])
        return Call({"img": a}, lambda: darsia.weight(a, s), REJ_T, labels=cls_label(a))
    return build


F("weight:float", "composition", G_SCAL, _weight_scalar(float))
F("weight:int", "composition", G_SCAL, _weight_scalar(lambda v: int(v)))
F("weight:np.float64", "composition", G_SCAL, _weight_scalar(np.float64), weight=2)


def _weight_image(different):
    def build(p):
        sp = p["a"]
        a = mk(sp)
        wsp = dict(sp, payload="scalar", ncomp=0, series=False, nt=0, pseed=sp["pseed"] + 3,
                   dtype=p["wd"], time="none", name=None)
        if different:
            wsp["shape"] = [max(1, p["wshape"][d] % 12 + 1) for d in range(sp["dim"])]
            if wsp["shape"] == list(sp["shape"]):
                wsp["shape"][0] += 1
        w = mk(wsp, positive=True)
        return Call({"img": a, "weight": w}, lambda: darsia.weight(a, w), REJ_CV, labels=cls_label(a))
    return build


G_WIMG = fd(a=_specs(dims=(1, 2, 2, 2, 2, 3), dtypes=FLOATS + ("uint8",),
                     payloads=("scalar",) * 7 + ("vector",), series=(False,) * 7 + (True,), max_nt=3),
            wd=st.sampled_from(FLOATS), wshape=st.lists(st.integers(0, 11), min_size=3, max_size=3))
F("weight:image-same-resolution", "composition", G_WIMG, _weight_image(False))
F("weight:image-other-resolution", "composition", G_WIMG, _weight_image(True))


def _weight_array(p):
    a = mk(p["a"])
    rng = np.random.default_rng(p["a"]["pseed"] + 5)
    w = rng.integers(1, 9, size=a.img.shape[a.space_dim:]) / 4.0
    return Call({"img": a, "weight": w}, lambda: darsia.weight(a, w), REJ_T, labels=cls_label(a))


F("weight:ndarray", "composition",
  fd(a=_specs(dtypes=FLOATS, payloads=("vector", "scalar"), series=(True, True, False), max_nt=3)),
  _weight_array)


def _stack_dtypes(p):
    """Data type of every list element: the images of one list need not be typed alike (np.stack promotes).
    ``dts[k-1]`` = None keeps the type of the first image.  (Replay files written before carry no 'dts'.)"""
    sp = p["a"]
    dts = list(p.get("dts") or [])
    return [sp["dtype"]] + [(dts[k - 1] if k - 1 < len(dts) and dts[k - 1] is not None else sp["dtype"])
                            for k in range(1, p["n"])]


def _stack(p):
    sp = p["a"]
    imgs = []
    dtypes = _stack_dtypes(p)
    for k in range(p["n"]):
        s = dict(other(sp, 11 * k, dtypes[k]), series=False, nt=0, t0=sp["t0"] + k * max(1, sp["dt"]))
        if k == 0 and p["first_series"]:
            s = dict(s, series=True, nt=2, dt=1, t0=sp["t0"] - 2)
            if s["t0"] < 0:
                s["t0"] = 0
                sp = dict(sp, t0=2)
        imgs.append(mk(s))
    owned = {f"images[{k}]": im for k, im in enumerate(imgs)}
    owned["images"] = imgs
    mixed = len(set(dtypes)) > 1
    return Call(owned, lambda: darsia.stack(imgs), REJ,
                labels=cls_label(imgs[0]) + (("neutral:single-image-list",) if p["n"] == 1 else ())
                + (("mixed-dtypes",) if mixed else ("one-dtype",) if p["n"] > 1 else ())
                + (("mixed-dtypes:narrower-first",) if mixed and any(
                    np.promote_types(dtypes[0], d) != np.dtype(dtypes[0]) for d in dtypes[1:]) else ()))


F("stack", "composition",
  fd(a=_specs(dtypes=ALL_DTYPES, series=(False,)), n=st.integers(1, 4), first_series=st.booleans(),
     # every further image: the type of the first one (None) or any other type
     dts=st.lists(st.sampled_from((None, None, None) + ALL_DTYPES), min_size=3, max_size=3)),
  _stack)


def _superpose(p):
    sp = p["a"]
    cls = darsia.ScalarImage if p["scalar_cls"] else darsia.Image
    imgs = []
    for k in range(p["n"]):
        s = other(sp, 7 * k)
        if k > 0:
            sh = p["shift"][k - 1]
            vox = [s["dimensions"][i] / s["shape"][i] for i in range(2)]
            base = s["origin"] if s["origin"] is not None else [0.0, s["dimensions"][0]]
            s = dict(s, origin=[base[0] + sh[0] * vox[1], base[1] + sh[1] * vox[0]])
        imgs.append(mk(s, cls=cls, positive=True))
    owned = {f"images[{k}]": im for k, im in enumerate(imgs)}
    owned["images"] = imgs
    return Call(owned, lambda: darsia.superpose(imgs), REJ_CV)


F("superpose", "composition",
  fd(a=_specs(dims=(2,), dtypes=FLOATS, payloads=("scalar",), max_nt=2, min_extent=2,
              vox_kinds=("pow2", "unit")),
     n=st.integers(1, 3), scalar_cls=st.booleans(),
     shift=st.lists(st.lists(st.integers(-3, 3), min_size=2, max_size=2), min_size=2, max_size=2)),
  _superpose)

# =======================================================================================
# registry: resizing, refinement, dimension reduction
# =======================================================================================

INTERP = [None, "inter_area", "inter_linear", "inter_nearest"]
# neutral: the requested shape is the shape the image already has / both factors are 1 - there is
# nothing to resize, which is where an implementation is tempted to hand back its argument
G_RS = fd(a=S_2D, shape=st.lists(st.integers(1, 12), min_size=2, max_size=2),
          f=st.lists(st.sampled_from([0.5, 1.0, 2.0, 1.5]), min_size=2, max_size=2),
          interp=st.sampled_from(INTERP), cons=st.booleans(), dt=st.sampled_from([None, None, "float32"]),
          neutral=st.sampled_from([False, False, False, True]), as_list=st.booleans())


def _rs_shape(p):
    return list(p["a"]["shape"]) if p.get("neutral") else list(p["shape"])


def _rs_f(p):
    return [1.0, 1.0] if p.get("neutral") else p["f"]


def _rs_labels(a, p):
    return cls_label(a) + (("neutral:same-shape",) if p.get("neutral") else ())


def _resize_obj_shape(p):
    a = mk(p["a"])
    kw = {"resize conservative": True} if p["cons"] else {}
    shape = _rs_shape(p) if p.get("as_list") else tuple(_rs_shape(p))
    return Call({"img": a, "shape": shape}, lambda r: r(a), REJ_CV, labels=_rs_labels(a, p),
                setup=lambda: darsia.Resize(shape=shape, interpolation=p["interp"], dtype=_dt_of(p), **kw))


def _resize_obj_array(p):
    a = mk(p["a"]).img
    f = _rs_f(p)
    return Call({"img": a}, lambda r: r(a), REJ_CV, labels=_rs_labels(None, p),
                setup=lambda: darsia.Resize(fx=f[0], fy=f[1], interpolation=p["interp"], dtype=_dt_of(p)))


def _resize_obj_ref(p):
    a = mk(p["a"])
    ref = mk(dict(other(p["a"], 2), shape=_rs_shape(p), payload="scalar", ncomp=0, series=False, nt=0))
    return Call({"img": a, "ref_image": ref}, lambda r: r(a), REJ_CV, labels=_rs_labels(a, p),
                setup=lambda: darsia.Resize(ref_image=ref, interpolation=p["interp"]))


def _resize_obj_options(p):
    """The keyword-dictionary configuration of the class docstring (key + 'resize x', ...)."""
    a = mk(p["a"])
    f = _rs_f(p)
    key = "example " if p["cons"] else ""
    options = {key + "resize x": f[0], key + "resize y": f[1]}
    if p["interp"] is not None:
        options[key + "resize interpolation"] = p["interp"]
    if p["dt"] is not None:
        options[key + "resize dtype"] = _dt_of(p)
    return Call({"img": a, "options": options}, lambda r: r(a), REJ_CV, labels=_rs_labels(a, p),
                setup=lambda: darsia.Resize(key=key, **options))


def _resize_fn(p):
    a = mk(p["a"])
    f = _rs_f(p)
    return Call({"image": a}, lambda: darsia.resize(a, fx=f[0], fy=f[1], interpolation=p["interp"],
                                                    dtype=_dt_of(p)), REJ_CV, labels=_rs_labels(a, p))


def _resize_fn_shape(p):
    a = mk(p["a"])
    shape = _rs_shape(p) if p.get("as_list") else tuple(_rs_shape(p))
    return Call({"image": a, "shape": shape},
                lambda: darsia.resize(a, shape=shape, interpolation=p["interp"], dtype=_dt_of(p)), REJ_CV,
                labels=_rs_labels(a, p))


def _resize_fn_ref(p):
    a = mk(p["a"])
    ref = mk(dict(other(p["a"], 2), shape=_rs_shape(p)))
    return Call({"image": a, "ref_image": ref}, lambda: darsia.resize(a, ref_image=ref), REJ_CV,
                labels=_rs_labels(a, p))


F("Resize(shape)(image)", "resize", G_RS, _resize_obj_shape)
F("Resize(fx,fy)(array)", "resize", G_RS, _resize_obj_array)
F("Resize(ref_image)(image)", "resize", G_RS, _resize_obj_ref)
F("Resize(**options)(image)", "resize", G_RS, _resize_obj_options, weight=2)
F("resize(fx,fy)", "resize", G_RS, _resize_fn)
F("resize(shape)", "resize", G_RS, _resize_fn_shape, weight=2)
F("resize(ref_image)", "resize", G_RS, _resize_fn_ref)


def _equalize(p):
    a = mk(p["a"])
    vs = None if p["k"] == 0 else min(a.voxel_size) * p["k"] / 2.0
    kw = {} if p["interp"] is None else {"interpolation": p["interp"]}
    return Call({"image": a}, lambda: darsia.equalize_voxel_size(a, vs, **kw), REJ_CV, labels=cls_label(a))


@st.composite
def mild_2d_specs(draw):
    """2-D images whose voxel sides differ by a factor <= 4 (the equalised image stays small)."""
    sp = draw(_specs(dims=(2,), dtypes=CVTYPES, max_nt=3, max_comp=3, min_extent=2, vox_kinds=("unit",),
                     origin_kinds=("default",)))
    h = 2.0 ** draw(st.integers(-6, 6))
    r = draw(st.sampled_from([1.0, 2.0, 0.5, 4.0, 1.5]))
    sp["dimensions"] = [sp["shape"][0] * h, sp["shape"][1] * h * r]
    return sp


F("equalize_voxel_size", "resize", fd(a=mild_2d_specs(), k=st.integers(0, 3), interp=st.sampled_from(INTERP)),
  _equalize)
F("uniform_refinement", "resize",
  fd(a=_specs(dtypes=("float64", "float32", "uint8"), max_nt=3, max_comp=3, max_extent={1: 12, 2: 7, 3: 4}),
     lv=st.sampled_from([-2, -1, 0, 1, 2])),  # 0 levels: nothing to refine, still a new image
  _unary(lambda a, p: darsia.uniform_refinement(a, p["lv"]), REJ_T,
         labels=lambda a, p: ("neutral:levels=0",) if p["lv"] == 0 else ()))

G_RED = fd(a=S_23, ax=st.integers(0, 2), by_name=st.booleans(),
           mode=st.sampled_from(["average", "sum", "slice"]), idx=st.integers(0, 8))


def _red_args(a, p):
    ax = p["ax"] % a.space_dim
    axis = "xyz"[: a.space_dim][ax] if p["by_name"] else ax
    kw = {}
    if p["mode"] == "slice":
        kw["slice_idx"] = p["idx"] % min(a.img.shape[: a.space_dim])
    return axis, kw


def _reduce_fn(p):
    a = mk(p["a"])
    axis, kw = _red_args(a, p)
    return Call({"image": a}, lambda: darsia.reduce_axis(a, axis, p["mode"], **kw), REJ_T + (KeyError,),
                labels=cls_label(a))


def _reduce_obj(p):
    a = mk(p["a"])
    axis, kw = _red_args(a, p)
    return Call({"img": a}, lambda red: red(a), REJ_T, labels=cls_label(a),
                setup=lambda: darsia.AxisReduction(axis, a.space_dim, p["mode"], **kw))


F("reduce_axis", "resize", G_RED, _reduce_fn)
F("AxisReduction(...)(image)", "resize", G_RED, _reduce_obj)
F("extrude_along_axis", "resize",
  fd(a=_specs(dims=(2,), dtypes=ALL_DTYPES, max_nt=3, max_comp=3), h=st.sampled_from([1.0, 0.25, 3.0]),
     num=st.integers(1, 4)),
  _unary(lambda a, p: darsia.extrude_along_axis(a, p["h"], p["num"]), REJ_T))

# =======================================================================================
# registry: signal models, regularisation
# =======================================================================================

G_SIG = fd(a=_specs(dims=(1, 2, 2, 3), dtypes=FLOATS, max_nt=2, max_comp=3),
           lo=st.sampled_from([0.0, -1.0, 0.5]), hi=st.sampled_from([None, 1.0, 2.5]),
           s=st.sampled_from([2.0, 0.5, -1.5, 3.0]), o=st.sampled_from([0.0, 1.0, -0.25]))


def _model_array(make, tolerated=REJ_T, **ckw):
    def build(p):
        a = mk(p["a"]).img
        return Call({"signal": a}, lambda m: m(a), tolerated, setup=lambda: make(p), **ckw)
    return build


def _clip(p):
    kw = {"min value": p["lo"]}
    if p["hi"] is not None:
        kw["max value"] = p["hi"]
    return darsia.ClipModel(**kw)


F("ClipModel(array)", "models", G_SIG, _model_array(_clip))
F("ClipModel(image)", "models", G_SIG, _unary(lambda a, p: _clip(p)(a)))
F("ScalingModel(array)", "models", G_SIG, _model_array(lambda p: darsia.ScalingModel(scaling=p["s"])))
F("ScalingModel(identity)(array)", "models", G_SIG,
  _model_array(lambda p: darsia.ScalingModel(scaling=1.0), identity_ok=True), weight=1)
F("ScalingModel(image)", "models", G_SIG,
  _unary(lambda a, p: darsia.ScalingModel(scaling=p["s"])(a)), weight=2)

# Affine models over their whole parameter domain, *including the neutral elements* (scaling 1.0 and
# offset 0.0 are the defaults of LinearModel, so a default-constructed or offset-only calibrated model
# is the common case, and neutral parameters are where an implementation is tempted to skip a step and
# work on the caller's array), configured in every documented way: constructor keywords (given or left
# to their defaults), update(), update_model_parameters() with and without dofs.
LIN_VIA = ("ctor", "ctor-defaults", "update", "parameters:all", "parameters:dofs")
G_LIN = fd(a=_specs(dims=(1, 2, 2, 3), dtypes=FLOATS, max_nt=2, max_comp=3),
           lo=st.sampled_from([0.0, -1.0, 0.5]), hi=st.sampled_from([None, 1.0, 2.5]),
           # (way of configuration, scaling) is drawn as ONE choice from the full product, so that every way
           # meets every kind of scaling - neutral, positive, negative (signal models may flip the sign) -;
           # two independent draws leave whole combinations out of a quick run (Hypothesis mutates earlier
           # examples rather than sampling uniformly)
           cfg=st.sampled_from([[via, s_] for via in LIN_VIA for s_ in (1.0, 1.0, 2.0, 0.5, -1.5, -2.0)]),
           o=st.sampled_from([0.0, 1.0, -0.25, 0.25, -3.0]), key=st.sampled_from(["", "", "model "]))


def _affine_class(s, o):
    return ("unit-scaling" if s == 1.0 else "scaling" if s > 0 else "negative-scaling") + \
        ("+offset" if o != 0.0 else ",no-offset")


def _lin_cfg(p):
    """[via, scaling]; replay files written before the two were drawn as one choice carry them apart."""
    return p["cfg"] if "cfg" in p else [p["via"], p["s"]]


def _linear(p, owned):
    """-> factory of a LinearModel with scaling and way of configuration p['cfg'] = [via, scaling] and
    offset p['o'].  The arrays / lists handed to the configuration calls belong to the caller: they are created
    here and registered in ``owned``; the factory (constructor + configuration calls) runs inside the
    oracle, after the snapshots."""
    (via, s), o, key = _lin_cfg(p), p["o"], p["key"]
    if via == "ctor":
        return lambda: darsia.LinearModel(key, **{key + "scaling": s, key + "offset": o})
    if via == "ctor-defaults":  # keywords that equal the documented defaults are left out
        kw = {}
        if s != 1.0:
            kw[key + "scaling"] = s
        if o != 0.0:
            kw[key + "offset"] = o
        return lambda: darsia.LinearModel(key, **kw)
    if via == "update":
        def make():
            m = darsia.LinearModel()
            m.update(scaling=s, offset=o)
            return m
        return make
    if via == "parameters:all":
        par = np.array([s, o])
        owned["parameters"] = par

        def make():
            m = darsia.LinearModel()
            m.update_model_parameters(par, "all" if key else None)
            return m
        return make
    # one degree of freedom at a time, the way a calibration of a subset of the dofs does it
    ps, po, ds, do = np.array([s]), np.array([o]), ["scaling"], ["offset"]
    owned.update({"parameters(scaling)": ps, "parameters(offset)": po, "dofs(scaling)": ds,
                  "dofs(offset)": do})

    def make():
        m = darsia.LinearModel()
        m.update_model_parameters(ps, ds)
        m.update_model_parameters(po, do)
        return m
    return make


def _linear_array(combined):
    def build(p):
        a = mk(p["a"]).img
        owned = {"signal": a}
        make = _linear(p, owned)
        if combined:
            models = [make(), _clip(p)]  # caller-owned list handed to the constructor
            owned["models"] = models

            def setup():
                return darsia.CombinedModel(models)
        else:
            setup = make
        return Call(owned, lambda m: m(a), REJ_T,
                    labels=(_affine_class(_lin_cfg(p)[1], p["o"]), f"via:{_lin_cfg(p)[0]}",
                            f"via:{_lin_cfg(p)[0]}," + ("negative" if _lin_cfg(p)[1] < 0 else
                                                        "unit" if _lin_cfg(p)[1] == 1.0 else "positive")),
                    setup=setup)
    return build


F("LinearModel(array)", "models", G_LIN, _linear_array(False), weight=6)
F("CombinedModel(array)", "models", G_LIN, _linear_array(True))

G_LAB = fd(a=S_2D_SCALAR, nl=st.integers(1, 4), fine=st.booleans(), mask=st.booleans(),
           rf=st.booleans(), lo=st.sampled_from([0.0, -1.0, 0.5]), hi=st.sampled_from([None, 1.0, 2.5]),
           s=st.sampled_from([1.0, 2.0, 0.5, -1.5]), o=st.sampled_from([0.0, 1.0, -0.25]),
           per_label=st.booleans())


def _labels(p, shape):
    rng = np.random.default_rng(p["a"]["pseed"] + 17)
    lab = rng.integers(0, p["nl"], size=shape).astype(np.uint8)
    lab.flat[: p["nl"]] = np.arange(p["nl"], dtype=np.uint8)[: lab.size]
    return lab


def _het_linear(p):
    a = mk(p["a"]).img
    lab = _labels(p, a.shape)
    if p["fine"]:
        a = np.repeat(np.repeat(a, 2, axis=0), 2, axis=1)
    nl = len(np.unique(lab))
    if p["per_label"]:  # every other label keeps the neutral scaling / another offset
        scaling = [p["s"] if i % 2 == 0 else 1.0 for i in range(nl)]
        offset = [p["o"] if i % 2 == 0 else 0.25 for i in range(nl)]
    else:
        scaling, offset = [p["s"]] * nl, [p["o"]] * nl
    return Call({"signal": a, "labels": lab, "scaling": scaling, "offset": offset}, lambda m: m(a), REJ_CV,
                labels=(_affine_class(p["s"], p["o"]),),
                setup=lambda: darsia.HeterogeneousLinearModel(lab, scaling=scaling, offset=offset))


def _het_model(p):
    a = mk(p["a"]).img
    lab_img = darsia.Image(_labels(p, a.shape), dimensions=list(p["a"]["dimensions"]), scalar=True)
    return Call({"signal": a, "labels": lab_img}, lambda m: m(a), REJ_T + (IndexError,),
                labels=(_affine_class(p["s"], p["o"]),),
                setup=lambda: darsia.HeterogeneousModel(darsia.LinearModel(scaling=p["s"], offset=p["o"]),
                                                        lab_img))


def _static_hom(p):
    a = mk(p["a"]).img
    owned = {"signal": a}
    mask = None
    if p["mask"]:
        mask = np.random.default_rng(p["a"]["pseed"] + 3).random(a.shape) < 0.6
        owned["mask"] = mask
    return Call(owned, lambda m: m(a, mask), REJ_T,
                setup=lambda: darsia.StaticThresholdModel(p["lo"], p["hi"], return_float=p["rf"]))


def _static_het(p):
    a = mk(p["a"]).img
    lab = _labels(p, a.shape)
    nl = len(np.unique(lab))
    lo = [p["lo"] + 0.25 * i for i in range(nl)]
    hi = None if p["hi"] is None else [p["hi"] + 0.25 * i for i in range(nl)]
    owned = {"signal": a, "labels": lab, "threshold_lower": lo}
    if hi is not None:
        owned["threshold_upper"] = hi
    return Call(owned, lambda m: m(a), REJ_T,
                setup=lambda: darsia.StaticThresholdModel(lo, hi, labels=lab, return_float=p["rf"]))


F("HeterogeneousLinearModel(array)", "models", G_LAB, _het_linear, weight=2)
F("HeterogeneousModel(array)", "models", G_LAB, _het_model, weight=2)
F("StaticThresholdModel:homogeneous", "models", G_LAB, _static_hom)
F("StaticThresholdModel:heterogeneous", "models", G_LAB, _static_het)


class _NumpyGaussian(darsia.BaseKernel):
    """User-defined kernel on the documented BaseKernel interface (numpy linear_combination).
    The numba-parallel kernels shipped with darsia cannot run in the forked workers: the parent's
    `import darsia` already started numba's OpenMP pool, which terminates any forked child."""

    def __init__(self, gamma):
        self.gamma = np.float32(gamma)

    def __call__(self, x, y):
        return np.exp(-self.gamma * np.sum(np.multiply(x - y, x - y), axis=-1))


class _NumpyLinear(darsia.BaseKernel):
    def __init__(self, a):
        self.a = a

    def __call__(self, x, y):
        return np.sum(np.multiply(x, y), axis=-1) + self.a


def _kernel(p):
    rng = np.random.default_rng(p["pseed"])
    shape = {1: (p["n"], 3), 2: (p["n"], p["m"], 3)}[p["nd"]]
    sig = (rng.integers(0, 9, size=shape) / 8.0).astype(np.float32 if p["f32"] else np.float64)
    k = p["k"]
    supports = np.array([[0.1, 0.2, 0.9], [0.8, 0.1, 0.3], [0.4, 0.9, 0.5], [0.9, 0.9, 0.1]][:k])
    values = np.array([0.0, 1.0, 0.5, 0.25][:k])
    kernel = _NumpyGaussian(p["g"]) if p["gauss"] else _NumpyLinear(1.0)
    return Call({"signal": sig, "supports": supports, "values": values}, lambda m: m(sig), REJ_T,
                setup=lambda: darsia.KernelInterpolation(kernel, supports, values))


F("KernelInterpolation(array)", "models",
  fd(n=st.integers(1, 6), m=st.integers(1, 6), nd=st.sampled_from([1, 2]), f32=st.booleans(),
     k=st.integers(1, 4), g=st.sampled_from([0.5, 1.0, 4.0]), gauss=st.booleans(),
     pseed=st.integers(0, 2**16)), _kernel, weight=1)

G_TVD = fd(a=_specs(dims=(2,), dtypes=FLOATS, payloads=("scalar",), series=(False,), min_extent=3),
           w=st.sampled_from([0.1, 0.5]), it=st.integers(1, 4))
TVD_METHODS = {"chambolle": 3, "anisotropic bregman": 3, "isotropic bregman": 3, "heterogeneous bregman": 1}


def _tvd_obj(method, on_image):
    def build(p):
        a = mk(p["a"], unit=True)
        x = a if on_image else a.img
        # skimage's Chambolle solver hands back its input array when it stops after the first
        # sweep (max_num_iter=1): like ScalingModel(1.0) an identity, not a mutation.
        # The heterogeneous Bregman solver costs ~0.3 s per call; whether regularisers carry hidden state
        # from one call to the next is the subject of C16, so its call is not issued twice here.
        return Call({"img": x}, lambda t: t(x), REJ_T, view_ok=True, identity_ok=not on_image,
                    setup=lambda: darsia.TVD(method=method, weight=p["w"], max_num_iter=p["it"]),
                    repeat=method != "heterogeneous bregman")
    return build


for _m, _w in TVD_METHODS.items():
    F(f"TVD({_m})(image)", "models", G_TVD, _tvd_obj(_m, True), weight=_w)
    F(f"TVD({_m})(array)", "models", G_TVD, _tvd_obj(_m, False), weight=_w)
F("tvd(image)", "models", G_TVD,
  _unary(lambda a, p: darsia.tvd(a, weight=p["w"], max_num_iter=p["it"]), unit=True, view_ok=True), weight=2)

G_H1 = fd(a=_specs(dims=(2,), dtypes=FLOATS + ("uint8",), max_nt=2, max_comp=3, min_extent=2),
          mu=st.sampled_from([0.1, 1.0]), om=st.sampled_from([1.0, 0.5]))
F("H1_regularization(image)", "models", G_H1,
  _unary(lambda a, p: darsia.H1_regularization(a, p["mu"], p["om"]), unit=True))


def _h1_array(p):
    a = mk(p["a"], unit=True).img
    return Call({"img": a}, lambda: darsia.H1_regularization(a, p["mu"], p["om"]), REJ_T)


F("H1_regularization(array)", "models", G_H1, _h1_array)

# =======================================================================================
# registry: integration and distances
# =======================================================================================

G_GEO = fd(a=_specs(dims=(1, 2, 2, 2, 3), dtypes=FLOATS, max_nt=3, max_comp=2), weighted=st.booleans(),
           coarse=st.lists(st.integers(1, 6), min_size=3, max_size=3))


def _geometry(a, p, owned):
    """-> factory of the (weighted) geometry of image a.  What the constructor is handed belongs to the
    caller - the dictionary of ``a.shape_metadata()`` (its 'dimensions' entry is the image's own list;
    no defensive copy here) and the weight array -: it is registered in ``owned`` and the constructor
    runs inside the oracle, after the snapshots."""
    kw = a.shape_metadata()
    owned["image"] = a
    owned["shape_metadata"] = kw
    if p["weighted"] and a.img.ndim == a.space_dim:  # array weights broadcast only against plain data
        w = np.random.default_rng(p["a"]["pseed"] + 1).integers(1, 5, size=a.num_voxels) / 4.0
        owned["weight"] = w
        return lambda: darsia.WeightedGeometry(w, **kw)
    return lambda: darsia.Geometry(**kw)


def _integrate(kind):
    def build(p):
        a = mk(p["a"])
        owned = {}
        make = _geometry(a, p, owned)
        if kind == "image":
            data = a
        elif kind == "array":
            data = a.img
        else:
            shape = [p["coarse"][d] for d in range(a.space_dim)] + list(a.img.shape[a.space_dim:])
            data = np.random.default_rng(p["a"]["pseed"] + 2).integers(0, 9, size=shape) / 4.0
        owned["data"] = data
        return Call(owned, lambda g: g.integrate(data), REJ_CV, setup=make,
                    labels=cls_label(a) + (("weighted",) if "weight" in owned else ()))
    return build


F("Geometry.integrate(image)", "measures", G_GEO, _integrate("image"))
F("Geometry.integrate(array)", "measures", G_GEO, _integrate("array"))
F("Geometry.integrate(array-other-resolution)", "measures", G_GEO, _integrate("other"))


def _normalize(p):
    a = mk(p["a"], positive=True)
    ref = mk(other(p["a"], 1), positive=True)
    owned = {}
    make = _geometry(a, p, owned)
    owned.update({"img": a, "img_ref": ref})
    return Call(owned, lambda g: g.normalize(a, ref, p["ratio"]), REJ_T, setup=make,
                labels=cls_label(a) + (("weighted",) if "weight" in owned else ()))


F("Geometry.normalize", "measures",
  fd(a=_specs(dtypes=("float64", "float64", "float64", "float32"), payloads=("scalar",), max_nt=3),
     weighted=st.booleans(), coarse=st.just([1, 1, 1]), ratio=st.booleans()), _normalize)

G_EMD = fd(a=_specs(dims=(2,), dtypes=FLOATS, payloads=("scalar",), max_nt=2, min_extent=2,
                    max_extent={2: 6}, vox_kinds=("pow2", "unit")),
           pre=st.booleans(), flip=st.integers(0, 2))


def _mass_pair(p):
    a = mk(p["a"], positive=True)
    b = mk(p["a"], positive=True)
    ax = p["flip"] % 2
    b.img = np.ascontiguousarray(np.flip(b.img, axis=ax)) if p["flip"] < 2 else np.ascontiguousarray(
        np.flip(np.flip(b.img, 0), 1))
    return a, b


def _emd_pre(a, p):
    return darsia.Resize(shape=tuple(max(1, s // 2) for s in a.img.shape[:2]), interpolation="inter_area",
                         **{"resize conservative": True}) if p["pre"] else None


def _emd(p):
    a, b = _mass_pair(p)
    return Call({"img_1": a, "img_2": b}, lambda e: e(a, b), REJ_CV, setup=lambda: darsia.EMD(_emd_pre(a, p)))


F("EMD()", "measures", G_EMD, _emd)


def _emd_matrix(p):
    """EMD.distance_matrix on a caller-owned list of 2-3 images of equal mass (the flips of one image)."""
    a = mk(p["a"], positive=True)
    imgs = [a]
    for k in range(1 + p["flip"] % 2 + (1 if p["pre"] else 0))[:2]:
        b = mk(p["a"], positive=True)
        b.img = np.ascontiguousarray(np.flip(b.img, axis=k))
        imgs.append(b)
    owned = {f"images[{k}]": im for k, im in enumerate(imgs)}
    owned["images"] = imgs
    # the matrix already evaluates the same EMD object on up to three pairs: not issued twice
    return Call(owned, lambda e: e.distance_matrix(imgs), REJ_CV, setup=lambda: darsia.EMD(_emd_pre(a, p)),
                labels=(f"{len(imgs)}-images",), repeat=False)


F("EMD.distance_matrix", "measures", G_EMD, _emd_matrix, weight=2)


# The variational solvers (Newton, Bregman) take their whole configuration from a caller-owned, nested
# options dictionary ("linear_solver_options" and "amg_options" are dictionaries of their own) and an
# optional caller-owned weight image.  Every documented way of configuring the linear solver is drawn
# (the AMG-based solvers with and without user-defined AMG options in the pyamg interface), and weights of
# every size: ordinary, spanning orders of magnitude, and entries that need the documented
# "regularization" (below a user-defined regularization, denormal-small, exactly zero).
W1_AMG = [None, {"max_coarse": 50}, {"max_levels": 2, "max_coarse": 4},
          {"strength": "classical", "presmoother": ("gauss_seidel", {"sweep": "symmetric"})}]
# (linear_solver, formulation, index into W1_AMG); "full" is documented for the direct (and ksp) solver only
W1_SOLVERS = [("default", "default", 0), ("direct", "pressure", 0), ("direct", "full", 0),
              ("direct", "flux_reduced", 1), ("amg", "pressure", 0), ("amg", "pressure", 1),
              ("amg", "flux_reduced", 2), ("amg", "pressure", 3), ("cg", "pressure", 1),
              ("cg", "flux_reduced", 0), ("cg", "pressure", 2), ("cg", "flux_reduced", 3)]
W1_WEIGHTS = ["none", "ordinary", "wide-range", "small", "tiny", "zero"]
W1_REG = [None, 1e-3]
# one choice from the full product, so that a quick run meets every solver with every kind of weight
W1_CFG = [[i, wk, r] for i in range(len(W1_SOLVERS)) for wk in W1_WEIGHTS for r in (0, 1)]


def _w1_weight(p, wk):
    """Caller-owned weight image on the grid of the masses; values k/4 in [0.25, 2], then by kind of weight
    a third of the cells much smaller: 2**-10 .. 2**-4 ('wide-range'), 1e-4 ('small': below a user-defined
    regularization of 1e-3), 1e-20 ('tiny': below the default regularization) or exactly 0."""
    sp = p["a"]
    wsp = dict(sp, series=False, nt=0, time="none", pseed=sp["pseed"] + 9)
    w = mk(wsp, positive=True)
    if wk != "ordinary":
        rng = np.random.default_rng(sp["pseed"] + 10)
        low = rng.random(w.img.shape) < 0.35
        low.flat[int(rng.integers(0, low.size))] = True
        if wk == "wide-range":
            w.img[low] = 2.0 ** -rng.integers(4, 11, size=int(low.sum()))
        else:
            w.img[low] = {"small": 1e-4, "tiny": 1e-20, "zero": 0.0}[wk]
    return w


def _w1_options(p):
    """-> (options dictionary, labels).  Replay files written before the configuration was drawn carry
    only 'pre' (weighted or not)."""
    opts = {"num_iter": 2, "verbose": False}
    if "cfg" not in p:
        return opts, "ordinary" if p["pre"] else "none", ()
    i, wk, r = p["cfg"]
    solver, form, amg = W1_SOLVERS[i]
    if solver != "default":
        opts["linear_solver"] = solver
        opts["formulation"] = form
    if W1_AMG[amg] is not None:  # a fresh nested dictionary (with its nested tuples / dicts) per case
        opts["amg_options"] = {k: ((v[0], dict(v[1])) if isinstance(v, tuple) else v)
                               for k, v in W1_AMG[amg].items()}
    if p["lso"]:
        opts["linear_solver_options"] = {"atol": 1e-8, "rtol": 1e-8, "maxiter": 50}
    if W1_REG[r] is not None:
        opts["regularization"] = W1_REG[r]
    if p["extra"] == 1:
        opts.update({"L": 1.0, "lumping": True, "tol_residual": 1e-6})
    elif p["extra"] == 2:
        opts.update({"aa_depth": 2, "aa_restart": 2, "return_status": True})
    labs = (f"solver:{solver}", f"solver:{solver}," + ("user-amg-options" if W1_AMG[amg] is not None
                                                     else "default-amg-options"),
            f"formulation:{form}")
    if solver in ("amg", "cg") and W1_AMG[amg] is not None:
        labs += ("amg-solver+user-amg-options",)
    return opts, wk, labs


def _w1(method):
    def build(p):
        a, b = _mass_pair(p)
        owned = {"mass_1": a, "mass_2": b}
        kw = {}
        tol = REJ_CV
        labs = ()
        if method != "cv2.emd":
            opts, wk, labs = _w1_options(p)
            kw["options"] = opts
            owned["options"] = opts
            labs += (f"weight:{wk}",)
            if wk != "none":
                w = _w1_weight(p, wk)
                kw["weight"] = w
                owned["weight"] = w
                reg = opts.get("regularization", float(np.finfo(float).eps))
                if float(w.img.min()) < reg:
                    labs += ("weight-below-regularization",)
                if wk in ("zero", "tiny"):
                    # vanishing weights can make the linear system (numerically) singular, which the sparse
                    # direct solver rejects with a RuntimeError ("Factor is exactly singular"); the
                    # arguments must be intact all the same
                    tol = REJ_CV + (RuntimeError,)
        # the variational solvers cost ~0.15 s per call and their call-to-call state is the subject of
        # C16: only the cv2 form is issued twice
        if method != "cv2.emd" and p.get("api") == "class":
            # the solver classes behind the function: grid, weight and options handed to the constructor
            cls = {"newton": darsia.WassersteinDistanceNewton, "bregman": darsia.WassersteinDistanceBregman}[method]
            grid = darsia.generate_grid(a)
            owned["grid"] = grid
            return Call(owned, lambda w1: w1(a, b), tol, labels=labs + ("api:class",), repeat=False,
                        setup=lambda: cls(grid, kw.get("weight"), opts))
        return Call(owned, lambda: darsia.wasserstein_distance(a, b, method, **kw), tol,
                    labels=labs + (("api:function",) if method != "cv2.emd" else ()),
                    repeat=method == "cv2.emd")
    return build


F("wasserstein_distance(cv2.emd)", "measures", G_EMD, _w1("cv2.emd"))
G_W1 = fd(a=_specs(dims=(2,), dtypes=("float64",), payloads=("scalar",), series=(False,), min_extent=2,
                   max_extent={2: 5}, vox_kinds=("pow2", "unit")), flip=st.integers(0, 2),
          cfg=st.sampled_from(W1_CFG), lso=st.booleans(), extra=st.sampled_from([0, 0, 1, 2]),
          api=st.sampled_from(["function", "function", "class"]))
F("wasserstein_distance(bregman)", "measures", G_W1, _w1("bregman"), weight=2)
F("wasserstein_distance(newton)", "measures", G_W1, _w1("newton"), weight=2)

GROUPS = ["arithmetic", "conversion", "extraction", "constructors", "composition", "resize", "models",
          "measures"]
assert {f.group for f in FORMS.values()} == set(GROUPS)

# =======================================================================================
# chains
# =======================================================================================


def _is2d(x):
    return x.space_dim == 2


def _cvok(x):
    return x.space_dim == 2 and x.img.dtype.name in CVTYPES


def _flt(x):
    return x.img.dtype.kind == "f"


def _same(x, y):
    return x.img.shape == y.img.shape


def _plain2d(x):
    return x.space_dim == 2 and x.scalar and not x.series


def _superposable(x, y):
    """Both plain 2-D float images of one class, and a common canvas of bounded size (images whose
    origins lie far apart would make superpose allocate the whole gap)."""
    if not (_plain2d(x) and _plain2d(y) and _flt(x) and x.img.dtype == y.img.dtype and type(x) is type(y)
            and x.original_dtype == y.original_dtype and min(x.num_voxels + y.num_voxels) >= 2):
        return False
    corners = np.array([np.asarray(i.origin, dtype=float) for i in (x, y)]
                       + [np.asarray(i.opposite_corner, dtype=float) for i in (x, y)])
    ext = corners.max(axis=0) - corners.min(axis=0)  # Cartesian (x, y) extent of the union
    h = np.minimum(np.asarray(x.voxel_size, dtype=float), np.asarray(y.voxel_size, dtype=float))
    return bool(np.all(h > 0) and (ext[1] / h[0]) * (ext[0] / h[1]) <= 4096.0)


# name -> (arity, applicable(*imgs), fn(imgs, k) , tolerated)
CHAIN_OPS = {
    "add": (2, _same, lambda x, y, k: x + y, REJ_T),
    "sub": (2, _same, lambda x, y, k: x - y, REJ_T),
    "mul:float": (1, _flt, lambda x, k: x * (0.5 + k), REJ_T),
    "rmul:float": (1, _flt, lambda x, k: (0.5 + k) * x, REJ_T),
    # comparisons / "voxels" mode cannot hold a series (crash reported by arithmetic_agrees)
    "cmp:lt:image": (2, lambda x, y: _same(x, y) and not x.series, lambda x, y, k: x < y, REJ_T),
    "cmp:ge:scalar": (1, lambda x: not x.series, lambda x, k: x >= 0.5, REJ_T),
    "copy": (1, lambda x: True, lambda x, k: x.copy(), REJ),
    "astype:float32": (1, lambda x: True, lambda x, k: x.astype(np.float32), REJ),
    "astype:Image": (1, lambda x: True, lambda x, k: x.astype(darsia.Image), REJ),
    "time_slice": (1, lambda x: x.series, lambda x, k: x.time_slice(k % x.time_num), REJ),
    "time_interval": (1, lambda x: x.series,
                      lambda x, k: x.time_interval(slice(k % x.time_num, x.time_num)), REJ),
    "subregion:slices": (1, lambda x: all(n >= 2 for n in x.num_voxels),
                         lambda x, k: x.subregion(tuple(slice(k % 2, n) for n in x.num_voxels)), REJ),
    "reset_origin(return_image=True)": (1, lambda x: True, lambda x, k: x.reset_origin(return_image=True), REJ),
    "zeros_like:shape": (1, lambda x: True, lambda x, k: darsia.zeros_like(x), REJ),
    "ones_like:voxels": (1, lambda x: not x.series, lambda x, k: darsia.ones_like(x, mode="voxels"), REJ),
    "weight:float": (1, _flt, lambda x, k: darsia.weight(x, 1.5 + k), REJ_T),
    "weight:image": (2, lambda x, y: x.space_dim == y.space_dim and y.scalar and not y.series
                     and x.scalar and not x.series and _flt(x)
                     and (x.space_dim == 2 or _same(x, y)) and (_cvok(y) or _same(x, y)),
                     lambda x, y, k: darsia.weight(x, y), REJ_CV),
    "stack": (2, lambda x, y: not y.series and x.scalar == y.scalar and x.space_dim == y.space_dim
              and x.num_voxels == y.num_voxels and x.img.shape[x.space_dim + x.time_dim:] == y.img.shape[y.space_dim:],
              lambda x, y, k: darsia.stack([x, y]), REJ + (TypeError,)),
    "superpose": (2, _superposable, lambda x, y, k: darsia.superpose([x, y]), REJ_CV),
    "resize(fx,fy)": (1, _cvok, lambda x, k: darsia.resize(x, fx=0.5 * (k + 1), fy=2.0), REJ_CV),
    "uniform_refinement": (1, lambda x: x.img.dtype.kind in "fu" and max(x.num_voxels) <= 12,
                           lambda x, k: darsia.uniform_refinement(x, 1 if k % 2 else -1), REJ_T),
    "reduce_axis": (1, lambda x: x.space_dim >= 2 and _flt(x),
                    lambda x, k: darsia.reduce_axis(x, k % x.space_dim, "sum"), REJ_T),
    "extrude_along_axis": (1, _is2d, lambda x, k: darsia.extrude_along_axis(x, 2.0, 2), REJ),
    "ClipModel(image)": (1, lambda x: x.img.dtype.kind != "b",
                         lambda x, k: darsia.ClipModel(**{"min value": 0, "max value": 1})(x), REJ_T),
    "H1_regularization(image)": (1, lambda x: _is2d(x) and _flt(x),
                                 lambda x, k: darsia.H1_regularization(x, 0.5), REJ_T),
    "Geometry.integrate(image)": (1, _flt, lambda x, k: darsia.Geometry(**x.shape_metadata()).integrate(x), REJ_CV),
    "ctor(**metadata)": (1, lambda x: True, lambda x, k: type(x)(x.img, **x.metadata()), REJ),
    "ctor(**metadata,height/width)": (
        1, lambda x: x.space_dim >= 1 and len(x.dimensions) == x.space_dim,
        lambda x, k: type(x)(x.img, **x.metadata(), **({"height": 2.5} if k % 2 == 0 or x.space_dim < 2
                                                        else {"width": 0.75})), REJ),
}
CHAIN_NAMES = sorted(CHAIN_OPS)


def gen_chains(tier):
    step = fd(op=st.sampled_from(CHAIN_NAMES), i=st.integers(0, 7), j=st.integers(0, 7), k=st.integers(0, 3))
    return fd(a=_specs(dims=(1, 2, 2, 2, 3), dtypes=("float64", "float32", "float64", "uint8"),
                       max_nt=3, max_comp=3, max_extent={1: 12, 2: 8, 3: 4}),
              wshape=st.lists(st.integers(1, 9), min_size=3, max_size=3),
              steps=st.lists(step, min_size=1, max_size=5))


def check_chains(case):
    sp = case["a"]
    a = mk(sp)
    b = mk(other(sp, 1))
    wsp = dict(sp, payload="scalar", ncomp=0, series=False, nt=0, time="none", dtype="float64",
               shape=[case["wshape"][d] for d in range(sp["dim"])], pseed=sp["pseed"] + 2)
    w = mk(wsp, positive=True)
    pool = [("a", a), ("b", b), ("w", w)]
    watch = Watch(dict(pool))
    tags = spec_tags(sp)
    ran = 0
    labels = []
    for n, stp in enumerate(case["steps"]):
        arity, ok0, fn, tol = CHAIN_OPS[stp["op"]]

        def ok(*xs, _ok0=ok0):  # results of earlier steps may have grown: keep every operand small
            return all(x.img.size <= 50000 for x in xs) and _ok0(*xs)

        # first applicable operand tuple, scanning the pool cyclically from the drawn indices
        chosen = None
        L = len(pool)
        for di in range(L):
            x = pool[(stp["i"] + di) % L]
            if arity == 1:
                if ok(x[1]):
                    chosen = (x,)
                    break
            else:
                for dj in range(L):
                    y = pool[(stp["j"] + dj) % L]
                    if y[1] is not x[1] and ok(x[1], y[1]):
                        chosen = (x, y)
                        break
                if chosen:
                    break
        if chosen is None:
            labels.append("step-not-applicable")
            continue
        objs = [c[1] for c in chosen]
        roles = {c[0]: c[1] for c in chosen}
        call = Call(roles, lambda: fn(*objs, stp["k"]), tol, view_ok=True, identity_ok=False)
        t = dict(tags, step=n, chain=[s["op"] for s in case["steps"][: n + 1]])
        # run without the (destructive) behavioural probe: the result joins the pool instead
        res, status = _execute_plain(stp["op"], call, t, watch)
        labels.append(stp["op"])
        if status == "ok":
            ran += 1
            for r in list(_images(res))[:1]:
                if not any(r is o for _, o in pool):
                    name = f"r{n}"
                    pool.append((name, r))
                    watch.add(name, r)
    return Outcome(nontrivial=ran >= 2, key=case, labels=tuple(labels) + (f"len{ran}",), evals=max(1, ran))


def _execute_plain(name, call, tags, watch):
    roles = list(call.args)
    g0 = _Globals()
    raised = None
    try:
        res = call.fn()
    except call.tolerated as e:
        raised, res = e, None
    ch = watch.changed(roles)
    if ch is not None:
        raise Violation(f"mutated:{name}:{'xy'[roles.index(ch[0])]}",
                        f"step {tags['step']} ({name}) of the chain {tags['chain']} changed its operand "
                        f"{ch[0]}: {ch[2]}", dict(tags, form=name, role=ch[0], field=ch[1]))
    ch = watch.changed()
    if ch is not None:
        raise Violation(f"mutated-indirectly:{name}",
                        f"step {tags['step']} ({name}) of the chain {tags['chain']} changed {ch[0]}, which "
                        f"was not an operand of the call: {ch[2]}", dict(tags, form=name, role=ch[0], field=ch[1]))
    gch = g0.changed()
    if gch is not None:
        raise Violation(f"rng:{name}" if gch[0] == "numpy" else f"rng:{gch[0]}:{name}",
                        f"{name} changed {gch[1]}", dict(tags, form=name))
    if raised is not None:
        return None, "raised"
    for role, obj in call.args.items():
        for r in _images(res):
            if r is obj:
                raise Violation(f"returns-argument:{name}:{'xy'[roles.index(role)]}",
                                f"{name} returned its operand {role} itself", dict(tags, form=name, role=role))
    return res, "ok"


# =======================================================================================
# arithmetic agrees with numpy on the raw arrays
# =======================================================================================

# layout of the data array and its placement in space: what "element-wise on the raw arrays" presupposes
LAYOUT_KEYS = ("space_dim", "indexing", "dimensions", "origin", "series", "scalar")
# a scaled image is documented as "Scaling of image", i.e. the image itself with other values
META_KEYS = LAYOUT_KEYS + ("date", "time", "name")


def _same_meta(r, a, keys=META_KEYS):
    ra, aa = snap({k: getattr(r, k) for k in keys}), snap({k: getattr(a, k) for k in keys})
    return snap_diff(aa, ra)


def _np_try(f):
    try:
        return f(), None
    except TypeError as e:
        return None, e


def gen_arith(tier):
    return fd(a=S_ANY, bd=st.sampled_from(ALL_DTYPES), same=st.booleans(),
              st=st.sampled_from(sorted(SCALARS)),
              # scalars of every size: neutral (0, 1), order one, and far from the data's range
              v=st.sampled_from([0.0, 1.0, 2.0, 3.0, -1.0, 0.5, 2.5, -1.5, 255.0, -7.0, 0.001, 1e6]),
              cls=st.sampled_from(["Image", "Image", "ScalarImage", "OpticalImage"]),
              cs=st.sampled_from(["RGB", "BGR", "HSV"]))


def _expect_equal(kind, got, want, tags, what):
    if got.dtype != want.dtype or got.shape != want.shape:
        raise Violation(f"{kind}:dtype", f"{what}: result array {got.dtype}{list(got.shape)}, numpy gives "
                        f"{want.dtype}{list(want.shape)}", tags)
    if not np.array_equal(got, want):
        bad = tuple(np.argwhere(got != want)[0])
        raise Violation(f"{kind}:value", f"{what}: element {bad} is {got[bad]!r}, numpy gives {want[bad]!r}",
                        tags)


def check_arith(case):
    sp = dict(case["a"], cls=case["cls"])
    if case["cls"] == "OpticalImage" and sp["dim"] == 2 and sp["payload"] == "vector":
        sp["ncomp"] = 3
        sp["color_space"] = case["cs"]
    cls = _spec_class(sp)
    a = mk(sp, cls=cls)
    b = mk(other(sp, 1, None if case["same"] else case["bd"]), cls=cls)
    a0, b0 = a.img.copy(), b.img.copy()
    tags = dict(spec_tags(sp), other_dtype=str(b.img.dtype), scalar_type=case["st"])
    n = 0
    labels = []
    # --- image (+, -) image
    for nm, op in (("add", lambda x, y: x + y), ("sub", lambda x, y: x - y)):
        want, err = _np_try(lambda: op(a0, b0))
        try:
            r = op(a, b)
        except TypeError:
            if err is None:
                raise
            labels.append(f"{nm}:numpy-rejects")
            continue
        if err is not None:
            # numpy has no such operation on the raw arrays (bool - bool): there is nothing the image
            # operation could agree or disagree with, and nothing promises that it raises
            labels.append(f"{nm}:numpy-rejects-image-accepts")
            continue
        _expect_equal(nm, r.img, want, tags, f"a {nm} b")
        if type(r) is not type(a):
            raise Violation(f"{nm}:class", f"result is {type(r).__name__}, operand {type(a).__name__}", tags)
        if getattr(r, "color_space", None) != getattr(a, "color_space", None):
            raise Violation(f"{nm}:color_space", f"operands in {a.color_space}, result in {r.color_space}", tags)
        # which date / time / name a sum of two images carries is nowhere specified: only the layout
        # (shape interpretation and placement), which both operands share, is compared
        d = _same_meta(r, a, LAYOUT_KEYS)
        if d is not None:
            raise Violation(f"{nm}:metadata", f"result layout differs from the left operand: {d[1]}", tags)
        n += 1
    # --- scaling by every documented scalar type
    stype = case["st"]
    v = case["v"] if stype in ("float", "np.float64", "np.float32") else float(int(case["v"]))
    s = SCALARS[stype](v)
    documented = isinstance(s, (int, float))  # docstring: "scalar (float or int)"
    want = a0 * s
    holds = want.dtype == a0.dtype  # the implementation scales a copy in place
    for nm, f in (("mul", lambda: a * s), ("rmul", lambda: s * a)):
        if nm == "rmul" and not isinstance(s, (int, float)):
            continue  # numpy scalar on the left dispatches to numpy, not to Image.__rmul__
        try:
            r = f()
        except ValueError:
            if documented:
                raise Violation(f"{nm}:rejects:{stype}", f"image {nm} {stype}({v}) raises ValueError although "
                                f"the docstring documents 'float or int' scalars", tags)
            labels.append(f"{nm}:{stype}:rejected")
            continue
        except TypeError:
            if holds:
                raise
            labels.append(f"{nm}:inplace-cast-rejected")  # e.g. uint8 image * 2.5 (DESIGN note g)
            continue
        if not holds:
            labels.append(f"{nm}:promoting-not-compared")
            continue
        _expect_equal(f"{nm}:{stype}", r.img, want, tags, f"a * {stype}({v})")
        d = _same_meta(r, a)
        if d is not None:
            raise Violation(f"{nm}:metadata", f"result metadata differs from the operand: {d[1]}", tags)
        n += 1
    # --- comparisons
    for nm, op in CMP.items():
        for rhs_img, rhs_np, what in ((b, b0, "image"), (case["v"], case["v"], "float"),
                                      (int(case["v"]), int(case["v"]), "int")):
            try:
                r = op(a, rhs_img)
            except IndexError as e:
                if not sp["series"]:
                    raise
                raise Violation("cmp:series-crash", f"a {nm} {what} on a time series raises IndexError ({e}): "
                                "the result container is built with zeros_like(mode='voxels'), which passes "
                                "series=True metadata along with a purely spatial array", tags)
            want = op(a0, rhs_np)
            _expect_equal(f"cmp:{nm}", r.img, want, tags, f"a {nm} {what}")
            if r.img.shape != tuple(a.img.shape):
                raise Violation(f"cmp:{nm}:shape", "comparison result has another shape", tags)
            n += 1
    if not np.array_equal(a.img, a0) or not np.array_equal(b.img, b0):
        raise Violation("operand-changed", "arithmetic changed an operand array", tags)
    nontrivial = (not case["same"] and str(b0.dtype) != str(a0.dtype)) or sp["series"] or sp["payload"] == "vector" \
        or stype != "float"
    labels.append("scalar:far-from-data" if abs(case["v"]) > 4 or 0 < abs(case["v"]) < 0.125 else "scalar:order-one")
    return Outcome(nontrivial=nontrivial, key=case,
                   labels=tuple(labels) + cls_label(a) + (f"scalar:{stype}", f"dtype:{a0.dtype}"),
                   evals=max(1, n))


# =======================================================================================
# property
# =======================================================================================

_RULE = ("registry: one case = (call form, Hypothesis-drawn operands of every image kind: 1-3-D, scalar / "
         "vector, single / series, five dtypes, date / time metadata, default / user origin); deep snapshot "
         "of every argument (all attributes of images, array bytes+dtype+shape, caller-owned lists / dicts) "
         "and of np.random.get_state() / random.getstate() before vs after (constructor and configuration "
         "calls of the callee - model, Resize, Geometry, EMD object - run after the snapshots), result shares "
         "no memory with an argument, the identical call on the same callee and arguments gives the "
         "identical result (not for the variational solvers: C16), operands of every image class and "
         "neutral parameters (same shape, factor 1, 0 levels, one-image list) are drawn explicitly (views are "
         "admitted only for extraction / wrapping forms; affine signal models are drawn with their neutral / "
         "default parameters (scaling 1, offset 0) as often as with general ones and configured through the "
         "constructor, update() and update_model_parameters(); lists handed to stack hold images of mixed "
         "dtypes; the variational Wasserstein distances are called through the function and through the "
         "solver classes with every documented linear solver / formulation, nested caller-owned "
         "'amg_options' / 'linear_solver_options' dictionaries, a user-defined regularization and weight "
         "images from ordinary to vanishing entries), then the result is mutated through append / "
         "update_metadata / reset_origin / set_time and the arguments re-checked; non-trivial = the call "
         "returned (calls the code rejects are counted 'rejected'); chains: non-trivial = at least two "
         "executed calls; arithmetic: non-trivial = mixed dtypes, series / vector payload or a non-float "
         "scalar; distinct = the case")


# measured on an idle 16-core box the quick tier needs ~25 s wall (~5 min CPU incl. 19 worker
# start-ups); the budgets leave room for a machine shared with other checks
_BUDGET = {"quick": 600.0, "thorough": 3000.0}


def _reg_subs():
    # quick: ~300 cases per call form; thorough x15 (measured: 866 000 thorough cases took 17 min wall
    # on a box shared with other checks, hence x15 rather than the x30 of the design)
    n = {"arithmetic": (8000, 120000), "conversion": (14000, 210000), "extraction": (3400, 51000),
         "constructors": (1500, 22500), "composition": (2700, 40000), "resize": (3300, 50000),
         "models": (4000, 60000), "measures": (1800, 27000)}
    # the second (repeated) call costs ~15 % CPU overall, most of it in conversion and measures: one more
    # shard each keeps the wall time of the quick tier where it was
    # (measures: a fourth shard since the variational Wasserstein forms are drawn over their whole
    # configuration - linear solvers, AMG options, weights - at twice the former weight)
    sh = {"arithmetic": 2, "conversion": 4, "extraction": 1, "constructors": 1, "composition": 1,
          "resize": 1, "models": 3, "measures": 4}
    out = []
    for g in GROUPS:
        out.append(Sub(f"registry_{g}", check_registry, gen=group_gen(g),
                       n={"quick": n[g][0], "thorough": n[g][1]},
                       shards={"quick": sh[g], "thorough": 16}, budget_s=_BUDGET,
                       rule=f"{sum(1 for f in FORMS.values() if f.group == g)} call forms"))
    return out


PROP = Prop(
    pid="C17",
    rule=_RULE,
    assumptions=[
        "a call that raises one of the code's rejection exceptions (ValueError, NotImplementedError, "
        "AssertionError, numpy's in-place casting TypeError, cv2.error) is acceptable as long as no "
        "argument changed",
        "extraction methods (time_slice, time_interval, slice, subregion, Patches) and constructors may "
        "return numpy views of the pixel data they were given: nothing documents a copy; sharing of "
        "metadata containers is judged behaviourally (in-place API on the result must not reach an argument)",
        "numpy scalars other than np.float64 (a float subclass) are not 'float or int': a ValueError for them "
        "is counted as rejected, accepted ones must agree with numpy",
        "a*s is compared with numpy only where numpy's result dtype equals the image dtype (the "
        "implementation scales a copy in place)",
        "the operations are deterministic functions of their arguments: with every argument and the global "
        "random state verified unchanged, a second identical call must return the identical result; internal "
        "caches of the callee (Geometry's resized voxel volumes) are not inspected, only their effect on results",
        "a sum / difference of two images is required to have the layout (space_dim, indexing, dimensions, "
        "origin, series, scalar) and class of its operands; which date / time / name it carries is not specified",
    ],
    subs=_reg_subs() + [
        Sub("chains", check_chains, gen=gen_chains, n={"quick": 3000, "thorough": 40000},
            shards={"quick": 2, "thorough": 16}, budget_s=_BUDGET),
        Sub("arithmetic_agrees", check_arith, gen=gen_arith, n={"quick": 2000, "thorough": 30000},
            shards={"quick": 1, "thorough": 16}, budget_s=_BUDGET),
    ],
)
