"""C01 - voxel <-> physical coordinate conversion, for every image geometry."""
import itertools

import numpy as np
from hypothesis import strategies as st

import darsia
from vf import gens
from vf.oracles import AXES, RefCS
from vf.runner import Outcome, Prop, Sub, Violation

EPS = np.finfo(float).eps
HALO = 3


def gen(tier):
    return st.fixed_dictionaries({
        "img": gens.image_specs(
            dims=(1, 2, 3), max_extent={1: 40, 2: 9, 3: 5},
            dtypes=("float64", "uint8"), max_nt=3, max_comp=3),
        "tseed": st.integers(0, 2**16),
    })


def _setup(case):
    spec = case["img"]
    img = gens.build_image(spec, dyadic=True)
    ref = RefCS(spec["dim"], spec["shape"], spec["dimensions"], spec["origin"])
    return spec, img, ref


def _halo(spec, cap=600, seed=0):
    """All voxels of the image plus a halo of out-of-range indices (capped by sub-sampling)."""
    rngs = [range(-HALO, n + HALO) for n in spec["shape"]]
    pts = np.array(list(itertools.product(*rngs)), dtype=int)
    if len(pts) > cap:
        rng = np.random.default_rng(seed)
        keep = rng.choice(len(pts), cap, replace=False)
        pts = pts[np.sort(keep)]
    return pts


def _tags(spec):
    return {"dim": spec["dim"], "origin": "user" if spec["origin"] is not None else "default"}


def _key(spec, extra=()):
    return [spec["dim"], spec["shape"], spec["dimensions"], spec["origin"], spec["payload"],
            spec["series"], list(extra)]


def _labels(spec):
    return (f"dim{spec['dim']}", "origin-user" if spec["origin"] is not None else "origin-default",
            "thin" if 1 in spec["shape"] else "thick",
            f"payload-{spec['payload']}{'-series' if spec['series'] else ''}")


def _nontrivial(spec):
    return spec["dim"] >= 2 or spec["origin"] is not None or 1 in spec["shape"]


def _scale(ref, pts):
    """Magnitude of the numbers that entered o + s*v*h, per point and Cartesian axis."""
    p = np.atleast_2d(np.asarray(pts, dtype=float))
    out = np.empty_like(p)
    for c, (m, s) in enumerate(AXES[ref.dim]):
        out[:, c] = abs(ref.origin[c]) + np.abs(p[:, m]) * ref.h[m] + ref.h[m]
    return out


# ---- 1. origin / opposite corner ------------------------------------------------------


def check_origin_corner(case):
    spec, img, ref = _setup(case)
    cs = img.coordinatesystem
    t = _tags(spec)
    zero = [0] * spec["dim"]
    o = np.asarray(cs.coordinate(zero), dtype=float)
    if not np.array_equal(o, ref.origin) or not np.array_equal(np.asarray(img.origin, float), ref.origin):
        raise Violation("origin", f"coordinate(0)={o.tolist()} origin={ref.origin.tolist()}", t)
    opp = np.asarray(img.opposite_corner, dtype=float)
    for c, (m, s) in enumerate(AXES[spec["dim"]]):
        want = s * ref.dimensions[m]
        tol = 8 * EPS * (abs(ref.origin[c]) + abs(want))
        if abs((opp[c] - ref.origin[c]) - want) > tol:
            raise Violation("opposite", f"axis {c}: opposite-origin={opp[c]-ref.origin[c]!r}, "
                            f"dimension {want!r}", t)
    vs = np.asarray(img.voxel_size, dtype=float)
    if not np.allclose(vs, ref.h, rtol=4 * EPS, atol=0):
        raise Violation("voxel_size", f"{vs.tolist()} vs {ref.h}", t)
    return Outcome(_nontrivial(spec), _key(spec), _labels(spec))


# ---- 2. unit steps ---------------------------------------------------------------------


def check_unit_step(case):
    spec, img, ref = _setup(case)
    cs = img.coordinatesystem
    t = _tags(spec)
    dim = spec["dim"]
    pts = _halo(spec, 200, case["tseed"])
    base = np.asarray(cs.coordinate(pts), dtype=float)
    sc = _scale(ref, pts)
    for m in range(dim):
        e = np.zeros(dim, dtype=int)
        e[m] = 1
        step = np.asarray(cs.coordinate(pts + e), dtype=float) - base
        # which Cartesian axis moves
        cax = [c for c, (mm, s) in enumerate(AXES[dim]) if mm == m][0]
        sign = AXES[dim][cax][1]
        for c in range(dim):
            if c == cax:
                bad = np.abs(step[:, c] - sign * ref.h[m]) > 8 * EPS * sc[:, c]
                if bad.any():
                    i = int(np.argmax(bad))
                    raise Violation("step-size", f"matrix axis {m} at {pts[i].tolist()}: moved "
                                    f"Cartesian axis {c} by {step[i, c]!r}, expected "
                                    f"{sign * ref.h[m]!r}", t)
            elif np.any(step[:, c] != 0.0):
                i = int(np.argmax(step[:, c] != 0))
                raise Violation("step-axis", f"matrix axis {m} also moves Cartesian axis {c} "
                                f"(by {step[i, c]!r})", t)
    return Outcome(_nontrivial(spec), _key(spec), _labels(spec), evals=len(pts) * dim)


# ---- 3. reference map ------------------------------------------------------------------


def check_matches_reference(case):
    spec, img, ref = _setup(case)
    cs = img.coordinatesystem
    pts = _halo(spec, 600, case["tseed"])
    got = np.asarray(cs.coordinate(pts), dtype=float)
    want = ref.coordinate(pts)
    bad = np.abs(got - want) > 8 * EPS * _scale(ref, pts)
    if bad.any():
        i = int(np.argwhere(bad)[0][0])
        raise Violation("coordinate", f"voxel {pts[i].tolist()}: {got[i].tolist()} vs reference "
                        f"{want[i].tolist()}", _tags(spec))
    # all voxels / coordinates properties
    return Outcome(_nontrivial(spec), _key(spec), _labels(spec), evals=len(pts))


# ---- 4. interior points ----------------------------------------------------------------


def _interior_points(spec, ref, pts, tseed, stress):
    rng = np.random.default_rng(tseed)
    dim = spec["dim"]
    x_scale = _scale(ref, pts)
    # margin (in voxel units) that provably dominates the rounding of (x - o) / h
    delta = np.empty((len(pts), dim))
    for c, (m, s) in enumerate(AXES[dim]):
        delta[:, m] = np.maximum(1e-6, 64 * EPS * x_scale[:, c] / ref.h[m])
    ok = np.all(delta < 0.25, axis=1)
    kind = rng.integers(0, 4, size=(len(pts), dim))
    u = rng.random((len(pts), dim))
    t = delta + u * (1 - 2 * delta)
    t = np.where(kind == 0, 0.5, t)
    if stress:
        t = np.where(kind == 1, delta, t)
        t = np.where(kind == 2, 1 - delta, t)
    return ref.coordinate(pts + t), ok, t


def check_interior_roundtrip(case):
    spec, img, ref = _setup(case)
    cs = img.coordinatesystem
    pts = _halo(spec, 600, case["tseed"])
    x, ok, t = _interior_points(spec, ref, pts, case["tseed"], stress=True)
    got = np.asarray(cs.voxel(x))
    if got.dtype.kind not in "iu":
        raise Violation("voxel-dtype", f"voxel() returned dtype {got.dtype}", _tags(spec))
    bad = np.any(got != pts, axis=1) & ok
    if bad.any():
        i = int(np.argmax(bad))
        tg = _tags(spec)
        tg["outside"] = bool(np.any(pts[i] < 0) or np.any(pts[i] >= np.array(spec["shape"])))
        raise Violation("roundtrip", f"point {x[i].tolist()} (voxel {pts[i].tolist()} + "
                        f"{t[i].tolist()}) -> {got[i].tolist()}", tg)
    # single-point call forms: list, tuple not accepted by voxel(); array and Coordinate are
    for i in range(0, len(pts), max(1, len(pts) // 7)):
        if not ok[i]:
            continue
        for form in (list(map(float, x[i])), np.array(x[i]), darsia.Coordinate(x[i])):
            g = np.asarray(cs.voxel(form))
            if g.shape != (spec["dim"],) or np.any(g != pts[i]):
                raise Violation("roundtrip-single", f"{type(form).__name__} {x[i].tolist()} -> "
                                f"{g.tolist()}, expected {pts[i].tolist()}", _tags(spec))
    return Outcome(_nontrivial(spec), _key(spec), _labels(spec), evals=int(ok.sum()))


# ---- 5. batch == single -----------------------------------------------------------------


def check_batch_single(case):
    spec, img, ref = _setup(case)
    cs = img.coordinatesystem
    t = _tags(spec)
    pts = _halo(spec, 40, case["tseed"])
    x, ok, _ = _interior_points(spec, ref, pts, case["tseed"], stress=False)
    batch_c = cs.coordinate(pts)
    if not isinstance(batch_c, darsia.CoordinateArray):
        raise Violation("type", f"coordinate(2-D array) returned {type(batch_c).__name__}", t)
    batch_v = cs.voxel(x)
    if not isinstance(batch_v, darsia.VoxelArray):
        raise Violation("type", f"voxel(2-D array) returned {type(batch_v).__name__}", t)
    batch_c = np.asarray(batch_c)
    batch_v = np.asarray(batch_v)
    forms_c = {
        "VoxelArray": cs.coordinate(darsia.VoxelArray(pts)),
        "make_voxel": cs.coordinate(darsia.make_voxel(pts)),
        "list": cs.coordinate(pts.tolist()),
    }
    for name, val in forms_c.items():
        if not np.array_equal(np.asarray(val), batch_c):
            raise Violation("batch-form", f"coordinate({name}) differs from coordinate(array)", t)
    v2 = cs.voxel(darsia.CoordinateArray(x))
    if not np.array_equal(np.asarray(v2), batch_v):
        raise Violation("batch-form", "voxel(CoordinateArray) differs from voxel(array)", t)
    # a batch stays a batch whatever its length: sub-batches of 1 and 2 rows are the first rows of the
    # full batch, with the (rows, dim) shape and the array type of a batch
    for k in (1, 2):
        sub_c = {"array": cs.coordinate(pts[:k]), "list": cs.coordinate(pts[:k].tolist()),
                 "VoxelArray": cs.coordinate(darsia.VoxelArray(pts[:k])),
                 "VoxelArray.to_coordinate": darsia.VoxelArray(pts[:k]).to_coordinate(cs)}
        for name, val in sub_c.items():
            if not isinstance(val, darsia.CoordinateArray) or np.asarray(val).shape != (k, spec["dim"]):
                raise Violation("small-batch-shape", f"coordinate({name} with {k} row(s)) returned "
                                f"{type(val).__name__} of shape {np.asarray(val).shape}", t)
            if not np.array_equal(np.asarray(val), batch_c[:k]):
                raise Violation("small-batch-value", f"coordinate({name} with {k} row(s)) differs from the first "
                                f"rows of the full batch", t)
        sub_v = {"array": cs.voxel(x[:k]), "list": cs.voxel(x[:k].tolist()),
                 "CoordinateArray": cs.voxel(darsia.CoordinateArray(x[:k])),
                 "CoordinateArray.to_voxel": darsia.CoordinateArray(x[:k]).to_voxel(cs)}
        for name, val in sub_v.items():
            if not isinstance(val, darsia.VoxelArray) or np.asarray(val).shape != (k, spec["dim"]):
                raise Violation("small-batch-shape", f"voxel({name} with {k} row(s)) returned "
                                f"{type(val).__name__} of shape {np.asarray(val).shape}", t)
            if not np.array_equal(np.asarray(val), batch_v[:k]):
                raise Violation("small-batch-value", f"voxel({name} with {k} row(s)) differs from the first rows "
                                f"of the full batch", t)
    # the image's own voxel / coordinate tables are batches over all voxels (also for one-voxel images)
    nvox = int(np.prod(spec["shape"]))
    if nvox <= 4096:
        cs2 = _setup(case)[1].coordinatesystem  # fresh object: the tables are cached on first use
        allv, allc = cs2.voxels, cs2.coordinates
        if (not isinstance(allv, darsia.VoxelArray) or np.asarray(allv).shape != (nvox, spec["dim"])
                or not isinstance(allc, darsia.CoordinateArray) or np.asarray(allc).shape != (nvox, spec["dim"])):
            raise Violation("table-shape", f"voxels/coordinates tables: {type(allv).__name__}"
                            f"{np.asarray(allv).shape} / {type(allc).__name__}{np.asarray(allc).shape} for "
                            f"{nvox} voxels", t)
        want = ref.coordinate(np.asarray(allv))
        if np.any(np.abs(np.asarray(allc) - want) > 8 * EPS * _scale(ref, np.asarray(allv))):
            raise Violation("table-value", "coordinates table differs from the reference map of the voxels table", t)
    for i in range(len(pts)):
        for form in (pts[i].tolist(), tuple(pts[i].tolist()), pts[i], darsia.Voxel(pts[i])):
            single = cs.coordinate(form)
            if not isinstance(single, darsia.Coordinate) or isinstance(single, darsia.CoordinateArray):
                raise Violation("type", f"coordinate(single {type(form).__name__}) returned "
                                f"{type(single).__name__}", t)
            if np.asarray(single).shape != (spec["dim"],) or not np.array_equal(np.asarray(single), batch_c[i]):
                raise Violation("batch-vs-single", f"coordinate({pts[i].tolist()}) single "
                                f"{np.asarray(single).tolist()} vs batch row {batch_c[i].tolist()}", t)
        sv = cs.voxel(x[i])
        if not isinstance(sv, darsia.Voxel) or isinstance(sv, darsia.VoxelArray):
            raise Violation("type", f"voxel(single) returned {type(sv).__name__}", t)
        if not np.array_equal(np.asarray(sv), batch_v[i]):
            raise Violation("batch-vs-single", f"voxel({x[i].tolist()}) single "
                            f"{np.asarray(sv).tolist()} vs batch row {batch_v[i].tolist()}", t)
    return Outcome(_nontrivial(spec), _key(spec), _labels(spec), evals=len(pts))


# ---- 6. typed point objects -------------------------------------------------------------


def check_typed_points(case):
    spec, img, ref = _setup(case)
    cs = img.coordinatesystem
    pts = _halo(spec, 60, case["tseed"])
    x, ok, _ = _interior_points(spec, ref, pts, case["tseed"], stress=False)
    want_c = ref.coordinate(pts)
    want_cc = ref.coordinate(pts + 0.5)
    tolc = 8 * EPS * _scale(ref, pts)

    def fail(kind, i, msg):
        tg = _tags(spec)
        neg = bool(np.any(pts[i] < 0)) if i is not None else bool(np.any(pts < 0))
        tg["negative"] = neg
        raise Violation(kind + ("-negative" if neg else ""), msg, tg)

    def eq(a, b):
        a = np.asarray(a)
        return a.shape == np.asarray(b).shape and np.array_equal(a, b)

    # array forms
    VA = darsia.VoxelArray(pts)
    if np.any(np.abs(np.asarray(VA.to_coordinate(cs)) - want_c) > tolc):
        fail("voxel-to-coordinate", None, "VoxelArray.to_coordinate differs from reference")
    VCA = VA.to_voxel_center()
    if not isinstance(VCA, darsia.VoxelCenterArray) or not eq(VCA, pts + 0.5):
        bad = np.argwhere(np.any(np.asarray(VCA) != pts + 0.5, axis=1))
        fail("to-voxel-center", int(bad[0][0]) if len(bad) else None,
             "VoxelArray.to_voxel_center is not voxel + 1/2")
    if np.any(np.abs(np.asarray(VCA.to_coordinate(cs)) - want_cc) > tolc):
        fail("center-to-coordinate", None, "VoxelCenterArray.to_coordinate differs from reference")
    back = VCA.to_voxel()
    if not isinstance(back, darsia.VoxelArray) or not eq(back, pts):
        bad = np.argwhere(np.any(np.asarray(back) != pts, axis=1))
        i = int(bad[0][0]) if len(bad) else None
        fail("center-to-voxel", i, f"VoxelCenterArray.to_voxel: voxel {pts[i].tolist() if i is not None else '?'}"
             f" -> centre -> {np.asarray(back)[i].tolist() if i is not None else '?'}")
    # voxel -> centre -> coordinate -> voxel
    chain = VA.to_voxel_center().to_coordinate(cs).to_voxel(cs)
    if not eq(chain, pts):
        bad = np.argwhere(np.any(np.asarray(chain) != pts, axis=1))
        i = int(bad[0][0])
        fail("centre-roundtrip", i, f"voxel {pts[i].tolist()} -> centre -> coordinate -> voxel = "
             f"{np.asarray(chain)[i].tolist()}")
    CA = darsia.CoordinateArray(x[ok])
    if ok.any():
        if not eq(CA.to_voxel(cs), pts[ok]):
            fail("coordinate-to-voxel", None, "CoordinateArray.to_voxel differs")
        cvc = CA.to_voxel_center(cs)
        if not eq(cvc, pts[ok] + 0.5):
            bad = np.argwhere(np.any(np.asarray(cvc) != pts[ok] + 0.5, axis=1))
            i = int(np.flatnonzero(ok)[bad[0][0]])
            fail("coordinate-to-center", i, f"Coordinate in voxel {pts[i].tolist()} -> voxel "
                 f"centre {np.asarray(cvc)[bad[0][0]].tolist()}")
        if not eq(CA.to(darsia.VoxelArray, cs), pts[ok]) or not eq(CA.to(darsia.CoordinateArray, cs), x[ok]):
            fail("to-generic", None, "CoordinateArray.to(...) differs")
    # row access of typed arrays keeps the value
    for i in range(0, len(pts), max(1, len(pts) // 9)):
        row = VCA[i]
        if not isinstance(row, darsia.VoxelCenter) or not eq(row, pts[i] + 0.5):
            fail("center-getitem", i, f"VoxelCenterArray[{i}] = {np.asarray(row).tolist()}, "
                 f"array row is {(pts[i] + 0.5).tolist()}")
        if not eq(VA[i], pts[i]):
            fail("voxel-getitem", i, "VoxelArray[i] differs from the row")
    # single forms
    for i in range(0, len(pts), max(1, len(pts) // 9)):
        v = darsia.Voxel(pts[i])
        if np.any(np.abs(np.asarray(v.to_coordinate(cs)) - want_c[i]) > tolc[i]):
            fail("voxel-to-coordinate", i, "Voxel.to_coordinate differs from reference")
        vc = v.to_voxel_center()
        if not isinstance(vc, darsia.VoxelCenter) or not eq(vc, pts[i] + 0.5):
            fail("to-voxel-center", i, f"Voxel({pts[i].tolist()}).to_voxel_center() = {np.asarray(vc).tolist()}")
        vc2 = darsia.VoxelCenter(pts[i])
        if not eq(vc2, pts[i] + 0.5):
            fail("to-voxel-center", i, f"VoxelCenter({pts[i].tolist()}) = {np.asarray(vc2).tolist()}")
        if np.any(np.abs(np.asarray(vc.to_coordinate(cs)) - want_cc[i]) > tolc[i]):
            fail("center-to-coordinate", i, "VoxelCenter.to_coordinate differs from reference")
        if not eq(vc.to_voxel(), pts[i]):
            fail("center-to-voxel", i, f"voxel {pts[i].tolist()} -> centre {np.asarray(vc).tolist()} "
                 f"-> voxel {np.asarray(vc.to_voxel()).tolist()}")
        if not eq(vc.to(darsia.Voxel), pts[i]) or not eq(v.to(darsia.VoxelCenter), pts[i] + 0.5):
            fail("to-generic", i, "Voxel/VoxelCenter.to(...) differs")
        if not eq(vc.to_coordinate(cs).to_voxel(cs), pts[i]):
            fail("centre-roundtrip", i, f"voxel {pts[i].tolist()} -> centre -> coordinate -> voxel = "
                 f"{np.asarray(vc.to_coordinate(cs).to_voxel(cs)).tolist()}")
        if ok[i]:
            c = darsia.Coordinate(x[i])
            if not eq(c.to_voxel(cs), pts[i]):
                fail("coordinate-to-voxel", i, "Coordinate.to_voxel differs")
            if not eq(c.to_voxel_center(cs), pts[i] + 0.5):
                fail("coordinate-to-center", i, f"Coordinate in voxel {pts[i].tolist()} -> centre "
                     f"{np.asarray(c.to_voxel_center(cs)).tolist()}")
            if not eq(c.to_voxel_center(cs).to_voxel(), pts[i]):
                fail("center-to-voxel", i, "Coordinate -> centre -> voxel differs")
    return Outcome(_nontrivial(spec), _key(spec), _labels(spec), evals=len(pts))


# ---- 7. integer-typed physical points ----------------------------------------------------


def check_integer_points(case):
    """Physical points given with an integer dtype (int lists, integer arrays, Coordinate built
    from ints) convert like the same points given as floats."""
    spec, img, ref = _setup(case)
    cs = img.coordinatesystem
    dim = spec["dim"]
    rng = np.random.default_rng(case["tseed"])
    lo = np.floor(np.minimum(ref.coordinate([-HALO] * dim), ref.coordinate([n + HALO for n in spec["shape"]])))
    hi = np.ceil(np.maximum(ref.coordinate([-HALO] * dim), ref.coordinate([n + HALO for n in spec["shape"]])))
    if np.any(np.abs(lo) > 2**40) or np.any(np.abs(hi) > 2**40):
        return Outcome(False, _key(spec), _labels(spec), status="skipped")
    pts = np.stack([rng.integers(int(l), int(h) + 1, size=24) for l, h in zip(lo, hi)], axis=1)
    vf = ref.voxel_float(pts.astype(float))
    want = np.floor(vf).astype(int)
    frac = vf - np.floor(vf)
    margin = np.empty_like(vf)
    sc = _scale(ref, want)
    for c, (m, s) in enumerate(AXES[dim]):
        margin[:, m] = np.maximum(1e-6, 64 * EPS * sc[:, c] / ref.h[m])
    ok = np.all((frac > margin) & (frac < 1 - margin), axis=1)
    if not ok.any():
        return Outcome(False, _key(spec), _labels(spec) + ("no-interior-integer-point",), status="skipped")
    t = _tags(spec)
    got_f = np.asarray(cs.voxel(pts[ok].astype(float)))
    if np.any(got_f != want[ok]):
        raise Violation("roundtrip", "float form of integer-valued points differs from the reference", t)
    forms = {
        "int-array": cs.voxel(pts[ok].astype(np.int64)),
        "CoordinateArray(int)": cs.voxel(darsia.CoordinateArray(pts[ok].astype(int))),
        "make_coordinate(int).to_voxel": darsia.make_coordinate(pts[ok].astype(int)).to_voxel(cs),
    }
    if np.all(np.abs(pts[ok]) < 2**31 - 1):
        forms["int32-array"] = cs.voxel(pts[ok].astype(np.int32))
    for name, val in forms.items():
        if np.any(np.asarray(val) != want[ok]):
            i = int(np.argwhere(np.any(np.asarray(val) != want[ok], axis=1))[0][0])
            raise Violation("integer-typed-point", f"{name}: point {pts[ok][i].tolist()} -> "
                            f"{np.asarray(val)[i].tolist()}, as floats -> {want[ok][i].tolist()}", t)
    i = int(np.flatnonzero(ok)[0])
    for name, form in (("int-list", [int(x) for x in pts[i]]), ("Coordinate(int)", darsia.Coordinate(pts[i].astype(int)))):
        g = np.asarray(cs.voxel(form))
        if np.any(g != want[i]):
            raise Violation("integer-typed-point", f"{name}: point {pts[i].tolist()} -> {g.tolist()}, "
                            f"as floats -> {want[i].tolist()}", t)
    nonint_origin = bool(np.any(ref.origin != np.round(ref.origin)))
    return Outcome(nonint_origin, _key(spec), _labels(spec) + ("origin-fractional" if nonint_origin else "origin-integer",),
                   evals=int(ok.sum()))


# ---- 8. the maps follow the image's *current* metadata ------------------------------------


def check_metadata_update(case):
    """Sequences on one image object: use the coordinate system, change origin / dimensions in place
    through the documented in-place API, use it again - every conversion follows the new metadata."""
    spec, img, ref = _setup(case)
    dim = spec["dim"]
    t = _tags(spec)
    rng = np.random.default_rng(case["tseed"])
    steps = []
    cur_origin, cur_dims = (None if spec["origin"] is None else list(spec["origin"])), list(spec["dimensions"])
    _ = img.coordinatesystem.coordinate([0] * dim)  # first use (a cache would be filled here)
    _ = img.opposite_corner
    for k in range(int(rng.integers(1, 4))):
        op = ["reset_origin", "update_origin", "assign_origin", "update_dimensions"][int(rng.integers(0, 4))]
        if op == "reset_origin":
            img.reset_origin()
            cur_origin = None
        elif op in ("update_origin", "assign_origin"):
            cur_origin = [float(rng.integers(-40, 41)) / 4.0 for _ in range(dim)]
            if op == "update_origin":
                img.update_metadata(origin=darsia.Coordinate(np.array(cur_origin)))
            else:
                img.origin = darsia.Coordinate(np.array(cur_origin))
        else:
            cur_dims = [d * float(2.0 ** int(rng.integers(-2, 3))) for d in cur_dims]
            img.update_metadata(dimensions=list(cur_dims))
            if cur_origin is None:
                img.reset_origin()  # default origin depends on the dimensions
        steps.append(op)
        r = RefCS(dim, spec["shape"], cur_dims, cur_origin)
        cs = img.coordinatesystem
        pts = _halo(spec, 60, case["tseed"] + k)
        got = np.asarray(cs.coordinate(pts), dtype=float)
        want = r.coordinate(pts)
        if np.any(np.abs(got - want) > 8 * EPS * _scale(r, pts)):
            raise Violation("stale-after-update", f"after {steps}: coordinate() does not follow the current "
                            f"origin {np.asarray(img.origin).tolist()} / dimensions {img.dimensions}", t)
        if not np.array_equal(np.asarray(cs.coordinate([0] * dim), float), np.asarray(img.origin, float)):
            raise Violation("stale-after-update", f"after {steps}: voxel 0 does not map to image.origin", t)
        x, ok, _t = _interior_points(spec, r, pts, case["tseed"] + k, stress=False)
        gv = np.asarray(cs.voxel(x))
        if np.any(np.any(gv != pts, axis=1) & ok):
            raise Violation("stale-after-update", f"after {steps}: voxel() does not follow the current metadata", t)
        typed = darsia.CoordinateArray(x[ok]).to_voxel(img.coordinatesystem) if ok.any() else None
        if typed is not None and np.any(np.asarray(typed) != pts[ok]):
            raise Violation("stale-after-update", f"after {steps}: typed conversion stale", t)
    return Outcome(True, _key(spec, steps), _labels(spec) + tuple(sorted(set(steps))), evals=len(steps))


# ---- 9. selections from typed point arrays --------------------------------------------------


def check_typed_selection(case):
    """Rows selected from a typed point array (int, index array, boolean mask) keep type and value,
    and convert like the same rows of the whole batch."""
    spec, img, ref = _setup(case)
    cs = img.coordinatesystem
    pts = _halo(spec, 40, case["tseed"])
    rng = np.random.default_rng(case["tseed"])
    t = _tags(spec)
    idx = np.sort(rng.choice(len(pts), size=min(len(pts), 7), replace=False))
    mask = np.zeros(len(pts), dtype=bool)
    mask[idx] = True
    x, ok, _ = _interior_points(spec, ref, pts, case["tseed"], stress=False)
    arrays = {
        "VoxelArray": (darsia.VoxelArray(pts), darsia.VoxelArray, darsia.Voxel, pts),
        "VoxelCenterArray": (darsia.VoxelArray(pts).to_voxel_center(), darsia.VoxelCenterArray, darsia.VoxelCenter, pts + 0.5),
        "CoordinateArray": (darsia.CoordinateArray(x), darsia.CoordinateArray, darsia.Coordinate, x),
    }
    for name, (arr, acls, pcls, vals) in arrays.items():
        whole_c = np.asarray(arr.to_coordinate(cs), dtype=float)
        for kname, key in (("index-array", idx), ("boolean-mask", mask)):
            sel = arr[key]
            if type(sel) is not acls:
                raise Violation(f"selection-type:{name}", f"{name}[{kname}] is a {type(sel).__name__}", t)
            if not np.array_equal(np.asarray(sel), vals[idx]):
                raise Violation(f"selection-value:{name}", f"{name}[{kname}] changed the values", t)
            sc = np.asarray(sel.to_coordinate(cs), dtype=float)
            if not np.array_equal(sc, whole_c[idx]):
                raise Violation(f"selection-conversion:{name}", f"{name}[{kname}].to_coordinate differs from "
                                f"the same rows of the batch conversion", t)
        one = arr[int(idx[0])]
        if type(one) is not pcls or not np.array_equal(np.asarray(one), vals[idx[0]]):
            raise Violation(f"selection-type:{name}", f"{name}[int] is {type(one).__name__} "
                            f"{np.asarray(one).tolist()}", t)
    return Outcome(_nontrivial(spec), _key(spec), _labels(spec), evals=9)


_RULE = ("Hypothesis draws the image geometry (space_dim 1-3, extents incl. single-voxel axes, "
         "power-of-two / generic / unit voxel sizes in 1e-4..1e4, default or user origin up to 1e6 "
         "voxel sizes away, scalar / vector / series payload); every voxel plus a halo of width 3 "
         "is evaluated (sub-sampled above the cap); non-trivial = dim>=2 or user origin or a "
         "single-voxel axis; distinct = (dim, shape, dimensions, origin, payload kind)")

_N = {"quick": 640, "thorough": 16000}
_SH = {"quick": 3, "thorough": 16}

PROP = Prop(
    pid="C01",
    rule=_RULE,
    assumptions=[
        "reference map RefCS spelled from the documented convention (x<->j, y<->i reversed in 2-D; "
        "x<->j, y<->k reversed, z<->i reversed in 3-D, as used by the default origin)",
        "points on voxel faces are not asserted; interior margin max(1e-6, 64 eps (|x|+|o|)/h)",
    ],
    subs=[
        Sub("origin_corner", check_origin_corner, gen=gen, n=_N, shards=_SH),
        Sub("unit_step", check_unit_step, gen=gen, n=_N, shards=_SH),
        Sub("matches_reference", check_matches_reference, gen=gen, n=_N, shards=_SH),
        Sub("interior_point_roundtrip", check_interior_roundtrip, gen=gen, n=_N, shards=_SH),
        Sub("batch_equals_single", check_batch_single, gen=gen, n={"quick": 320, "thorough": 8000}, shards=_SH),
        Sub("typed_points", check_typed_points, gen=gen, n={"quick": 320, "thorough": 8000}, shards=_SH),
        Sub("integer_typed_points", check_integer_points, gen=gen, n=_N, shards=_SH),
        Sub("follows_current_metadata", check_metadata_update, gen=gen, n=_N, shards=_SH),
        Sub("typed_array_selection", check_typed_selection, gen=gen, n={"quick": 320, "thorough": 8000}, shards=_SH),
    ],
)
