"""C01 - voxel <-> physical coordinate conversion, for every image geometry."""
import itertools

import numpy as np
from hypothesis import strategies as st

import darsia
from vf import gens
from vf.oracles import AXES, RefCS
from vf.runner import Outcome, Prop, Sub, Violation

EPS = np.finfo(float).eps
HALO = 3


def gen(tier):
    return st.fixed_dictionaries({
        "img": gens.image_specs(
            dims=(1, 2, 3), max_extent={1: 40, 2: 9, 3: 5},
            dtypes=("float64", "uint8"), max_nt=3, max_comp=3),
        "tseed": st.integers(0, 2**16),
    })


def _setup(case):
    spec = case["img"]
    img = gens.build_image(spec, dyadic=True)
    ref = RefCS(spec["dim"], spec["shape"], spec["dimensions"], spec["origin"])
    return spec, img, ref


def _halo(spec, cap=600, seed=0):
    """All voxels of the image plus a halo of out-of-range indices (capped by sub-sampling)."""
    rngs = [range(-HALO, n + HALO) for n in spec["shape"]]
    pts = np.array(list(itertools.product(*rngs)), dtype=int)
    if len(pts) > cap:
        rng = np.random.default_rng(seed)
        keep = rng.choice(len(pts), cap, replace=False)
        pts = pts[np.sort(keep)]
    return pts


def _tags(spec):
    return {"dim": spec["dim"], "origin": "user" if spec["origin"] is not None else "default"}


def _key(spec, extra=()):
    return [spec["dim"], spec["shape"], spec["dimensions"], spec["origin"], spec["payload"],
            spec["series"], list(extra)]


def _labels(spec):
    h = [d / n for d, n in zip(spec["dimensions"], spec["shape"])]
    out = [f"dim{spec['dim']}", "origin-user" if spec["origin"] is not None else "origin-default",
           "thin" if 1 in spec["shape"] else "thick",
           f"payload-{spec['payload']}{'-series' if spec['series'] else ''}"]
    if spec["origin"] is not None and any(
            abs(o) > 1e3 * h[AXES[spec["dim"]][c][0]] for c, o in enumerate(spec["origin"])):
        out.append("origin-far")
    if spec["dim"] > 1 and len(set(h)) > 1:
        out.append("voxel-anisotropic")
    out.append("voxel-small" if min(h) < 1e-2 else "voxel-large" if max(h) > 1e2 else "voxel-order-one")
    return tuple(out)


def _unchanged(before, after, what, t):
    """Conversions read their arguments and the image metadata; they do not write them."""
    b, a = np.asarray(before), np.asarray(after)
    if b.shape != a.shape or b.dtype != a.dtype or not np.array_equal(b, a):
        raise Violation("argument-mutated", f"{what} was modified by the call", t)


def _nontrivial(spec):
    return spec["dim"] >= 2 or spec["origin"] is not None or 1 in spec["shape"]


def _scale(ref, pts):
    """Magnitude of the numbers that entered o + s*v*h, per point and Cartesian axis."""
    p = np.atleast_2d(np.asarray(pts, dtype=float))
    out = np.empty_like(p)
    for c, (m, s) in enumerate(AXES[ref.dim]):
        out[:, c] = abs(ref.origin[c]) + np.abs(p[:, m]) * ref.h[m] + ref.h[m]
    return out


# ---- 1. origin / opposite corner ------------------------------------------------------


def check_origin_corner(case):
    spec, img, ref = _setup(case)
    cs = img.coordinatesystem
    t = _tags(spec)
    zero = [0] * spec["dim"]
    o = np.asarray(cs.coordinate(zero), dtype=float)
    if not np.array_equal(o, ref.origin) or not np.array_equal(np.asarray(img.origin, float), ref.origin):
        raise Violation("origin", f"coordinate(0)={o.tolist()} origin={ref.origin.tolist()}", t)
    opp = np.asarray(img.opposite_corner, dtype=float)
    for c, (m, s) in enumerate(AXES[spec["dim"]]):
        want = s * ref.dimensions[m]
        tol = 8 * EPS * (abs(ref.origin[c]) + abs(want))
        if abs((opp[c] - ref.origin[c]) - want) > tol:
            raise Violation("opposite", f"axis {c}: opposite-origin={opp[c]-ref.origin[c]!r}, "
                            f"dimension {want!r}", t)
    vs = np.asarray(img.voxel_size, dtype=float)
    if not np.allclose(vs, ref.h, rtol=4 * EPS, atol=0):
        raise Violation("voxel_size", f"{vs.tolist()} vs {ref.h}", t)
    # the physical extent of the image is the box spanned by the origin and the corner displaced by
    # the dimensions: the coordinate system's bounding box (domain / min_coordinate / max_coordinate,
    # read e.g. by add_grid and the shape corrections) and Image.domain (the plotting extent
    # (left, right, bottom, top) = (x of voxel 0, x of the opposite corner, y of the opposite corner,
    # y of voxel 0); 1-D: (x of voxel 0, x of the opposite corner)) are that box
    dim = spec["dim"]
    far = np.array([ref.origin[c] + s * ref.dimensions[m] for c, (m, s) in enumerate(AXES[dim])])
    tolb = np.array([8 * EPS * (abs(ref.origin[c]) + ref.dimensions[m]) for c, (m, s) in enumerate(AXES[dim])])
    lo, hi = np.minimum(ref.origin, far), np.maximum(ref.origin, far)
    got_lo, got_hi = np.asarray(cs.min_coordinate, float), np.asarray(cs.max_coordinate, float)
    if got_lo.shape != (dim,) or got_hi.shape != (dim,) or np.any(np.abs(got_lo - lo) > tolb) \
            or np.any(np.abs(got_hi - hi) > tolb):
        raise Violation("bounding-box", f"min/max_coordinate {got_lo.tolist()} / {got_hi.tolist()}, box of "
                        f"origin and origin +- dimensions is {lo.tolist()} / {hi.tolist()}", t)
    if sorted(cs.domain) != sorted(a + e for a in "xyz"[:dim] for e in ("min", "max")):
        raise Violation("bounding-box", f"domain has the entries {sorted(cs.domain)}", t)
    for c, a in enumerate("xyz"[:dim]):
        if abs(float(cs.domain[a + "min"]) - lo[c]) > tolb[c] or abs(float(cs.domain[a + "max"]) - hi[c]) > tolb[c]:
            raise Violation("bounding-box", f"domain[{a}min/{a}max] = {cs.domain[a + 'min']!r} / "
                            f"{cs.domain[a + 'max']!r}, expected {lo[c]!r} / {hi[c]!r}", t)
        # the side of the box that is the origin is the origin itself
        side = "min" if AXES[dim][c][1] > 0 else "max"
        if float(cs.domain[a + side]) != ref.origin[c]:
            raise Violation("bounding-box", f"domain[{a}{side}] = {cs.domain[a + side]!r} is not the origin "
                            f"entry {ref.origin[c]!r}", t)
    if dim <= 2:
        ext = [float(e) for e in img.domain]
        want_ext = [ref.origin[0], far[0]] if dim == 1 else [ref.origin[0], far[0], far[1], ref.origin[1]]
        tol_ext = [tolb[0], tolb[0]] if dim == 1 else [tolb[0], tolb[0], tolb[1], tolb[1]]
        if len(ext) != len(want_ext) or any(abs(g - w) > tl for g, w, tl in zip(ext, want_ext, tol_ext)):
            raise Violation("image-domain", f"Image.domain = {ext}, extent from origin to opposite corner "
                            f"is {want_ext}", t)
    # reading all of this leaves the geometry of the image as constructed
    _unchanged(ref.origin, np.asarray(img.origin, float), "image.origin", t)
    _unchanged(np.asarray(spec["dimensions"], float), np.asarray(img.dimensions, float), "image.dimensions", t)
    return Outcome(_nontrivial(spec), _key(spec), _labels(spec), evals=4)


# ---- 2. unit steps ---------------------------------------------------------------------


def check_unit_step(case):
    spec, img, ref = _setup(case)
    cs = img.coordinatesystem
    t = _tags(spec)
    dim = spec["dim"]
    pts = _halo(spec, 200, case["tseed"])
    base = np.asarray(cs.coordinate(pts), dtype=float)
    sc = _scale(ref, pts)
    for m in range(dim):
        e = np.zeros(dim, dtype=int)
        e[m] = 1
        step = np.asarray(cs.coordinate(pts + e), dtype=float) - base
        # which Cartesian axis moves
        cax = [c for c, (mm, s) in enumerate(AXES[dim]) if mm == m][0]
        sign = AXES[dim][cax][1]
        for c in range(dim):
            if c == cax:
                bad = np.abs(step[:, c] - sign * ref.h[m]) > 8 * EPS * sc[:, c]
                if bad.any():
                    i = int(np.argmax(bad))
                    raise Violation("step-size", f"matrix axis {m} at {pts[i].tolist()}: moved "
                                    f"Cartesian axis {c} by {step[i, c]!r}, expected "
                                    f"{sign * ref.h[m]!r}", t)
            elif np.any(step[:, c] != 0.0):
                i = int(np.argmax(step[:, c] != 0))
                raise Violation("step-axis", f"matrix axis {m} also moves Cartesian axis {c} "
                                f"(by {step[i, c]!r})", t)
    return Outcome(_nontrivial(spec), _key(spec), _labels(spec), evals=len(pts) * dim)


# ---- 3. reference map ------------------------------------------------------------------


def _decoy_image(spec):
    """Another image of the same dimension with a different shape, voxel size and origin: building it and
    using its coordinate system must not change anything about a coordinate system already held."""
    dim = spec["dim"]
    shape = [int(n) + 1 + k for k, n in enumerate(reversed(spec["shape"]))]
    dims = [3.0 * float(d) + 0.5 + k for k, d in enumerate(reversed(spec["dimensions"]))]
    dec = darsia.Image(np.zeros(shape), dimensions=dims, origin=[1.5 - k for k in range(dim)], space_dim=dim,
                       scalar=True, series=False)
    dcs = dec.coordinatesystem
    dcs.coordinate(np.zeros((1, dim), dtype=int))
    _ = dec.opposite_corner
    return dec


def check_matches_reference(case):
    spec, img, ref = _setup(case)
    cs = img.coordinatesystem
    pts = _halo(spec, 600, case["tseed"])
    pts0 = pts.copy()
    got = np.asarray(cs.coordinate(pts), dtype=float)
    _unchanged(pts0, pts, "the voxel batch handed to coordinate()", _tags(spec))
    want = ref.coordinate(pts)
    bad = np.abs(got - want) > 8 * EPS * _scale(ref, pts)
    if bad.any():
        i = int(np.argwhere(bad)[0][0])
        raise Violation("coordinate", f"voxel {pts[i].tolist()}: {got[i].tolist()} vs reference "
                        f"{want[i].tolist()}", _tags(spec))
    # a coordinate system that is held keeps describing its own image while other images come and go
    _decoy_image(spec)
    again = np.asarray(cs.coordinate(pts), dtype=float)
    if not np.array_equal(again, got):
        i = int(np.argwhere(np.any(again != got, axis=1))[0][0])
        raise Violation("held-system-changed", f"after another image of different geometry was built, the "
                        f"coordinate system held maps voxel {pts[i].tolist()} to {again[i].tolist()} (before: "
                        f"{got[i].tolist()})", _tags(spec))
    x, ok, _ = _interior_points(spec, ref, pts, case["tseed"], stress=False)
    if ok.any() and not np.array_equal(np.asarray(cs.voxel(x[ok])), pts[ok]):
        raise Violation("held-system-changed", "after another image of different geometry was built, voxel() of "
                        "the coordinate system held no longer returns the voxels of its interior points",
                        _tags(spec))
    # voxel index arrays of any integer dtype that holds the indices (np.uint8 masks, int32 index tables)
    nn = pts[np.all(pts >= 0, axis=1)]
    for dt in ("uint8", "uint16", "uint32", "uint64", "int16", "int32"):
        if len(nn) == 0 or nn.max() > np.iinfo(dt).max:
            continue
        typed = nn.astype(dt)
        g2 = np.asarray(cs.coordinate(typed), dtype=float)
        w2 = ref.coordinate(nn)
        bad = np.abs(g2 - w2) > 8 * EPS * _scale(ref, nn)
        if bad.any() or typed.dtype != np.dtype(dt) or not np.array_equal(typed, nn):
            i = int(np.argwhere(bad)[0][0]) if bad.any() else 0
            raise Violation(f"coordinate-index-dtype:{'unsigned' if dt.startswith('u') else 'signed'}",
                            f"voxel {nn[i].tolist()} given as {dt}: {g2[i].tolist()} vs reference {w2[i].tolist()}",
                            _tags(spec))
    # all voxels / coordinates properties
    return Outcome(_nontrivial(spec), _key(spec), _labels(spec), evals=len(pts))


# ---- 4. interior points ----------------------------------------------------------------


def _interior_points(spec, ref, pts, tseed, stress):
    rng = np.random.default_rng(tseed)
    dim = spec["dim"]
    x_scale = _scale(ref, pts)
    # margin (in voxel units) that provably dominates the rounding of (x - o) / h
    delta = np.empty((len(pts), dim))
    for c, (m, s) in enumerate(AXES[dim]):
        delta[:, m] = np.maximum(1e-6, 64 * EPS * x_scale[:, c] / ref.h[m])
    ok = np.all(delta < 0.25, axis=1)
    kind = rng.integers(0, 4, size=(len(pts), dim))
    u = rng.random((len(pts), dim))
    t = delta + u * (1 - 2 * delta)
    t = np.where(kind == 0, 0.5, t)
    if stress:
        t = np.where(kind == 1, delta, t)
        t = np.where(kind == 2, 1 - delta, t)
    return ref.coordinate(pts + t), ok, t


def check_interior_roundtrip(case):
    spec, img, ref = _setup(case)
    cs = img.coordinatesystem
    pts = _halo(spec, 600, case["tseed"])
    x, ok, t = _interior_points(spec, ref, pts, case["tseed"], stress=True)
    x0 = x.copy()
    got = np.asarray(cs.voxel(x))
    _unchanged(x0, x, "the coordinate batch handed to voxel()", _tags(spec))
    if got.dtype.kind not in "iu":
        raise Violation("voxel-dtype", f"voxel() returned dtype {got.dtype}", _tags(spec))
    bad = np.any(got != pts, axis=1) & ok
    if bad.any():
        i = int(np.argmax(bad))
        tg = _tags(spec)
        tg["outside"] = bool(np.any(pts[i] < 0) or np.any(pts[i] >= np.array(spec["shape"])))
        raise Violation("roundtrip", f"point {x[i].tolist()} (voxel {pts[i].tolist()} + "
                        f"{t[i].tolist()}) -> {got[i].tolist()}", tg)
    # single-point call forms: list, tuple not accepted by voxel(); array and Coordinate are
    for i in range(0, len(pts), max(1, len(pts) // 7)):
        if not ok[i]:
            continue
        for form in (list(map(float, x[i])), np.array(x[i]), darsia.Coordinate(x[i])):
            g = np.asarray(cs.voxel(form))
            if g.shape != (spec["dim"],) or np.any(g != pts[i]):
                raise Violation("roundtrip-single", f"{type(form).__name__} {x[i].tolist()} -> "
                                f"{g.tolist()}, expected {pts[i].tolist()}", _tags(spec))
    return Outcome(_nontrivial(spec), _key(spec), _labels(spec), evals=int(ok.sum()))


# ---- 5. batch == single -----------------------------------------------------------------


def check_batch_single(case):
    spec, img, ref = _setup(case)
    cs = img.coordinatesystem
    t = _tags(spec)
    pts = _halo(spec, 40, case["tseed"])
    x, ok, _ = _interior_points(spec, ref, pts, case["tseed"], stress=False)
    pts0, x0 = pts.copy(), x.copy()
    batch_c = cs.coordinate(pts)
    if not isinstance(batch_c, darsia.CoordinateArray):
        raise Violation("type", f"coordinate(2-D array) returned {type(batch_c).__name__}", t)
    batch_v = cs.voxel(x)
    if not isinstance(batch_v, darsia.VoxelArray):
        raise Violation("type", f"voxel(2-D array) returned {type(batch_v).__name__}", t)
    batch_c = np.asarray(batch_c)
    batch_v = np.asarray(batch_v)
    forms_c = {
        "VoxelArray": cs.coordinate(darsia.VoxelArray(pts)),
        "make_voxel": cs.coordinate(darsia.make_voxel(pts)),
        "list": cs.coordinate(pts.tolist()),
    }
    for name, val in forms_c.items():
        if not np.array_equal(np.asarray(val), batch_c):
            raise Violation("batch-form", f"coordinate({name}) differs from coordinate(array)", t)
    v2 = cs.voxel(darsia.CoordinateArray(x))
    if not np.array_equal(np.asarray(v2), batch_v):
        raise Violation("batch-form", "voxel(CoordinateArray) differs from voxel(array)", t)
    # a batch stays a batch whatever its length: sub-batches of 1 and 2 rows are the first rows of the
    # full batch, with the (rows, dim) shape and the array type of a batch
    for k in (1, 2):
        sub_c = {"array": cs.coordinate(pts[:k]), "list": cs.coordinate(pts[:k].tolist()),
                 "VoxelArray": cs.coordinate(darsia.VoxelArray(pts[:k])),
                 "VoxelArray.to_coordinate": darsia.VoxelArray(pts[:k]).to_coordinate(cs)}
        for name, val in sub_c.items():
            if not isinstance(val, darsia.CoordinateArray) or np.asarray(val).shape != (k, spec["dim"]):
                raise Violation("small-batch-shape", f"coordinate({name} with {k} row(s)) returned "
                                f"{type(val).__name__} of shape {np.asarray(val).shape}", t)
            if not np.array_equal(np.asarray(val), batch_c[:k]):
                raise Violation("small-batch-value", f"coordinate({name} with {k} row(s)) differs from the first "
                                f"rows of the full batch", t)
        sub_v = {"array": cs.voxel(x[:k]), "list": cs.voxel(x[:k].tolist()),
                 "CoordinateArray": cs.voxel(darsia.CoordinateArray(x[:k])),
                 "CoordinateArray.to_voxel": darsia.CoordinateArray(x[:k]).to_voxel(cs)}
        for name, val in sub_v.items():
            if not isinstance(val, darsia.VoxelArray) or np.asarray(val).shape != (k, spec["dim"]):
                raise Violation("small-batch-shape", f"voxel({name} with {k} row(s)) returned "
                                f"{type(val).__name__} of shape {np.asarray(val).shape}", t)
            if not np.array_equal(np.asarray(val), batch_v[:k]):
                raise Violation("small-batch-value", f"voxel({name} with {k} row(s)) differs from the first rows "
                                f"of the full batch", t)
    # the image's own voxel / coordinate tables are batches over all voxels (also for one-voxel images)
    nvox = int(np.prod(spec["shape"]))
    if nvox <= 4096:
        cs2 = _setup(case)[1].coordinatesystem  # fresh object: the tables are cached on first use
        allv, allc = cs2.voxels, cs2.coordinates
        if (not isinstance(allv, darsia.VoxelArray) or np.asarray(allv).shape != (nvox, spec["dim"])
                or not isinstance(allc, darsia.CoordinateArray) or np.asarray(allc).shape != (nvox, spec["dim"])):
            raise Violation("table-shape", f"voxels/coordinates tables: {type(allv).__name__}"
                            f"{np.asarray(allv).shape} / {type(allc).__name__}{np.asarray(allc).shape} for "
                            f"{nvox} voxels", t)
        want = ref.coordinate(np.asarray(allv))
        if np.any(np.abs(np.asarray(allc) - want) > 8 * EPS * _scale(ref, np.asarray(allv))):
            raise Violation("table-value", "coordinates table differs from the reference map of the voxels table", t)
    for i in range(len(pts)):
        for form in (pts[i].tolist(), tuple(pts[i].tolist()), pts[i], darsia.Voxel(pts[i])):
            single = cs.coordinate(form)
            if not isinstance(single, darsia.Coordinate) or isinstance(single, darsia.CoordinateArray):
                raise Violation("type", f"coordinate(single {type(form).__name__}) returned "
                                f"{type(single).__name__}", t)
            if np.asarray(single).shape != (spec["dim"],) or not np.array_equal(np.asarray(single), batch_c[i]):
                raise Violation("batch-vs-single", f"coordinate({pts[i].tolist()}) single "
                                f"{np.asarray(single).tolist()} vs batch row {batch_c[i].tolist()}", t)
        sv = cs.voxel(x[i])
        if not isinstance(sv, darsia.Voxel) or isinstance(sv, darsia.VoxelArray):
            raise Violation("type", f"voxel(single) returned {type(sv).__name__}", t)
        if not np.array_equal(np.asarray(sv), batch_v[i]):
            raise Violation("batch-vs-single", f"voxel({x[i].tolist()}) single "
                            f"{np.asarray(sv).tolist()} vs batch row {batch_v[i].tolist()}", t)
    _unchanged(pts0, pts, "a voxel array handed to coordinate() in some call form", t)
    _unchanged(x0, x, "a coordinate array handed to voxel() in some call form", t)
    return Outcome(_nontrivial(spec), _key(spec), _labels(spec), evals=len(pts))


# ---- 6. typed point objects -------------------------------------------------------------


def check_typed_points(case):
    spec, img, ref = _setup(case)
    cs = img.coordinatesystem
    pts = _halo(spec, 60, case["tseed"])
    x, ok, _ = _interior_points(spec, ref, pts, case["tseed"], stress=False)
    want_c = ref.coordinate(pts)
    want_cc = ref.coordinate(pts + 0.5)
    tolc = 8 * EPS * _scale(ref, pts)

    def fail(kind, i, msg):
        tg = _tags(spec)
        neg = bool(np.any(pts[i] < 0)) if i is not None else bool(np.any(pts < 0))
        tg["negative"] = neg
        raise Violation(kind + ("-negative" if neg else ""), msg, tg)

    def eq(a, b):
        a = np.asarray(a)
        return a.shape == np.asarray(b).shape and np.array_equal(a, b)

    # array forms
    VA = darsia.VoxelArray(pts)
    if np.any(np.abs(np.asarray(VA.to_coordinate(cs)) - want_c) > tolc):
        fail("voxel-to-coordinate", None, "VoxelArray.to_coordinate differs from reference")
    VCA = VA.to_voxel_center()
    if not isinstance(VCA, darsia.VoxelCenterArray) or not eq(VCA, pts + 0.5):
        bad = np.argwhere(np.any(np.asarray(VCA) != pts + 0.5, axis=1))
        fail("to-voxel-center", int(bad[0][0]) if len(bad) else None,
             "VoxelArray.to_voxel_center is not voxel + 1/2")
    if np.any(np.abs(np.asarray(VCA.to_coordinate(cs)) - want_cc) > tolc):
        fail("center-to-coordinate", None, "VoxelCenterArray.to_coordinate differs from reference")
    back = VCA.to_voxel()
    if not isinstance(back, darsia.VoxelArray) or not eq(back, pts):
        bad = np.argwhere(np.any(np.asarray(back) != pts, axis=1))
        i = int(bad[0][0]) if len(bad) else None
        fail("center-to-voxel", i, f"VoxelCenterArray.to_voxel: voxel {pts[i].tolist() if i is not None else '?'}"
             f" -> centre -> {np.asarray(back)[i].tolist() if i is not None else '?'}")
    # voxel -> centre -> coordinate -> voxel
    chain = VA.to_voxel_center().to_coordinate(cs).to_voxel(cs)
    if not eq(chain, pts):
        bad = np.argwhere(np.any(np.asarray(chain) != pts, axis=1))
        i = int(bad[0][0])
        fail("centre-roundtrip", i, f"voxel {pts[i].tolist()} -> centre -> coordinate -> voxel = "
             f"{np.asarray(chain)[i].tolist()}")
    CA = darsia.CoordinateArray(x[ok])
    if ok.any():
        if not eq(CA.to_voxel(cs), pts[ok]):
            fail("coordinate-to-voxel", None, "CoordinateArray.to_voxel differs")
        cvc = CA.to_voxel_center(cs)
        if not eq(cvc, pts[ok] + 0.5):
            bad = np.argwhere(np.any(np.asarray(cvc) != pts[ok] + 0.5, axis=1))
            i = int(np.flatnonzero(ok)[bad[0][0]])
            fail("coordinate-to-center", i, f"Coordinate in voxel {pts[i].tolist()} -> voxel "
                 f"centre {np.asarray(cvc)[bad[0][0]].tolist()}")
        if not eq(CA.to(darsia.VoxelArray, cs), pts[ok]) or not eq(CA.to(darsia.CoordinateArray, cs), x[ok]):
            fail("to-generic", None, "CoordinateArray.to(...) differs")
    # row access of typed arrays keeps the value
    for i in range(0, len(pts), max(1, len(pts) // 9)):
        row = VCA[i]
        if not isinstance(row, darsia.VoxelCenter) or not eq(row, pts[i] + 0.5):
            fail("center-getitem", i, f"VoxelCenterArray[{i}] = {np.asarray(row).tolist()}, "
                 f"array row is {(pts[i] + 0.5).tolist()}")
        if not eq(VA[i], pts[i]):
            fail("voxel-getitem", i, "VoxelArray[i] differs from the row")
    # single forms
    for i in range(0, len(pts), max(1, len(pts) // 9)):
        v = darsia.Voxel(pts[i])
        if np.any(np.abs(np.asarray(v.to_coordinate(cs)) - want_c[i]) > tolc[i]):
            fail("voxel-to-coordinate", i, "Voxel.to_coordinate differs from reference")
        vc = v.to_voxel_center()
        if not isinstance(vc, darsia.VoxelCenter) or not eq(vc, pts[i] + 0.5):
            fail("to-voxel-center", i, f"Voxel({pts[i].tolist()}).to_voxel_center() = {np.asarray(vc).tolist()}")
        vc2 = darsia.VoxelCenter(pts[i])
        if not eq(vc2, pts[i] + 0.5):
            fail("to-voxel-center", i, f"VoxelCenter({pts[i].tolist()}) = {np.asarray(vc2).tolist()}")
        if np.any(np.abs(np.asarray(vc.to_coordinate(cs)) - want_cc[i]) > tolc[i]):
            fail("center-to-coordinate", i, "VoxelCenter.to_coordinate differs from reference")
        if not eq(vc.to_voxel(), pts[i]):
            fail("center-to-voxel", i, f"voxel {pts[i].tolist()} -> centre {np.asarray(vc).tolist()} "
                 f"-> voxel {np.asarray(vc.to_voxel()).tolist()}")
        if not eq(vc.to(darsia.Voxel), pts[i]) or not eq(v.to(darsia.VoxelCenter), pts[i] + 0.5):
            fail("to-generic", i, "Voxel/VoxelCenter.to(...) differs")
        if not eq(vc.to_coordinate(cs).to_voxel(cs), pts[i]):
            fail("centre-roundtrip", i, f"voxel {pts[i].tolist()} -> centre -> coordinate -> voxel = "
                 f"{np.asarray(vc.to_coordinate(cs).to_voxel(cs)).tolist()}")
        if ok[i]:
            c = darsia.Coordinate(x[i])
            if not eq(c.to_voxel(cs), pts[i]):
                fail("coordinate-to-voxel", i, "Coordinate.to_voxel differs")
            if not eq(c.to_voxel_center(cs), pts[i] + 0.5):
                fail("coordinate-to-center", i, f"Coordinate in voxel {pts[i].tolist()} -> centre "
                     f"{np.asarray(c.to_voxel_center(cs)).tolist()}")
            if not eq(c.to_voxel_center(cs).to_voxel(), pts[i]):
                fail("center-to-voxel", i, "Coordinate -> centre -> voxel differs")
    return Outcome(_nontrivial(spec), _key(spec), _labels(spec), evals=len(pts))


# ---- 7. integer-typed physical points ----------------------------------------------------


def check_integer_points(case):
    """Physical points given with an integer dtype (int lists, integer arrays, Coordinate built
    from ints) convert like the same points given as floats."""
    spec, img, ref = _setup(case)
    cs = img.coordinatesystem
    dim = spec["dim"]
    rng = np.random.default_rng(case["tseed"])
    lo = np.floor(np.minimum(ref.coordinate([-HALO] * dim), ref.coordinate([n + HALO for n in spec["shape"]])))
    hi = np.ceil(np.maximum(ref.coordinate([-HALO] * dim), ref.coordinate([n + HALO for n in spec["shape"]])))
    if np.any(np.abs(lo) > 2**40) or np.any(np.abs(hi) > 2**40):
        return Outcome(False, _key(spec), _labels(spec), status="skipped")
    pts = np.stack([rng.integers(int(l), int(h) + 1, size=24) for l, h in zip(lo, hi)], axis=1)
    vf = ref.voxel_float(pts.astype(float))
    want = np.floor(vf).astype(int)
    frac = vf - np.floor(vf)
    margin = np.empty_like(vf)
    sc = _scale(ref, want)
    for c, (m, s) in enumerate(AXES[dim]):
        margin[:, m] = np.maximum(1e-6, 64 * EPS * sc[:, c] / ref.h[m])
    ok = np.all((frac > margin) & (frac < 1 - margin), axis=1)
    if not ok.any():
        return Outcome(False, _key(spec), _labels(spec) + ("no-interior-integer-point",), status="skipped")
    t = _tags(spec)
    got_f = np.asarray(cs.voxel(pts[ok].astype(float)))
    if np.any(got_f != want[ok]):
        raise Violation("roundtrip", "float form of integer-valued points differs from the reference", t)
    forms = {
        "int-array": cs.voxel(pts[ok].astype(np.int64)),
        "CoordinateArray(int)": cs.voxel(darsia.CoordinateArray(pts[ok].astype(int))),
        "make_coordinate(int).to_voxel": darsia.make_coordinate(pts[ok].astype(int)).to_voxel(cs),
    }
    if np.all(np.abs(pts[ok]) < 2**31 - 1):
        forms["int32-array"] = cs.voxel(pts[ok].astype(np.int32))
    for name, val in forms.items():
        if np.any(np.asarray(val) != want[ok]):
            i = int(np.argwhere(np.any(np.asarray(val) != want[ok], axis=1))[0][0])
            raise Violation("integer-typed-point", f"{name}: point {pts[ok][i].tolist()} -> "
                            f"{np.asarray(val)[i].tolist()}, as floats -> {want[ok][i].tolist()}", t)
    i = int(np.flatnonzero(ok)[0])
    for name, form in (("int-list", [int(x) for x in pts[i]]), ("Coordinate(int)", darsia.Coordinate(pts[i].astype(int)))):
        g = np.asarray(cs.voxel(form))
        if np.any(g != want[i]):
            raise Violation("integer-typed-point", f"{name}: point {pts[i].tolist()} -> {g.tolist()}, "
                            f"as floats -> {want[i].tolist()}", t)
    nonint_origin = bool(np.any(ref.origin != np.round(ref.origin)))
    return Outcome(nonint_origin, _key(spec), _labels(spec) + ("origin-fractional" if nonint_origin else "origin-integer",),
                   evals=int(ok.sum()))


# ---- 8. the maps follow the image's *current* metadata ------------------------------------


def check_metadata_update(case):
    """Sequences on one image object: use the coordinate system, change origin / dimensions in place
    through the documented in-place API, use it again - every conversion follows the new metadata."""
    spec, img, ref = _setup(case)
    dim = spec["dim"]
    t = _tags(spec)
    rng = np.random.default_rng(case["tseed"])
    steps = []
    cur_origin, cur_dims = (None if spec["origin"] is None else list(spec["origin"])), list(spec["dimensions"])
    _ = img.coordinatesystem.coordinate([0] * dim)  # first use (a cache would be filled here)
    _ = img.opposite_corner
    for k in range(int(rng.integers(1, 4))):
        op = ["reset_origin", "update_origin", "assign_origin", "update_dimensions"][int(rng.integers(0, 4))]
        if op == "reset_origin":
            img.reset_origin()
            cur_origin = None
        elif op in ("update_origin", "assign_origin"):
            cur_origin = [float(rng.integers(-40, 41)) / 4.0 for _ in range(dim)]
            if op == "update_origin":
                img.update_metadata(origin=darsia.Coordinate(np.array(cur_origin)))
            else:
                img.origin = darsia.Coordinate(np.array(cur_origin))
        else:
            cur_dims = [d * float(2.0 ** int(rng.integers(-2, 3))) for d in cur_dims]
            img.update_metadata(dimensions=list(cur_dims))
            if cur_origin is None:
                img.reset_origin()  # default origin depends on the dimensions
        steps.append(op)
        r = RefCS(dim, spec["shape"], cur_dims, cur_origin)
        cs = img.coordinatesystem
        pts = _halo(spec, 60, case["tseed"] + k)
        got = np.asarray(cs.coordinate(pts), dtype=float)
        want = r.coordinate(pts)
        if np.any(np.abs(got - want) > 8 * EPS * _scale(r, pts)):
            raise Violation("stale-after-update", f"after {steps}: coordinate() does not follow the current "
                            f"origin {np.asarray(img.origin).tolist()} / dimensions {img.dimensions}", t)
        if not np.array_equal(np.asarray(cs.coordinate([0] * dim), float), np.asarray(img.origin, float)):
            raise Violation("stale-after-update", f"after {steps}: voxel 0 does not map to image.origin", t)
        x, ok, _t = _interior_points(spec, r, pts, case["tseed"] + k, stress=False)
        gv = np.asarray(cs.voxel(x))
        if np.any(np.any(gv != pts, axis=1) & ok):
            raise Violation("stale-after-update", f"after {steps}: voxel() does not follow the current metadata", t)
        typed = darsia.CoordinateArray(x[ok]).to_voxel(img.coordinatesystem) if ok.any() else None
        if typed is not None and np.any(np.asarray(typed) != pts[ok]):
            raise Violation("stale-after-update", f"after {steps}: typed conversion stale", t)
    return Outcome(True, _key(spec, steps), _labels(spec) + tuple(sorted(set(steps))), evals=len(steps))


# ---- 9. selections from typed point arrays --------------------------------------------------


def check_typed_selection(case):
    """Rows selected from a typed point array (int, index array, boolean mask) keep type and value,
    and convert like the same rows of the whole batch."""
    spec, img, ref = _setup(case)
    cs = img.coordinatesystem
    pts = _halo(spec, 40, case["tseed"])
    rng = np.random.default_rng(case["tseed"])
    t = _tags(spec)
    idx = np.sort(rng.choice(len(pts), size=min(len(pts), 7), replace=False))
    mask = np.zeros(len(pts), dtype=bool)
    mask[idx] = True
    x, ok, _ = _interior_points(spec, ref, pts, case["tseed"], stress=False)
    arrays = {
        "VoxelArray": (darsia.VoxelArray(pts), darsia.VoxelArray, darsia.Voxel, pts),
        "VoxelCenterArray": (darsia.VoxelArray(pts).to_voxel_center(), darsia.VoxelCenterArray, darsia.VoxelCenter, pts + 0.5),
        "CoordinateArray": (darsia.CoordinateArray(x), darsia.CoordinateArray, darsia.Coordinate, x),
    }
    for name, (arr, acls, pcls, vals) in arrays.items():
        whole_c = np.asarray(arr.to_coordinate(cs), dtype=float)
        for kname, key in (("index-array", idx), ("boolean-mask", mask)):
            sel = arr[key]
            if type(sel) is not acls:
                raise Violation(f"selection-type:{name}", f"{name}[{kname}] is a {type(sel).__name__}", t)
            if not np.array_equal(np.asarray(sel), vals[idx]):
                raise Violation(f"selection-value:{name}", f"{name}[{kname}] changed the values", t)
            sc = np.asarray(sel.to_coordinate(cs), dtype=float)
            if not np.array_equal(sc, whole_c[idx]):
                raise Violation(f"selection-conversion:{name}", f"{name}[{kname}].to_coordinate differs from "
                                f"the same rows of the batch conversion", t)
        one = arr[int(idx[0])]
        if type(one) is not pcls or not np.array_equal(np.asarray(one), vals[idx[0]]):
            raise Violation(f"selection-type:{name}", f"{name}[int] is {type(one).__name__} "
                            f"{np.asarray(one).tolist()}", t)
    return Outcome(_nontrivial(spec), _key(spec), _labels(spec), evals=9)


# ---- 10. displacement vectors ----------------------------------------------------------------


def check_displacement_vectors(case):
    """coordinate_vector converts a displacement given in voxels (one vector per row, or one vector)
    into the physical displacement: matrix axis m contributes (orientation sign) * component * voxel
    size to its Cartesian axis and nothing else; the origin does not enter; and the displacement
    between two voxels is the converted difference of their indices."""
    spec, img, ref = _setup(case)
    cs = img.coordinatesystem
    dim = spec["dim"]
    t = _tags(spec)
    rng = np.random.default_rng(case["tseed"])
    n = 24
    kinds = {
        "unit": np.eye(dim, dtype=int)[rng.integers(0, dim, size=n)] * rng.choice([-1, 1], size=(n, 1)),
        "integer": rng.integers(-50, 51, size=(n, dim)),
        "fractional": rng.integers(-400, 401, size=(n, dim)) / 8.0,
        "float-integer": rng.integers(-50, 51, size=(n, dim)).astype(float),
    }
    for name, d in kinds.items():
        d0 = d.copy()
        got = cs.coordinate_vector(d)
        _unchanged(d0, d, f"the {name} vector batch handed to coordinate_vector()", t)
        got = np.asarray(got)
        if got.shape != d.shape or got.dtype.kind != "f":
            raise Violation("vector-shape", f"coordinate_vector({name} batch {d.shape}, {d.dtype}) returned "
                            f"shape {got.shape}, dtype {got.dtype}", t)
        want = np.empty((n, dim))
        for c, (m, sgn) in enumerate(AXES[dim]):
            want[:, c] = sgn * d[:, m] * ref.h[m]
        bad = np.abs(got - want) > 2 * EPS * np.abs(want)
        if bad.any():
            i, c = (int(k) for k in np.argwhere(bad)[0])
            raise Violation("vector-value", f"{name} vector {d[i].tolist()} -> {got[i].tolist()}, expected "
                            f"{want[i].tolist()} (Cartesian axis {c})", t)
        # a batch of one vector stays a batch, a single vector is the row of the batch
        one = np.asarray(cs.coordinate_vector(d[:1]))
        if one.shape != (1, dim) or not np.array_equal(one, got[:1]):
            raise Violation("vector-shape", f"coordinate_vector({name} batch of one row) returned shape "
                            f"{one.shape} / other values than the first row of the batch", t)
        for i in range(0, n, 5):
            single = np.asarray(cs.coordinate_vector(d[i]))
            if single.shape != (dim,) or not np.array_equal(single, got[i]):
                raise Violation("vector-single", f"coordinate_vector(single {d[i].tolist()}) = "
                                f"{single.tolist()}, row of the batch {got[i].tolist()}", t)
    # displacement between two voxels = converted index difference (to the rounding of coordinate())
    pts = _halo(spec, n, case["tseed"])
    d = kinds["integer"][: len(pts)]
    diff = np.asarray(cs.coordinate(pts + d), float) - np.asarray(cs.coordinate(pts), float)
    vec = np.asarray(cs.coordinate_vector(d))
    tol = 8 * EPS * (_scale(ref, pts) + _scale(ref, pts + d))
    if np.any(np.abs(diff - vec) > tol):
        i = int(np.argwhere(np.any(np.abs(diff - vec) > tol, axis=1))[0][0])
        raise Violation("vector-vs-points", f"coordinate({(pts + d)[i].tolist()}) - coordinate({pts[i].tolist()}) "
                        f"= {diff[i].tolist()}, coordinate_vector({d[i].tolist()}) = {vec[i].tolist()}", t)
    return Outcome(_nontrivial(spec), _key(spec), _labels(spec), evals=4 * n + len(pts))


# ---- 11. lengths <-> voxel counts along a Cartesian axis ----------------------------------------


def check_length_count(case):
    """length(k, axis) is k voxel sizes of the matrix axis paired with that Cartesian axis;
    num_voxels(L, axis) counts all voxels touched by a length L ("include all touched voxels"):
    a length strictly between k-1 and k voxel sizes touches k voxels."""
    spec, img, ref = _setup(case)
    cs = img.coordinatesystem
    dim = spec["dim"]
    t = _tags(spec)
    rng = np.random.default_rng(case["tseed"])
    n = 32
    for c, (m, sgn) in enumerate(AXES[dim]):
        axis = "xyz"[c]
        h = ref.h[m]
        k = rng.integers(0, 200, size=n)
        got = np.asarray(cs.length(k, axis), float)
        if got.shape != (n,) or np.any(np.abs(got - k * h) > 2 * EPS * k * h):
            raise Violation("length", f"length(counts, {axis!r}) differs from counts * voxel size {h!r} of "
                            f"matrix axis {m}", t)
        if abs(float(cs.length(int(k[0]), axis)) - k[0] * h) > 2 * EPS * k[0] * h:
            raise Violation("length", f"length({int(k[0])}, {axis!r}) = {cs.length(int(k[0]), axis)!r}, voxel "
                            f"size {h!r}", t)
        k = rng.integers(1, 200, size=n)
        kind = rng.integers(0, 3, size=n)
        frac = np.where(kind == 0, 0.5, np.where(kind == 1, 1e-6, 1 - 1e-6))
        frac = np.where(rng.integers(0, 2, size=n) == 0, frac, 1e-6 + rng.random(n) * (1 - 2e-6))
        L = (k - frac) * h
        L0 = L.copy()
        cnt = np.asarray(cs.num_voxels(L, axis))
        _unchanged(L0, L, "the length array handed to num_voxels()", t)
        if cnt.shape != (n,) or cnt.dtype.kind not in "iu":
            raise Violation("count-dtype", f"num_voxels(array, {axis!r}) returned shape {cnt.shape}, dtype "
                            f"{cnt.dtype}", t)
        if np.any(cnt != k):
            i = int(np.argmax(cnt != k))
            raise Violation("count", f"a length of {k[i] - frac[i]!r} voxel sizes along {axis} ({L[i]!r}) touches "
                            f"{int(k[i])} voxels, num_voxels = {int(cnt[i])}", t)
        one = cs.num_voxels(float(L[0]), axis)
        if np.ndim(one) != 0 or int(one) != int(k[0]) or np.asarray(one).dtype.kind not in "iu":
            raise Violation("count", f"num_voxels(scalar {L[0]!r}, {axis!r}) = {one!r}, expected {int(k[0])}", t)
    return Outcome(_nontrivial(spec), _key(spec), _labels(spec), evals=2 * n * dim)


# ---- 12. the whole typed conversion table -------------------------------------------------------

_SINGLE = ("Coordinate", "Voxel", "VoxelCenter")


def check_conversion_table(case):
    """point.to(cls, cs) for every source type (coordinate / voxel / voxel centre, single and array)
    and every target class (single or array class name): the result has the target kind, is single
    for a single source and an array for an array source, and holds the reference value.  The point
    constructors applied to a position strictly inside a voxel (in voxel units) give that voxel / its
    centre, and positions given in (column, row) order with matrix_indexing=False are the same 2-D
    points as in (row, column) order."""
    spec, img, ref = _setup(case)
    cs = img.coordinatesystem
    dim = spec["dim"]
    pts = _halo(spec, 24, case["tseed"])
    x, ok, tt = _interior_points(spec, ref, pts, case["tseed"], stress=False)
    if not ok.all():
        pts, x, tt = pts[ok], x[ok], tt[ok]
    if len(pts) == 0:
        return Outcome(False, _key(spec), _labels(spec), status="skipped")
    tg = _tags(spec)
    tg["negative"] = bool(np.any(pts < 0))
    rng = np.random.default_rng(case["tseed"])
    cls = {n: getattr(darsia, n) for n in _SINGLE}
    acls = {n: getattr(darsia, n + "Array") for n in _SINGLE}
    value = {"Coordinate": None, "Voxel": pts, "VoxelCenter": pts + 0.5}
    tolc = 8 * EPS * _scale(ref, pts)
    sources = {"Coordinate": acls["Coordinate"](x), "Voxel": acls["Voxel"](pts),
               "VoxelCenter": acls["Voxel"](pts).to_voxel_center()}

    def compare(src, dst, got, rows, how):
        g = np.asarray(got)
        if dst == "Coordinate":
            want = x[rows] if src == "Coordinate" else ref.coordinate(value[src][rows])
            bad = g.shape != want.shape or (np.any(g != want) if src == "Coordinate"
                                            else np.any(np.abs(g - want) > tolc[rows]))
        else:
            want = value[dst][rows]
            bad = g.shape != want.shape or np.any(g != want)
        if bad:
            raise Violation(f"table-value:{src}->{dst}", f"{how}: {g.tolist()[:3]}, expected "
                            f"{np.asarray(want).tolist()[:3]}", tg)

    rows_all = np.arange(len(pts))
    i = int(rng.integers(0, len(pts)))
    for src, arr in sources.items():
        a0 = np.asarray(arr).copy()
        for dst in _SINGLE:
            needs_cs = (src == "Coordinate") != (dst == "Coordinate")
            for target in (cls[dst], acls[dst]):
                for with_cs in ((True,) if needs_cs else (True, False)):
                    args = (target, cs) if with_cs else (target,)
                    how = f"{src}Array.to({target.__name__}{', cs' if with_cs else ''})"
                    got = arr.to(*args)
                    if type(got) is not acls[dst]:
                        raise Violation(f"table-type:{src}->{dst}", f"{how} is a {type(got).__name__}", tg)
                    compare(src, dst, got, rows_all, how)
                    one = arr[i]
                    if type(one) is not cls[src]:
                        raise Violation(f"table-type:{src}->{src}", f"{src}Array[int] is a {type(one).__name__}", tg)
                    how = f"{src}.to({target.__name__}{', cs' if with_cs else ''})"
                    got = one.to(*args)
                    if type(got) is not cls[dst]:
                        raise Violation(f"table-type:{src}->{dst}", f"{how} is a {type(got).__name__}", tg)
                    compare(src, dst, got, i, how)
        _unchanged(a0, np.asarray(arr), f"the {src}Array that was converted", tg)
    # constructors on positions strictly inside a voxel, in voxel units
    pos = pts + tt
    made = {
        "Voxel": (darsia.Voxel(pos[i]), darsia.make_voxel(pos[i]), darsia.make_voxel(pos[i].tolist())),
        "VoxelCenter": (darsia.VoxelCenter(pos[i]), darsia.make_voxel_center(pos[i]),
                        darsia.make_voxel_center(pos[i].tolist())),
    }
    made_arr = {
        "Voxel": (darsia.VoxelArray(pos), darsia.make_voxel(pos), darsia.make_voxel(pos.tolist())),
        "VoxelCenter": (darsia.VoxelCenterArray(pos), darsia.make_voxel_center(pos),
                        darsia.make_voxel_center(pos.tolist())),
    }
    for dst in ("Voxel", "VoxelCenter"):
        for got in made[dst]:
            if type(got) is not cls[dst] or np.asarray(got).shape != (dim,) or np.any(np.asarray(got) != value[dst][i]):
                raise Violation(f"constructor:{dst}", f"{dst} from the position {pos[i].tolist()} is a "
                                f"{type(got).__name__} {np.asarray(got).tolist()}, expected "
                                f"{value[dst][i].tolist()}", tg)
        for got in made_arr[dst]:
            if type(got) is not acls[dst] or np.asarray(got).shape != pos.shape or np.any(np.asarray(got) != value[dst]):
                raise Violation(f"constructor:{dst}", f"{dst}Array from positions inside voxels is a "
                                f"{type(got).__name__} with other values than the voxels"
                                f"{' + 1/2' if dst == 'VoxelCenter' else ''}", tg)
        if dst == "Voxel" and (np.asarray(made[dst][0]).dtype.kind not in "iu"
                               or np.asarray(made_arr[dst][0]).dtype.kind not in "iu"):
            raise Violation("constructor:Voxel", "Voxel / VoxelArray do not hold integers", tg)
    if dim == 2:
        # (column, row) order, as delivered by image-processing back ends
        flipped = {
            "Voxel": (darsia.Voxel(pos[i][::-1], matrix_indexing=False), darsia.make_voxel(pos[i][::-1], matrix_indexing=False)),
            "VoxelCenter": (darsia.VoxelCenter(pos[i][::-1], matrix_indexing=False),
                            darsia.make_voxel_center(pos[i][::-1], matrix_indexing=False)),
        }
        flipped_arr = {
            "Voxel": (darsia.VoxelArray(pos[:, ::-1], matrix_indexing=False), darsia.make_voxel(pos[:, ::-1], matrix_indexing=False)),
            "VoxelCenter": (darsia.VoxelCenterArray(pos[:, ::-1], matrix_indexing=False),
                            darsia.make_voxel_center(pos[:, ::-1], matrix_indexing=False)),
        }
        for dst in ("Voxel", "VoxelCenter"):
            for got in flipped[dst]:
                if type(got) is not cls[dst] or np.asarray(got).shape != (dim,) or np.any(np.asarray(got) != value[dst][i]):
                    raise Violation(f"column-row-order:{dst}", f"{dst} of the (column, row) position "
                                    f"{pos[i][::-1].tolist()} with matrix_indexing=False is "
                                    f"{type(got).__name__} {np.asarray(got).tolist()}, expected (row, column) "
                                    f"{value[dst][i].tolist()}", tg)
            for got in flipped_arr[dst]:
                if type(got) is not acls[dst] or np.asarray(got).shape != pos.shape or np.any(np.asarray(got) != value[dst]):
                    raise Violation(f"column-row-order:{dst}", f"{dst}Array of (column, row) positions with "
                                    f"matrix_indexing=False is a {type(got).__name__} / not the (row, column) "
                                    f"points", tg)
    return Outcome(_nontrivial(spec), _key(spec), _labels(spec) + (("halo-negative",) if tg["negative"] else ()),
                   evals=36 * 2 + 12)


# ---- 13. other ways of stating the same geometry -------------------------------------------------

_FORMS = ("height-width-depth", "height-width-depth-over-dimensions", "height-only", "integer-typed",
          "tuple", "ndarray", "coordinate-origin", "dimensions-omitted")


def gen_forms(tier):
    return st.fixed_dictionaries({
        "img": gens.image_specs(
            dims=(1, 2, 3), max_extent={1: 40, 2: 9, 3: 5},
            dtypes=("float64", "uint8"), max_nt=3, max_comp=3),
        "tseed": st.integers(0, 2**16),
        "form": st.sampled_from(_FORMS),
    })


def check_geometry_forms(case):
    """The same geometry stated through another documented form of the constructor arguments
    (height / width / depth keywords - also over-writing entries of `dimensions` -, integer-typed
    numbers, tuples, arrays, a typed Coordinate as origin, dimensions left at the default unit
    extent) gives the same maps as the reference for that geometry."""
    spec = dict(case["img"])
    form = case["form"]
    dim = spec["dim"]
    if form.startswith("height") and dim == 1:
        form = "tuple"  # the keywords address the axes of 2-D and 3-D images
    kw = gens.image_kwargs(spec)
    dims = [float(d) for d in spec["dimensions"]]
    origin = None if spec["origin"] is None else [float(o) for o in spec["origin"]]
    names = ("height", "width", "depth")[:dim]
    if form == "height-width-depth":
        kw.pop("dimensions")
        kw.update(dict(zip(names, dims)))
    elif form == "height-width-depth-over-dimensions":
        kw["dimensions"] = [2.0 * d + 1.0 for d in dims]
        kw.update(dict(zip(names, dims)))
    elif form == "height-only":
        kw["dimensions"] = [3.0 * dims[0] + 1.0] + dims[1:]
        kw["height"] = dims[0]
    elif form == "integer-typed":
        dims = [float(max(1, min(10**6, round(d)))) for d in dims]
        kw["dimensions"] = [int(d) for d in dims]
        if origin is not None:
            origin = [float(round(o)) for o in origin]
            kw["origin"] = [int(o) for o in origin]
    elif form == "tuple":
        kw["dimensions"] = tuple(dims)
        if origin is not None:
            kw["origin"] = tuple(origin)
    elif form == "ndarray":
        kw["dimensions"] = np.array(dims)
        if origin is not None:
            kw["origin"] = np.array(origin)
    elif form == "coordinate-origin":
        if origin is not None:
            kw["origin"] = darsia.Coordinate(np.array(origin))
        else:
            form = "plain-lists"
    elif form == "dimensions-omitted":
        kw.pop("dimensions")
        dims = [1.0] * dim
    arr = gens.payload_array(gens.full_shape(spec), spec["dtype"], spec["pseed"], True)
    given = {k: (type(kw[k]), np.array(kw[k])) for k in ("dimensions", "origin") if k in kw}
    img = darsia.Image(arr, **kw)
    ref = RefCS(dim, spec["shape"], dims, origin)
    spec["dimensions"], spec["origin"] = dims, origin
    t = _tags(spec)
    t["form"] = form
    for k, (tp, val) in given.items():
        if type(kw[k]) is not tp:
            raise Violation("argument-mutated", f"the {k} argument changed its type", t)
        _unchanged(val, np.array(kw[k]), f"the {k} argument of the constructor ({form})", t)
    if [float(d) for d in img.dimensions] != dims:
        raise Violation(f"form-dimensions:{form}", f"image.dimensions = {list(img.dimensions)}, stated {dims}", t)
    cs = img.coordinatesystem
    o = np.asarray(cs.coordinate([0] * dim), float)
    if not np.array_equal(o, ref.origin) or not np.array_equal(np.asarray(img.origin, float), ref.origin):
        raise Violation(f"form-origin:{form}", f"coordinate(0) = {o.tolist()}, image.origin = "
                        f"{np.asarray(img.origin).tolist()}, expected {ref.origin.tolist()}", t)
    pts = _halo(spec, 60, case["tseed"])
    got = np.asarray(cs.coordinate(pts), float)
    if np.any(np.abs(got - ref.coordinate(pts)) > 8 * EPS * _scale(ref, pts)):
        raise Violation(f"form-coordinate:{form}", "coordinate() differs from the reference map of the stated "
                        "geometry", t)
    opp = np.asarray(img.opposite_corner, float)
    for c, (m, s) in enumerate(AXES[dim]):
        if abs((opp[c] - ref.origin[c]) - s * dims[m]) > 8 * EPS * (abs(ref.origin[c]) + dims[m]):
            raise Violation(f"form-opposite:{form}", f"axis {c}: opposite - origin = {opp[c] - ref.origin[c]!r}, "
                            f"dimension {s * dims[m]!r}", t)
    x, ok, _t = _interior_points(spec, ref, pts, case["tseed"], stress=False)
    gv = np.asarray(cs.voxel(x))
    if np.any(np.any(gv != pts, axis=1) & ok):
        i = int(np.argmax(np.any(gv != pts, axis=1) & ok))
        raise Violation(f"form-voxel:{form}", f"point {x[i].tolist()} inside voxel {pts[i].tolist()} -> "
                        f"{gv[i].tolist()}", t)
    if ok.any():
        back = darsia.VoxelArray(pts[ok]).to_voxel_center().to_coordinate(cs).to_voxel(cs)
        if np.any(np.asarray(back) != pts[ok]):
            raise Violation(f"form-voxel:{form}", "voxel -> centre -> coordinate -> voxel is not the identity", t)
    # in place: the image can be put back to the default origin of its (stated) dimensions
    img.reset_origin()
    r0 = RefCS(dim, spec["shape"], dims, None)
    got = np.asarray(img.coordinatesystem.coordinate(pts), float)
    if np.any(np.abs(got - r0.coordinate(pts)) > 8 * EPS * _scale(r0, pts)):
        raise Violation(f"form-reset:{form}", "after reset_origin() coordinate() differs from the reference "
                        "map with the default origin", t)
    return Outcome(True, _key(spec, [form]), _labels(spec) + (f"form-{form}",), evals=len(pts))


_RULE = ("Hypothesis draws the image geometry (space_dim 1-3, extents incl. single-voxel axes, "
         "power-of-two / generic / unit voxel sizes in 1e-4..1e4, default or user origin up to 1e6 "
         "voxel sizes away, scalar / vector / series payload); every voxel plus a halo of width 3 "
         "is evaluated (sub-sampled above the cap); non-trivial = dim>=2 or user origin or a "
         "single-voxel axis; distinct = (dim, shape, dimensions, origin, payload kind); displacement "
         "vectors (unit / integer / fractional, single and batch), lengths and voxel counts per Cartesian "
         "axis, the full point.to(cls) table (3 source kinds x single/array x 6 target classes, with and "
         "without coordinate system), point constructors on positions inside voxels incl. (column, row) "
         "order in 2-D, and 8 alternative forms of stating the geometry to the constructor")

_N = {"quick": 640, "thorough": 16000}
_SH = {"quick": 3, "thorough": 16}
_SH2 = {"quick": 2, "thorough": 16}

PROP = Prop(
    pid="C01",
    rule=_RULE,
    assumptions=[
        "reference map RefCS spelled from the documented convention (x<->j, y<->i reversed in 2-D; "
        "x<->j, y<->k reversed, z<->i reversed in 3-D, as used by the default origin)",
        "points on voxel faces are not asserted; interior margin max(1e-6, 64 eps (|x|+|o|)/h)",
        "Image.domain is the plotting extent (left, right, bottom, top) its callers hand to imshow; 3-D is "
        "documented as not implemented and not called",
        "matrix_indexing=False is asserted in 2-D only ((column, row) order of image-processing back ends, "
        "the one caller); height / width / depth keywords in 2-D and 3-D only, as documented",
        "num_voxels is asserted only for lengths at least 1e-6 voxel sizes away from a whole number of voxels",
    ],
    subs=[
        Sub("origin_corner", check_origin_corner, gen=gen, n=_N, shards=_SH),
        Sub("unit_step", check_unit_step, gen=gen, n=_N, shards=_SH),
        Sub("matches_reference", check_matches_reference, gen=gen, n=_N, shards=_SH),
        Sub("interior_point_roundtrip", check_interior_roundtrip, gen=gen, n=_N, shards=_SH),
        Sub("batch_equals_single", check_batch_single, gen=gen, n={"quick": 320, "thorough": 8000}, shards=_SH),
        Sub("typed_points", check_typed_points, gen=gen, n={"quick": 320, "thorough": 8000}, shards=_SH),
        Sub("integer_typed_points", check_integer_points, gen=gen, n=_N, shards=_SH),
        Sub("follows_current_metadata", check_metadata_update, gen=gen, n=_N, shards=_SH),
        Sub("typed_array_selection", check_typed_selection, gen=gen, n={"quick": 320, "thorough": 8000}, shards=_SH),
        Sub("displacement_vectors", check_displacement_vectors, gen=gen, n={"quick": 320, "thorough": 8000}, shards=_SH2),
        Sub("length_voxel_count", check_length_count, gen=gen, n={"quick": 240, "thorough": 8000}, shards=_SH2),
        Sub("conversion_table", check_conversion_table, gen=gen, n={"quick": 320, "thorough": 8000}, shards=_SH2),
        Sub("geometry_call_forms", check_geometry_forms, gen=gen_forms, n={"quick": 480, "thorough": 16000}, shards=_SH2),
    ],
)
