"""C02 - extracted sub-images keep their data and their physical placement.

The oracle is an explicit model that runs next to the real image through an extraction
*program*: an integer offset vector into the root array, the current spatial shape, the list of
selected root time indices (or the single selected index after ``time_slice``), and the root
reference coordinate system ``RefCS``.  After every step the real child is compared with what
the model says the child must be.
"""
import copy
import datetime as _dt

import numpy as np
from hypothesis import strategies as st

import darsia
from vf import gens
from vf.oracles import AXES, RefCS
from vf.runner import Outcome, Prop, Sub, Violation

EPS = np.finfo(float).eps
# Rounding budget of the placement comparison, in units of eps * (|origin| + extent + h):
# one extraction level computes origin' = o + s*start*h and opposite' likewise (2 roundings
# each), dimensions' = |opposite' - origin'| and h' = dimensions'/n' ; a coordinate of the child
# is o' + s*v*h' -> at most ~10 eps*scale per level, 4 levels, factor 3 head-room.
KTOL = 128
FRAC = [0.5, 0.05, 0.95, 0.25, 0.75]
STACK_DTYPES = ["uint8", "uint16", "float32", "float64"]

# ---------------------------------------------------------------------------------------
# generators
# ---------------------------------------------------------------------------------------


COLOR_SPACES = ["RGB", "BGR", "HSV"]  # the colour spaces OpticalImage accepts


def _img_specs(series=(False, True, True)):
    # extraction is indexing: the data type must not matter, so a few more than the two usual
    # ones are drawn (payloads: see gens.payload_array; all compared exactly)
    return gens.image_specs(
        dims=(2, 3), max_extent={2: 8, 3: 5},
        dtypes=("float64", "float64", "uint8", "uint8", "float32", "bool"),
        series=series, max_nt=5, max_comp=3)


def _draw_cls(draw, spec):
    if spec["payload"] == "scalar":
        return draw(st.sampled_from(["Image", "ScalarImage"]))
    if spec["dim"] == 2 and spec["ncomp"] == 3:
        return draw(st.sampled_from(["Image", "OpticalImage", "OpticalImage"]))
    return "Image"


def _draw_root_opts(draw, spec, cls):
    """Constructor arguments of the root that the spec does not carry: the colour space of an
    OpticalImage (RGB is the constructor's default, so only BGR / HSV show whether a child was
    given the colour space of its parent) and a reference date chosen by the user (the default
    reference date is the image's own first date, which a child re-derives identically from
    its own dates whenever it starts at the first frame)."""
    opts = {}
    if cls == "OpticalImage":
        opts["cspace"] = draw(st.sampled_from(COLOR_SPACES))
    if spec["time"] in ("date", "both") and draw(st.booleans()):
        # minutes between the reference date (experiment start) and BASE_DATE; the first frame
        # is taken t0 <= 5 minutes after BASE_DATE: reference before, at or after the first frame
        opts["refmin"] = draw(st.sampled_from([-3, 0, 1, 7, 60, 600, 43200]))
    return opts


def _root_extra(opts):
    extra = {}
    if opts and opts.get("refmin") is not None:
        extra["reference_date"] = gens.BASE_DATE - _dt.timedelta(minutes=opts["refmin"])
    return extra


def _draw_slices(draw, shape, allow_beyond):
    """-> (list of [start, stop] with None for open ends, new offset increments, new shape,
    beyond flag).  Never empty, never negative, never stepped."""
    beyond_step = allow_beyond and draw(st.integers(0, 7)) == 0
    sl, inc, new = [], [], []
    any_beyond = False
    for ax, n in enumerate(shape):
        start = draw(st.one_of(st.none(), st.integers(0, n - 1)))
        s0 = 0 if start is None else start
        want_beyond = beyond_step and (draw(st.booleans()) or (ax == len(shape) - 1 and not any_beyond))
        if want_beyond:
            stop = draw(st.integers(n + 1, n + 3))
            any_beyond = True
        else:
            stop = draw(st.one_of(st.none(), st.just(n), st.integers(s0 + 1, n)))
        e0 = n if stop is None else min(stop, n)
        sl.append([start, stop])
        inc.append(s0)
        new.append(e0 - s0)
    return sl, inc, new, any_beyond


def _draw_box_points(draw, shape, dim):
    """Corner points (voxel indices in the current image, possibly outside it) whose bounding
    box, clipped to the image, is not empty.  At least `dim` points as documented."""
    lo, hi = [], []
    for n in shape:
        a = draw(st.integers(-2, n - 1))
        b = draw(st.integers(max(a, 0) + 1, n + 2))
        lo.append(a)
        hi.append(b)
    npts = draw(st.integers(dim, 4))
    if npts >= 3 and draw(st.booleans()):
        # "points ... uniquely defining a box, i.e., at least space_dim points": the extremes of
        # the box are spread over the points, no two of them need to be opposite corners.  Per
        # axis one point carries the lower and another one the upper bound, the rest lie between.
        pts = [[None] * len(shape) for _ in range(npts)]
        for i in range(len(shape)):
            who = draw(st.permutations(list(range(npts))))
            pts[who[0]][i] = lo[i]
            pts[who[1]][i] = hi[i]
            for k in who[2:]:
                pts[k][i] = draw(st.integers(lo[i], hi[i]))
    else:
        first = [draw(st.booleans()) for _ in shape]
        pts = [[hi[i] if first[i] else lo[i] for i in range(len(shape))],
               [lo[i] if first[i] else hi[i] for i in range(len(shape))]]
        for _ in range(npts - 2):
            pts.append([draw(st.integers(lo[i], hi[i])) for i in range(len(shape))])
    order = draw(st.permutations(list(range(npts))))
    pts = [pts[i] for i in order]
    inc = [max(a, 0) for a in lo]
    new = [min(hi[i], shape[i]) - inc[i] for i in range(len(shape))]
    outside = any(a < 0 for a in lo) or any(hi[i] > shape[i] for i in range(len(shape)))
    return pts, inc, new, outside


def _draw_fracs(draw, npts, dim):
    return [[draw(st.sampled_from(FRAC)) for _ in range(dim)] for _ in range(npts)]


def _draw_tsel(draw, nt):
    """Slice parameters [start, stop, step] of a non-empty selection of the frames 0..nt-1, built
    against nt (no filtering): contiguous (open ends allowed), strided (step 2 or 3) or reversed
    (step -1 or -2); every bound may also be spelled from the end (negative index), as for any
    Python slice.  `time_interval` documents its argument as "slice" without restriction and
    passes it to numpy, so the frames it selects are `range(nt)[slice]`."""
    kind = "plain"
    if nt >= 2:
        kind = draw(st.sampled_from(["plain", "plain", "plain", "stride", "stride", "stride", "reverse"]))

    def spell(i):
        # the same bound counted from the end; i == nt (a stop at the end) has no such spelling
        return i - nt if i < nt and draw(st.integers(0, 2)) == 0 else i

    if kind == "reverse":
        step = draw(st.sampled_from([-1, -1, -2]))
        a = draw(st.one_of(st.none(), st.integers(0, nt - 1)))
        a0 = nt - 1 if a is None else a
        b = draw(st.one_of(st.none(), st.integers(0, a0 - 1))) if a0 >= 1 else None
    else:
        step = draw(st.sampled_from([2, 2, 3])) if kind == "stride" else draw(st.sampled_from([None, None, 1]))
        a = draw(st.one_of(st.none(), st.integers(0, nt - 1)))
        a0 = 0 if a is None else a
        b = draw(st.one_of(st.none(), st.just(nt), st.integers(a0 + 1, nt)))
    a = None if a is None else spell(a)
    b = None if b is None else spell(b)
    sel = list(range(nt))[slice(a, b, step)]
    assert sel, (nt, a, b, step)
    return [a, b, step], len(sel)


def _tsel_classes(sl, nt):
    """Class labels of a time selection (for the evidence)."""
    a, b = sl[0], sl[1]
    step = sl[2] if len(sl) > 2 else None
    out = set()
    sel = list(range(nt))[slice(a, b, step)]
    if step is not None and step > 1:
        out.add("tint-strided")
    if step is not None and step < 0:
        out.add("tint-reversed")
    if (a is not None and a < 0) or (b is not None and b < 0):
        out.add("tint-bound-from-end")
    if len(sel) >= 2 and sel != list(range(sel[0], sel[0] + len(sel))):
        # the selected frames are not parent[first:last] for any first, last
        out.add("tint-not-a-run")
    return out


@st.composite
def programs(draw):
    spec = draw(_img_specs())
    dim = spec["dim"]
    cls = _draw_cls(draw, spec)
    shape = list(spec["shape"])
    series = spec["series"]
    nt = spec["nt"]
    steps = []
    nsteps = draw(st.integers(1, 4))
    for _ in range(nsteps):
        ops = ["slices", "slices", "slices", "voxels", "coords"]
        if series:
            ops += ["tslice", "tint", "tint"]
        op = draw(st.sampled_from(ops))
        if op == "slices":
            sl, inc, new, beyond = _draw_slices(draw, shape, True)
            steps.append({"op": "slices", "sl": sl})
            shape = new
        elif op == "voxels":
            pts, inc, new, outside = _draw_box_points(draw, shape, dim)
            steps.append({"op": "voxels", "pts": pts})
            shape = new
        elif op == "coords":
            pts, inc, new, outside = _draw_box_points(draw, shape, dim)
            steps.append({"op": "coords", "pts": pts, "frac": _draw_fracs(draw, len(pts), dim)})
            shape = new
        elif op == "tslice":
            steps.append({"op": "tslice", "k": draw(st.integers(0, nt - 1))})
            series = False
        else:
            sl, nt = _draw_tsel(draw, nt)
            steps.append({"op": "tint", "sl": sl})
    return {"img": spec, "cls": cls, "steps": steps, "opts": _draw_root_opts(draw, spec, cls)}


def gen_programs(tier):
    return programs()


@st.composite
def forms_cases(draw):
    spec = draw(_img_specs(series=(False, False, True)))
    dim = spec["dim"]
    cls = _draw_cls(draw, spec)
    shape = list(spec["shape"])
    pre = None
    if draw(st.booleans()):
        sl, inc, new, _ = _draw_slices(draw, shape, False)
        pre = {"op": "slices", "sl": sl}
        shape = new
    pts, inc, new, outside = _draw_box_points(draw, shape, dim)
    return {"img": spec, "cls": cls, "pre": pre, "pts": pts,
            "frac": _draw_fracs(draw, len(pts), dim), "opts": _draw_root_opts(draw, spec, cls)}


def gen_forms(tier):
    return forms_cases()


@st.composite
def stack_cases(draw):
    spec = draw(gens.image_specs(
        dims=(2, 3), max_extent={2: 6, 3: 4}, dtypes=("float64", "uint8"), series=(False,),
        times=("none",), max_comp=3))
    n = draw(st.integers(2, 5))
    tclass = draw(st.sampled_from(["date", "time-offset", "both-offset", "none"]))
    case = {
        "img": spec,
        "cls": _draw_cls(draw, spec),
        "n": n,
        "tclass": tclass,
        # strictly increasing dates (append asserts last < next), minutes after BASE_DATE
        "minutes": [int(x) for x in np.cumsum([draw(st.integers(0, 5))] + [draw(st.integers(1, 90)) for _ in range(n - 1)])],
        # relative times and offsets are multiples of 1/4: t + offset is exact
        "times": [draw(st.integers(-40, 400)) / 4.0 for _ in range(n)],
        "offsets": [draw(st.integers(-40, 400)) / 4.0 for _ in range(n)],
        "int_offsets": draw(st.booleans()),
        "split": draw(st.integers(1, n - 1)),
    }
    case["tint"], _ = _draw_tsel(draw, n)
    # a series appended to a series (or to a single image) with an offset
    case["series_offset"] = draw(st.integers(-40, 400)) / 4.0
    # all images refer to one reference date chosen by the user (start of the experiment),
    # given in minutes before BASE_DATE; None: every image refers to its own date (the default)
    case["refmin"] = draw(st.sampled_from([None, None, -3, 0, 7, 600, 43200]))
    # data types of the n images: all the one of the spec, or drawn per image.  Every pair of
    # STACK_DTYPES has a common numpy type that holds both exactly (uint8 < uint16 < float32 <
    # float64 on these payloads: integers < 2**16, multiples of 1/8 in [-4, 4)), so "slicing
    # the series returns the originals" is an exact statement about values for mixed inputs too
    if draw(st.booleans()):
        case["dtypes"] = [draw(st.sampled_from(STACK_DTYPES)) for _ in range(n)]
    else:
        case["dtypes"] = None
    return case


def gen_stack(tier):
    return stack_cases()


# ---------------------------------------------------------------------------------------
# building blocks
# ---------------------------------------------------------------------------------------

def _build(spec, cls, extra=None, opts=None):
    """-> (image, private copy of its array).  `opts`: see _draw_root_opts (absent in cases
    recorded before they existed: RGB, default reference date)."""
    arr = gens.payload_array(gens.full_shape(spec), spec["dtype"], spec["pseed"], True)
    kw = gens.image_kwargs(spec)
    kw.update(_root_extra(opts))
    if extra:
        kw.update(extra)
    if cls == "ScalarImage":
        kw.pop("scalar", None)
        return darsia.ScalarImage(arr, **kw), arr.copy()
    if cls == "OpticalImage":
        kw.pop("scalar", None)
        kw.pop("space_dim", None)
        return darsia.OpticalImage(arr, color_space=(opts or {}).get("cspace", "RGB"), **kw), arr.copy()
    return darsia.Image(arr, **kw), arr.copy()


def _sl(pair):
    return slice(*pair)  # [start, stop] or [start, stop, step]


class Model:
    """What the child must be, tracked independently of the code under test."""

    def __init__(self, spec, root):
        self.dim = spec["dim"]
        self.off = [0] * self.dim
        self.shape = list(spec["shape"])
        self.t = list(range(spec["nt"])) if spec["series"] else None  # list | int | None
        self.series = bool(spec["series"])
        self.ref = RefCS(spec["dim"], spec["shape"], spec["dimensions"], spec["origin"])
        self.root_time = copy.deepcopy(root.time)
        self.root_date = copy.deepcopy(root.date)
        self.root_series = bool(spec["series"])
        self.scalar = spec["payload"] == "scalar"
        self.ncomp = spec["ncomp"]
        self.beyond = False  # some stop went beyond the border so far
        self.row_offset = False  # some spatial step had a non-zero offset on the row axis
        self.classes = set()

    def narrow(self, inc, new):
        for i in range(self.dim):
            self.off[i] += inc[i]
        self.shape = list(new)
        if inc[0] != 0:
            self.row_offset = True

    # expected values -------------------------------------------------------------------
    def expected_array(self, root_arr):
        box = tuple(slice(self.off[i], self.off[i] + self.shape[i]) for i in range(self.dim))
        blk = root_arr[box]
        if self.root_series:
            blk = np.take(blk, self.t, axis=self.dim)
        return blk

    def expected_time(self):
        if not self.root_series:
            return self.root_time, self.root_date
        if isinstance(self.t, list):
            return [self.root_time[i] for i in self.t], [self.root_date[i] for i in self.t]
        return self.root_time[self.t], self.root_date[self.t]

    def scale(self):
        """Magnitude of the numbers entering o + s*v*h over the root image, per Cartesian axis."""
        out = np.empty(self.dim)
        for c, (m, s) in enumerate(AXES[self.dim]):
            out[c] = abs(self.ref.origin[c]) + (self.ref.shape[m] + 1) * self.ref.h[m]
        return out


def _box_from_points(pts, shape):
    a = np.asarray(pts, dtype=int)
    lo = [max(0, int(a[:, d].min())) for d in range(len(shape))]
    hi = [min(int(a[:, d].max()), shape[d]) for d in range(len(shape))]
    return lo, hi


def _corners_spread(pts):
    """No two of the points are opposite corners of their bounding box."""
    a = np.asarray(pts, dtype=int)
    lo, hi = a.min(axis=0), a.max(axis=0)
    for i in range(len(a)):
        for j in range(i + 1, len(a)):
            if np.all(((a[i] == lo) & (a[j] == hi)) | ((a[i] == hi) & (a[j] == lo))):
                return False
    return True


def _physical_points(model, pts, frac):
    """Physical coordinates of interior points of the given voxels of the *current* child,
    computed through the root reference map (never through the code under test)."""
    v = np.asarray(pts, dtype=float) + np.asarray(frac, dtype=float) + np.asarray(model.off, float)
    return model.ref.coordinate(v)


class ParentMisplaced(Exception):
    """The image a physical box is about to be cut from is itself misplaced.  The placement
    sub-check reports exactly this (on the step that misplaced it); the other sub-checks skip
    the rest of such a program instead of reporting the wrong block selected as a consequence."""

    def __init__(self, violation):
        super().__init__(str(violation))
        self.violation = violation


def _apply(img, step, model, tags=None):
    op = step["op"]
    if op == "slices":
        inc, new = [], []
        for i, (a, b) in enumerate(step["sl"]):
            n = model.shape[i]
            s0 = 0 if a is None else a
            e0 = n if b is None else min(b, n)
            if b is not None and b > n:
                model.beyond = True
                model.classes.add("stop-beyond")
            if a is None or b is None:
                model.classes.add("open-ended")
            if e0 == n and s0 > 0:
                model.classes.add("touches-border")
            inc.append(s0)
            new.append(e0 - s0)
        child = img.subregion(tuple(_sl(p) for p in step["sl"]))
        model.narrow(inc, new)
    elif op in ("voxels", "coords"):
        lo, hi = _box_from_points(step["pts"], model.shape)
        a = np.asarray(step["pts"])
        if a.min() < 0 or any(a[:, d].max() > model.shape[d] for d in range(model.dim)):
            model.classes.add("roi-partly-outside")
        if _corners_spread(step["pts"]):
            model.classes.add("corners-spread")
        if op == "voxels":
            child = img.subregion(darsia.VoxelArray(np.asarray(step["pts"], dtype=int)))
        else:
            # a physical box is interpreted through the parent's coordinate system: a parent
            # that is already misplaced is reported as such (one root cause = one kind), not
            # as the wrong block it then selects
            try:
                _check_placement(img, model, -1, {"op": "parent-of-coords"}, tags)
            except Violation as v:
                raise ParentMisplaced(v)
            x = _physical_points(model, step["pts"], step["frac"])
            child = img.subregion(darsia.CoordinateArray(x))
        model.narrow(lo, [hi[i] - lo[i] for i in range(model.dim)])
    elif op == "tslice":
        child = img.time_slice(step["k"])
        model.t = model.t[step["k"]]
        model.series = False
    elif op == "tint":
        model.classes |= _tsel_classes(step["sl"], len(model.t))
        child = img.time_interval(_sl(step["sl"]))
        model.t = model.t[_sl(step["sl"])]
    else:  # pragma: no cover
        raise AssertionError(op)
    return child


def _tags(case, model, step):
    spec = case["img"]
    return {"dim": spec["dim"], "op": step["op"], "beyond": bool(model.beyond),
            "payload": spec["payload"], "series": bool(spec["series"]), "cls": case.get("cls", "Image")}


def _kind(kind, model):
    return kind + (":stop-beyond" if model.beyond else "")


def _run_program(case, visit, strict=False):
    spec = case["img"]
    root, root_arr = _build(spec, case["cls"], opts=case.get("opts"))
    model = Model(spec, root)
    cur = root
    n = 0
    for k, step in enumerate(case["steps"]):
        try:
            cur = _apply(cur, step, model, _tags(case, model, step))
        except ParentMisplaced as e:
            if strict:
                raise e.violation
            out = _outcome(case, model, n)
            out.status = "skipped"
            out.labels = out.labels + ("skipped:parent-misplaced",)
            return out
        n += visit(cur, model, root_arr, k, step)
    # the root is not touched by extracting from it
    if not np.array_equal(root.img, root_arr):
        raise Violation("root-data-changed", "the root image's data changed while extracting "
                        "from it", _tags(case, model, case["steps"][-1]))
    return _outcome(case, model, n)


def _outcome(case, model, evals):
    spec = case["img"]
    steps = case["steps"]
    spatial = [s for s in steps if s["op"] in ("slices", "voxels", "coords")]
    nontrivial = ((len(steps) >= 2 and bool(spatial) and model.row_offset) or spec["dim"] == 3
                  or spec["series"] or spec["payload"] == "vector")
    labels = [f"dim{spec['dim']}", f"steps{len(steps)}",
              f"payload-{spec['payload']}{'-series' if spec['series'] else ''}",
              f"cls-{case['cls']}", f"time-{spec['time']}",
              "origin-user" if spec["origin"] is not None else "origin-default"]
    labels += sorted({f"op-{s['op']}" for s in steps})
    labels += sorted(model.classes)
    if model.row_offset:
        labels.append("row-offset")
    opts = case.get("opts") or {}
    labels.append(f"dtype-{spec['dtype']}")
    if opts.get("refmin") is not None:
        labels.append("refdate-user")
    if case["cls"] == "OpticalImage":
        labels.append(f"cspace-{opts.get('cspace', 'RGB')}")
    key = [spec["dim"], spec["shape"], spec["dimensions"], spec["origin"], spec["payload"],
           spec["ncomp"], spec["series"], spec["nt"], spec["time"], steps, spec["dtype"],
           sorted(opts.items())]
    return Outcome(nontrivial, key, tuple(labels), evals=max(1, evals))


# ---------------------------------------------------------------------------------------
# 1. data block
# ---------------------------------------------------------------------------------------


def check_data_block(case):
    def visit(child, model, root_arr, k, step):
        want = model.expected_array(root_arr)
        got = child.img
        t = _tags(case, model, step)
        if got.shape != want.shape:
            raise Violation(_kind("data-shape", model), f"step {k} ({step['op']}): child array has "
                            f"shape {got.shape}, the selected block has shape {want.shape}", t)
        if got.dtype != want.dtype:
            raise Violation(_kind("data-dtype", model), f"step {k}: dtype {got.dtype} vs {want.dtype}", t)
        if not np.array_equal(got, want):
            raise Violation(_kind("data-values", model), f"step {k} ({step['op']}): child data "
                            f"differ from the root block at offset {model.off}, time indices "
                            f"{model.t}", t)
        if list(child.num_voxels) != list(model.shape):
            raise Violation(_kind("num-voxels", model), f"step {k}: num_voxels {child.num_voxels} "
                            f"vs {model.shape}", t)
        return 1

    return _run_program(case, visit)


# ---------------------------------------------------------------------------------------
# 2. placement
# ---------------------------------------------------------------------------------------


def _check_placement(child, model, k, step, t):
    dim = model.dim
    tol = KTOL * EPS * model.scale()
    if child.space_dim != dim or len(child.dimensions) != dim or len(child.origin) != dim:
        raise Violation(_kind("geometry-rank", model), f"step {k}: space_dim {child.space_dim}, "
                        f"dimensions {child.dimensions}, origin {child.origin}", t)
    # every voxel corner of the child, including the far corner planes (index == shape)
    v = np.indices([n + 1 for n in model.shape]).reshape(dim, -1).T
    got = np.asarray(child.coordinatesystem.coordinate(v), dtype=float)
    want = model.ref.coordinate(v + np.asarray(model.off))
    bad = np.abs(got - want) > tol
    if bad.any():
        i = int(np.argwhere(bad)[0][0])
        raise Violation(_kind("placement", model), f"step {k} ({step['op']}): child voxel "
                        f"{v[i].tolist()} = root voxel {(v[i] + np.asarray(model.off)).tolist()} "
                        f"is placed at {got[i].tolist()}, the root places it at {want[i].tolist()}", t)
    # voxel size, compared as extents so that the tolerance is the one of the coordinates
    vs = np.asarray(child.voxel_size, dtype=float)
    for c, (m, s) in enumerate(AXES[dim]):
        if abs(vs[m] - model.ref.h[m]) * model.shape[m] > tol[c]:
            raise Violation(_kind("voxel-size", model), f"step {k} ({step['op']}): voxel size "
                            f"{vs.tolist()} vs the root's {model.ref.h} (dimensions "
                            f"{[float(d) for d in child.dimensions]}, {model.shape} voxels)", t)
    org = np.asarray(child.origin, dtype=float)
    if np.any(np.abs(org - model.ref.coordinate(np.asarray(model.off))) > tol):
        raise Violation(_kind("origin", model), f"step {k}: origin {org.tolist()} vs root "
                        f"coordinate of voxel {model.off}", t)
    return len(v)


def check_placement(case):
    def visit(child, model, root_arr, k, step):
        return _check_placement(child, model, k, step, _tags(case, model, step))

    return _run_program(case, visit, strict=True)


# ---------------------------------------------------------------------------------------
# 3. time stamps and payload layout
# ---------------------------------------------------------------------------------------


def _same_time(a, b):
    if isinstance(a, list) != isinstance(b, list):
        return False
    if isinstance(a, list):
        return len(a) == len(b) and all(_same_time(x, y) for x, y in zip(a, b))
    if a is None or b is None:
        return a is None and b is None
    if isinstance(a, _dt.datetime) or isinstance(b, _dt.datetime):
        return isinstance(a, _dt.datetime) and isinstance(b, _dt.datetime) and a == b
    return float(a) == float(b)


def check_time_meta(case):
    root_ref = {}

    def visit(child, model, root_arr, k, step):
        if not root_ref:
            root0, _ = _build(case["img"], case["cls"], opts=case.get("opts"))
            root_ref["reference_date"] = root0.reference_date
            root_ref["times_from_dates"] = case["img"].get("time") == "date"
        t = _tags(case, model, step)
        where = f"step {k} ({step['op']})"
        if bool(child.series) != model.series:
            raise Violation("series-flag", f"{where}: series={child.series}, expected {model.series}", t)
        if bool(child.scalar) != model.scalar:
            raise Violation("scalar-flag", f"{where}: scalar={child.scalar}", t)
        want_time, want_date = model.expected_time()
        if not _same_time(child.time, want_time):
            raise Violation("time", f"{where}: time {child.time!r}, the root's at indices "
                            f"{model.t} is {want_time!r}", t)
        if not _same_time(child.date, want_date):
            raise Violation("date", f"{where}: date {child.date!r}, the root's at indices "
                            f"{model.t} is {want_date!r}", t)
        # relative time, date and reference date stay mutually consistent: when the dates are known
        # the relative times are date - reference_date (this is how the library itself re-derives
        # them, e.g. when sub-images are stacked again), and extraction must not move the reference
        if child.reference_date != root_ref["reference_date"]:
            raise Violation("reference-date", f"{where}: reference_date {child.reference_date!r}, the root's is "
                            f"{root_ref['reference_date']!r}", t)
        dates = child.date if isinstance(child.date, list) else [child.date]
        times = child.time if isinstance(child.time, list) else [child.time]
        if root_ref["times_from_dates"] and child.reference_date is not None and all(d is not None for d in dates) \
                and all(x is not None for x in times):
            derived = [(d - child.reference_date).total_seconds() for d in dates]
            if [float(x) for x in times] != derived:
                raise Violation("time-date-inconsistent", f"{where}: time {times} but date - reference_date "
                                f"gives {derived}", t)
        nt = len(model.t) if model.series else 1
        if int(child.time_num) != nt or int(child.time_dim) != (1 if model.series else 0):
            raise Violation("time-num", f"{where}: time_num={child.time_num} time_dim="
                            f"{child.time_dim}, expected {nt} / {1 if model.series else 0}", t)
        # payload layout: trailing axes and range_num
        trailing = ([nt] if model.series else []) + ([] if model.scalar else [model.ncomp])
        if list(child.img.shape[model.dim:]) != trailing:
            raise Violation(_kind("layout", model), f"{where}: trailing shape "
                            f"{child.img.shape[model.dim:]}, expected {trailing}", t)
        rn = 1 if model.scalar else model.ncomp
        if int(child.range_num) != rn or int(child.range_dim) != (0 if model.scalar else 1):
            raise Violation("range-num", f"{where}: range_num={child.range_num} range_dim="
                            f"{child.range_dim}", t)
        if child.space_dim != model.dim or child.indexing != "ijk"[: model.dim]:
            raise Violation("space-dim", f"{where}: space_dim={child.space_dim} indexing={child.indexing}", t)
        if type(child).__name__ != case["cls"]:
            raise Violation("class", f"{where}: a {case['cls']} became a {type(child).__name__}", t)
        # what the three channels of an optical image mean is part of the payload layout
        if case["cls"] == "OpticalImage":
            want_cs = (case.get("opts") or {}).get("cspace", "RGB")
            if child.color_space != want_cs:
                raise Violation("color-space", f"{where}: the sub-image of a {want_cs} image has "
                                f"color_space {child.color_space!r}", t)
        return 1

    return _run_program(case, visit)


# ---------------------------------------------------------------------------------------
# 4. the three ways of naming a box agree
# ---------------------------------------------------------------------------------------


def check_three_forms(case):
    spec = case["img"]
    root, root_arr = _build(spec, case["cls"], opts=case.get("opts"))
    model = Model(spec, root)
    cur = root
    step = {"op": "forms"}
    if case["pre"] is not None:
        cur = _apply(cur, case["pre"], model)
    t = _tags(case, model, step)
    pts = np.asarray(case["pts"], dtype=int)
    x = _physical_points(model, case["pts"], case["frac"])
    lo, hi = _box_from_points(case["pts"], model.shape)
    if pts.min() < 0 or any(pts[:, d].max() > model.shape[d] for d in range(model.dim)):
        model.classes.add("roi-partly-outside")
    if _corners_spread(case["pts"]):
        model.classes.add("corners-spread")

    # converting the physical corners to voxel indices gives the voxels they were drawn in
    vox = cur.coordinatesystem.voxel(darsia.CoordinateArray(x))
    if not isinstance(vox, darsia.VoxelArray):
        raise Violation("forms-voxel-type", f"voxel(CoordinateArray) returned {type(vox).__name__}", t)
    if not np.array_equal(np.asarray(vox), pts):
        raise Violation("forms-voxel", f"physical corners {x.tolist()} lie in voxels {pts.tolist()} "
                        f"of the image but convert to {np.asarray(vox).tolist()}", t)

    a = cur.subregion(darsia.CoordinateArray(x))
    b = cur.subregion(vox)
    c = cur.subregion(tuple(slice(lo[d], hi[d]) for d in range(model.dim)))
    model.narrow(lo, [hi[d] - lo[d] for d in range(model.dim)])
    want = model.expected_array(root_arr)
    for name, im in (("CoordinateArray", a), ("VoxelArray", b), ("slices", c)):
        if im.img.shape != want.shape or not np.array_equal(im.img, want):
            raise Violation("forms-data", f"subregion({name}) has shape {im.img.shape}; the box "
                            f"{lo}..{hi} of the parent has shape {want.shape}"
                            + ("" if im.img.shape != want.shape else " (values differ)"), t)
    # the three children agree in everything that is not a computed float (time stamps, dates,
    # flags, name, ...) exactly; origin and dimensions are compared with the independent
    # reference to rounding (how a form arrives at them is the implementation's choice)
    def discrete(im):
        snap = gens.snapshot(im)
        for k in ("origin", "dimensions"):
            snap["meta"].pop(k, None)
        return snap

    sa = discrete(a)
    for name, im in (("VoxelArray", b), ("slices", c)):
        ok, why = gens.snapshot_equal(sa, discrete(im))
        if not ok:
            raise Violation("forms-meta", f"subregion(CoordinateArray) and subregion({name}) "
                            f"differ: {why}", t)
    for name, im in (("CoordinateArray", a), ("VoxelArray", b), ("slices", c)):
        _check_placement(im, model, 0, {"op": f"forms/{name}"}, t)
    steps = ([case["pre"]] if case["pre"] else []) + [{"op": "forms", "pts": case["pts"], "frac": case["frac"]}]
    return _outcome({"img": spec, "cls": case["cls"], "steps": steps, "opts": case.get("opts")}, model, 3)


# ---------------------------------------------------------------------------------------
# 5. stack / append, then slice again
# ---------------------------------------------------------------------------------------


def _stack_images(case):
    spec = case["img"]
    imgs, arrs, dates, times = [], [], [], []
    for i in range(case["n"]):
        s = dict(spec)
        s["pseed"] = spec["pseed"] + 7919 * i
        if case.get("dtypes"):
            s["dtype"] = case["dtypes"][i]
        extra = {}
        d = gens.BASE_DATE + _dt.timedelta(minutes=case["minutes"][i])
        if case["tclass"] in ("date", "both-offset"):
            extra["date"] = d
            dates.append(d)
            if case.get("refmin") is not None:
                extra["reference_date"] = gens.BASE_DATE - _dt.timedelta(minutes=case["refmin"])
        else:
            dates.append(None)
        if case["tclass"] in ("time-offset", "both-offset"):
            extra["time"] = case["times"][i]
            times.append(case["times"][i])
        else:
            times.append(None)
        im, arr = _build(s, case["cls"], extra)
        imgs.append(im)
        arrs.append(arr)
    return imgs, arrs, dates, times


def check_stack_roundtrip(case):
    spec = case["img"]
    dim = spec["dim"]
    n = case["n"]
    tclass = case["tclass"]
    dtypes = case.get("dtypes") or [spec["dtype"]] * n
    mixed = len(set(dtypes)) > 1
    # some later image does not fit into the type of an earlier one (the series has to widen)
    widening = any(not np.can_cast(np.dtype(dtypes[j]), np.dtype(dtypes[i]), "safe")
                   for i in range(n) for j in range(i + 1, n))
    t = {"dim": dim, "tclass": tclass, "payload": spec["payload"], "cls": case["cls"],
         "mixed_dtypes": mixed}
    imgs, arrs, dates, times = _stack_images(case)
    ref = RefCS(dim, spec["shape"], spec["dimensions"], spec["origin"])
    # offsets are documented as "float or int"
    offsets = [None] + [int(o) if case["int_offsets"] else o for o in case["offsets"][1:]]
    with_offsets = tclass in ("time-offset", "both-offset")
    # the reference date all inputs share (None: each input refers to its own date, the series
    # then to the date of its first frame)
    refdate = None
    if case.get("refmin") is not None and tclass in ("date", "both-offset"):
        refdate = gens.BASE_DATE - _dt.timedelta(minutes=case["refmin"])

    # expected relative times of the assembled series
    if with_offsets:
        want_time = [times[0]] + [times[i] + offsets[i] for i in range(1, n)]
    elif tclass == "date":
        # with a shared reference date these are the relative times the inputs themselves carry:
        # "slicing the series returns the originals with their dates and relative times"
        want_time = [(dates[i] - (refdate or dates[0])).total_seconds() for i in range(n)]
        if refdate is not None:
            for i in range(n):
                if not _same_time(imgs[i].time, want_time[i]):
                    raise Violation("input-time", f"input {i} built with date {dates[i]!r} and "
                                    f"reference_date {refdate!r} has time {imgs[i].time!r}", t)
    else:
        want_time = [None] * n
    want_ref = refdate if refdate is not None else dates[0]
    # numpy's common type of the inputs holds every input exactly (see STACK_DTYPES): the values
    # of want_arr are the values of the inputs
    want_arr = np.stack(arrs, axis=dim)
    for i in range(n):
        assert np.array_equal(want_arr.take(i, axis=dim), arrs[i])
    dt_note = f" (input dtypes {dtypes})" if mixed else ""

    def check_reference(im, name):
        # the relative times derive from the dates (tclass date): time = date - reference_date,
        # and neither assembling nor slicing moves the reference date
        if tclass == "date" and im.reference_date != want_ref:
            raise Violation("stack-reference-date", f"{name}: reference_date "
                            f"{im.reference_date!r}, the inputs' is {want_ref!r}", t)

    def check_series(s, name, check_time, want_time=want_time):
        check_reference(s, name)
        if not bool(s.series) or int(s.time_num) != n or int(s.time_dim) != 1:
            raise Violation("stack-series", f"{name}: series={s.series} time_num={s.time_num}", t)
        if s.img.shape != want_arr.shape or not np.array_equal(s.img, want_arr):
            raise Violation("stack-data", f"{name}: assembled array (shape {s.img.shape}, dtype "
                            f"{s.img.dtype}) does not hold the values of the inputs stacked along "
                            f"axis {dim} (shape {want_arr.shape}){dt_note}", t)
        # inputs of one type keep it; for mixed inputs only the values are asserted (which wider
        # type the series takes is the implementation's choice)
        if not mixed and s.img.dtype != want_arr.dtype:
            raise Violation("stack-dtype", f"{name}: dtype {s.img.dtype}", t)
        if not _same_time(s.date, dates):
            raise Violation("stack-date", f"{name}: dates {s.date!r} vs the inputs' {dates!r}", t)
        if check_time and not _same_time(s.time, want_time):
            raise Violation("stack-time", f"{name}: relative times {s.time!r}, expected "
                            f"{want_time!r} (inputs {times!r}, offsets {offsets!r}, dates {dates!r})", t)
        if bool(s.scalar) != (spec["payload"] == "scalar"):
            raise Violation("stack-scalar", f"{name}: scalar={s.scalar}", t)
        # geometry untouched
        v = np.indices([m + 1 for m in spec["shape"]]).reshape(dim, -1).T
        got = np.asarray(s.coordinatesystem.coordinate(v), dtype=float)
        tol = 8 * EPS * (np.abs(ref.origin) + np.array(
            [(ref.shape[m] + 1) * ref.h[m] for m, _ in AXES[dim]]))
        if np.any(np.abs(got - ref.coordinate(v)) > tol):
            raise Violation("stack-placement", f"{name}: coordinates of the series differ from "
                            "those of the inputs", t)

    def check_slices(s, name, check_time, want_time=want_time):
        for i in range(n):
            sl = s.time_slice(i)
            check_reference(sl, f"{name}.time_slice({i})")
            if bool(sl.series):
                raise Violation("stack-slice-series", f"{name}.time_slice({i}) is a series", t)
            if sl.img.shape != arrs[i].shape or not np.array_equal(sl.img, arrs[i]):
                raise Violation("stack-slice-data", f"{name}.time_slice({i}) does not return "
                                f"the data of input {i}{dt_note}", t)
            if not _same_time(sl.date, dates[i]):
                raise Violation("stack-slice-date", f"{name}.time_slice({i}).date = {sl.date!r}, "
                                f"input {i} has {dates[i]!r}", t)
            if check_time and not _same_time(sl.time, want_time[i]):
                raise Violation("stack-slice-time", f"{name}.time_slice({i}).time = {sl.time!r}, "
                                f"expected {want_time[i]!r}", t)
        rng = _sl(case["tint"])
        iv = s.time_interval(rng)
        check_reference(iv, f"{name}.time_interval({case['tint']})")
        sel = list(range(n))[rng]
        if iv.img.shape != want_arr.take(sel, axis=dim).shape or not np.array_equal(
                iv.img, want_arr.take(sel, axis=dim)):
            raise Violation("stack-interval-data", f"{name}.time_interval({case['tint']}) does "
                            f"not return inputs {sel}", t)
        if not _same_time(iv.date, [dates[i] for i in sel]):
            raise Violation("stack-interval-date", f"{name}.time_interval({case['tint']}).date = "
                            f"{iv.date!r}", t)
        if check_time and not _same_time(iv.time, [want_time[i] for i in sel]):
            raise Violation("stack-interval-time", f"{name}.time_interval({case['tint']}).time = "
                            f"{iv.time!r}, expected {[want_time[i] for i in sel]!r}", t)

    # "returns the originals": the images handed over (the appended ones; for stack, which
    # creates a new image, all of them) are the originals themselves in (a) and (b) and still
    # are what they were afterwards - data, type, flags, dates, relative times, geometry
    before = [gens.snapshot(im) for im in imgs]

    def check_inputs(name, first):
        for i in range(first, n):
            ok, why = gens.snapshot_equal(before[i], gens.snapshot(imgs[i]))
            if not ok or bool(imgs[i].series):
                raise Violation("stack-input-changed", f"{name}: input {i} is not what it was "
                                f"before it was handed over ({why or 'series flag'})", t)

    # (a) sequential append, with offsets where the class has relative times
    seq = imgs[0].copy()
    for i in range(1, n):
        if with_offsets:
            seq.append(imgs[i], offset=offsets[i])
        else:
            seq.append(imgs[i])
    check_inputs("append", 1)
    check_series(seq, "append", True)
    check_slices(seq, "append", True)

    # (b) darsia.stack (it has no offsets: relative times without dates are not kept)
    stk = darsia.stack(list(imgs))
    time_ok = not with_offsets
    check_inputs("stack", 0)
    check_series(stk, "stack", time_ok)
    check_slices(stk, "stack", time_ok)

    # (c) pairwise: stack the two halves, append the second series to the first
    g = case["split"]
    left = darsia.stack([im.copy() for im in imgs[:g]]) if g > 1 else imgs[0].copy()
    right = darsia.stack([im.copy() for im in imgs[g:]]) if n - g > 1 else imgs[g].copy()
    left.append(right)
    check_series(left, "append(stack, stack)", time_ok)
    check_slices(left, "append(stack, stack)", time_ok)

    # (d) a series (or single image) appended to a series (or single image) with an offset:
    # every frame of the appended image enters with its own relative time plus the offset, as a
    # single appended image does
    if with_offsets:
        o = case.get("series_offset", 2.5)
        o = int(o) if case["int_offsets"] else o
        left = imgs[0].copy()
        for i in range(1, g):
            left.append(imgs[i].copy(), offset=offsets[i])
        right = imgs[g].copy()
        for i in range(g + 1, n):
            right.append(imgs[i].copy(), offset=offsets[i])
        right_time = [times[g]] + [times[i] + offsets[i] for i in range(g + 1, n)]
        right_seen = right.time if isinstance(right.time, list) else [right.time]
        left.append(right, offset=o)
        joined = [times[0]] + [times[i] + offsets[i] for i in range(1, g)] + [x + o for x in right_time]
        name = f"append({'series' if g > 1 else 'image'}, {'series' if n - g > 1 else 'image'}, offset={o})"
        check_series(left, name, True, joined)
        check_slices(left, name, True, joined)
        # the appended image is an argument: its own relative times are not shifted
        now = right.time if isinstance(right.time, list) else [right.time]
        if not _same_time(now, right_seen) or not _same_time(now, right_time):
            raise Violation("stack-input-changed", f"{name}: the relative times of the appended "
                            f"image were {right_seen!r} and are {now!r} afterwards (expected "
                            f"{right_time!r})", t)

    # slicing the assembled series did not reach back into the inputs either
    check_inputs("after slicing the series", 0)
    for i in range(n):
        if not np.array_equal(imgs[i].img, arrs[i]) or imgs[i].img.dtype != arrs[i].dtype:
            raise Violation("stack-input-changed", f"input {i} no longer holds its data", t)

    labels = (f"dim{dim}", f"n{n}", f"tclass-{tclass}", f"payload-{spec['payload']}",
              f"cls-{case['cls']}", "offsets-int" if case["int_offsets"] else "offsets-float",
              "origin-user" if spec["origin"] is not None else "origin-default",
              "dtypes-mixed" if mixed else "dtypes-same")
    if widening:
        labels += ("dtypes-widening",)
    labels += tuple(sorted(_tsel_classes(case["tint"], n)))
    if refdate is not None:
        labels += ("refdate-common", f"refdate-common-{tclass}")
    if with_offsets:
        labels += (f"offset-append-{'series' if g > 1 else 'image'}+{'series' if n - g > 1 else 'image'}",)
    key = [dim, spec["shape"], spec["payload"], spec["ncomp"], n, tclass, case["minutes"],
           case["times"], case["offsets"], case["split"], case["tint"], dtypes,
           case.get("refmin"), case.get("series_offset")]
    return Outcome(True, key, labels, evals=(4 if with_offsets else 3) * (n + 2))


# ---------------------------------------------------------------------------------------

_RULE = ("Hypothesis draws a root image (2-D extents <= 8, 3-D extents <= 5, scalar / vector, single / "
         "series with <= 5 times, dates / relative times / both / neither, default or user origin, "
         "default or user reference date (refdate-user), float64 / float32 / uint8 / bool data, "
         "Image / ScalarImage / OpticalImage in RGB / BGR / HSV) and a program of 1-4 extraction steps (subregion by "
         "slices with open ends, border-touching and - labelled stop-beyond - stops past the border; "
         "by voxel corner points and by physical corner points, both possibly partly outside, 2-4 points "
         "with an opposite-corner pair among them or - corners-spread - the extremes spread over >= 3 points; "
         "time_slice; time_interval over any non-empty slice of the frames: contiguous, bounds "
         "counted from the end, strided (step 2/3), reversed - labelled tint-*) generated against the tracked shape so that every step is "
         "non-empty; after EVERY step the child is compared with the offset-tracking model; "
         "non-trivial = (>= 2 steps and a spatial step with a non-zero row offset) or 3-D or series or "
         "vector payload; distinct = (geometry, payload kind, time kind, program)")

PROP = Prop(
    pid="C02",
    rule=_RULE,
    assumptions=[
        "reference map RefCS for the root image; placement tolerance 128 eps (|origin| + extent + h) "
        "(derived: <= ~10 eps*scale per extraction level, <= 4 levels)",
        "physical corner points are interior points of voxels (fractions 0.05..0.95), never on faces",
        "a stop beyond the border selects up to the border (numpy slicing, as Patches relies on)",
        "append(image, offset): the appended relative time is image.time + offset (observed and "
        "DESIGN-stated semantics); stack() has no offsets, so relative times are asserted for "
        "stack only when they derive from dates",
        "time_interval(slice) selects the frames range(time_num)[slice] (its argument is documented "
        "as a slice without restriction and handed to numpy): strided, reversed and from-the-end "
        "selections are generated; the time stamps / dates of the child are those of exactly these frames",
        "series are assembled from images of one data type or (half of the stack cases) of per-image "
        "types from uint8/uint16/float32/float64, whose pairwise common numpy type is exact on the "
        "generated payloads; for mixed inputs only the values of the series and of its slices are "
        "asserted, not which wider type it takes",
        "empty selections are not generated; spatial ranges have no negative indices and no steps",
        "an OpticalImage child has the colour space of its parent (OpticalImage.metadata: 'can be used "
        "to init a new optical image with same specs'); roots are built in RGB, BGR or HSV",
        "the reference date (default: the image's first date; in a sixth of the programs and a third of "
        "the stack cases one chosen by the user, before / at / after the first frame) is kept by every "
        "extraction and by append / stack; where relative times derive from dates they are date - "
        "reference_date, so a series assembled from images that share a reference date returns, sliced "
        "again, exactly the relative times the inputs carry",
        "append(series_or_image, offset) on a series or a single image: every frame of the appended "
        "image enters with its own relative time plus the offset (the documented single-image behaviour "
        "applied frame by frame) and the appended image itself keeps its times",
        "append does not alter the image it appends and stack none of its inputs (the originals are "
        "handed over in routes (a) and (b)); a box given by points is their bounding box whichever "
        "points carry the extremes",
        "the three call forms of one box agree exactly in data and in all metadata that is not a "
        "computed float; origin and dimensions of each are compared with the reference map to rounding",
    ],
    subs=[
        Sub("data_block", check_data_block, gen=gen_programs,
            n={"quick": 2000, "thorough": 28000}, shards={"quick": 3, "thorough": 16}),
        Sub("placement", check_placement, gen=gen_programs,
            n={"quick": 2000, "thorough": 28000}, shards={"quick": 3, "thorough": 16}),
        Sub("time_meta", check_time_meta, gen=gen_programs,
            n={"quick": 1600, "thorough": 24000}, shards={"quick": 3, "thorough": 16}),
        Sub("three_forms_agree", check_three_forms, gen=gen_forms,
            n={"quick": 1200, "thorough": 18000}, shards={"quick": 3, "thorough": 16}),
        Sub("stack_roundtrip", check_stack_roundtrip, gen=gen_stack,
            n={"quick": 800, "thorough": 12000}, shards={"quick": 3, "thorough": 16}),
    ],
)
