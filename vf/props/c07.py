"""C07 - grid numbering and connectivity form a consistent bijection (exhaustive over shapes)."""
import itertools

import numpy as np
from hypothesis import strategies as st

import darsia
from vf import gens
from vf.oracles import RefGrid
from vf.runner import Outcome, Prop, Sub, Violation


def all_shapes(tier):
    n1, n2, n3 = (12, 7, 5) if tier == "quick" else (40, 12, 7)
    shapes = [[a] for a in range(1, n1 + 1)]
    shapes += [list(s) for s in itertools.product(range(1, n2 + 1), repeat=2)]
    shapes += [list(s) for s in itertools.product(range(1, n3 + 1), repeat=3)]
    return shapes


def enum_shapes(tier):
    return [{"shape": s} for s in all_shapes(tier)]


def _grid(case):
    shape = case["shape"]
    vs = case.get("voxel_size", [1.0] * len(shape))
    return darsia.Grid(shape=tuple(shape), voxel_size=list(vs)), RefGrid(shape, vs)


def _nt(shape):
    big = sum(1 for s in shape if s >= 2)
    return big >= 2 or (1 in shape and max(shape) >= 3)


def _t(case):
    return {"dim": len(case["shape"])}


def check_face_counts(case):
    g, ref = _grid(case)
    shape = case["shape"]
    dim = len(shape)
    t = _t(case)
    tot = int(np.prod(shape))
    if int(g.num_cells) != tot:
        raise Violation("num_cells", f"{g.num_cells} vs {tot}", t)
    start = 0
    for d in range(dim):
        want = tot - tot // shape[d]
        if int(g.num_faces_per_axis[d]) != want:
            raise Violation("face-count", f"axis {d}: {g.num_faces_per_axis[d]} faces, expected {want}", t)
        f = np.asarray(g.faces[d])
        if not np.array_equal(f, np.arange(start, start + want)):
            raise Violation("face-numbering", f"axis {d}: faces not contiguous from {start}", t)
        start += want
    if int(g.num_faces) != start:
        raise Violation("num_faces", f"{g.num_faces} vs {start}", t)
    if g.connectivity.shape != (start, 2):
        raise Violation("connectivity-shape", f"{g.connectivity.shape}", t)
    # cell numbering: Fortran order
    ci = np.asarray(g.cell_index)
    if ci.shape != tuple(shape) or sorted(ci.ravel().tolist()) != list(range(tot)):
        raise Violation("cell-index", "cell_index is not a bijection onto 0..num_cells-1", t)
    for idx, n in ref.cell_index.items():
        if int(ci[idx]) != n:
            raise Violation("cell-order", f"cell {idx} numbered {ci[idx]}, Fortran order gives {n}", t)
    return Outcome(_nt(shape), case)


def check_connectivity(case):
    g, ref = _grid(case)
    shape = case["shape"]
    dim = len(shape)
    t = _t(case)
    con = np.asarray(g.connectivity)
    ci = np.asarray(g.cell_index)
    seen = set()
    for d in range(dim):
        for f in g.faces[d]:
            lo, hi = int(con[f, 0]), int(con[f, 1])
            a = np.array(np.unravel_index(lo, shape, order="F"))
            b = np.array(np.unravel_index(hi, shape, order="F"))
            diff = b - a
            e = np.zeros(dim, dtype=int)
            e[d] = 1
            if not np.array_equal(diff, e):
                raise Violation("not-neighbours", f"face {f} (axis {d}) joins cells {a.tolist()} and "
                                f"{b.tolist()}", t)
            if (lo, hi) in seen:
                raise Violation("duplicate-face", f"pair {(lo, hi)} numbered twice", t)
            seen.add((lo, hi))
    # every neighbour pair appears exactly once
    want = {tuple(r) for r in ref.connectivity().tolist()}
    if seen != want:
        raise Violation("pair-set", f"{len(want - seen)} neighbour pairs missing, {len(seen - want)} extra", t)
    # numbering order agrees with the independent Fortran enumeration
    if not np.array_equal(con, ref.connectivity()):
        bad = int(np.argwhere(np.any(con != ref.connectivity(), axis=1))[0][0])
        raise Violation("face-order", f"face {bad}: {con[bad].tolist()} vs reference "
                        f"{ref.connectivity()[bad].tolist()}", t)
    # face_index consistent with faces_shape
    for d in range(dim):
        fi = np.asarray(g.face_index[d])
        fs = list(shape)
        fs[d] -= 1
        if list(fi.shape) != fs:
            raise Violation("face-index-shape", f"axis {d}: {fi.shape} vs {fs}", t)
        for idx in np.ndindex(*fs):
            if int(fi[idx]) != ref.face_of(d, idx):
                raise Violation("face-index", f"axis {d} face at {idx}: {fi[idx]} vs {ref.face_of(d, idx)}", t)
    return Outcome(_nt(shape), case)


def check_reverse(case):
    g, ref = _grid(case)
    shape = case["shape"]
    dim = len(shape)
    t = _t(case)
    con = np.asarray(g.connectivity)
    rc = np.asarray(g.reverse_connectivity)
    if rc.shape != (dim, int(np.prod(shape)), 2):
        raise Violation("reverse-shape", f"{rc.shape}", t)
    for d in range(dim):
        for idx, c in ref.cell_index.items():
            lo_idx = list(idx)
            lo_idx[d] -= 1
            want0 = ref.face_of(d, tuple(lo_idx))  # face on the low side of the cell
            want1 = ref.face_of(d, idx)  # face on the high side
            got0, got1 = int(rc[d, c, 0]), int(rc[d, c, 1])
            if got0 != want0 or got1 != want1:
                raise Violation("reverse", f"axis {d} cell {idx}: faces ({got0},{got1}), expected "
                                f"({want0},{want1})", t)
            if got0 >= 0 and int(con[got0, 1]) != c:
                raise Violation("reverse-inverse", f"face {got0} high cell {con[got0, 1]} != {c}", t)
            if got1 >= 0 and int(con[got1, 0]) != c:
                raise Violation("reverse-inverse", f"face {got1} low cell {con[got1, 0]} != {c}", t)
            # -1 exactly on the outer boundary
            if (got0 == -1) != (idx[d] == 0) or (got1 == -1) != (idx[d] == shape[d] - 1):
                raise Violation("reverse-boundary", f"axis {d} cell {idx}: ({got0},{got1})", t)
    for f in range(int(g.num_faces)):
        d = [k for k in range(dim) if f in set(ref.faces_per_axis[k])][0]
        if int(rc[d, con[f, 0], 1]) != f or int(rc[d, con[f, 1], 0]) != f:
            raise Violation("reverse-inverse", f"face {f} not found through its cells", t)
    return Outcome(_nt(shape), case)


def check_partition(case):
    g, ref = _grid(case)
    shape = case["shape"]
    dim = len(shape)
    t = _t(case)
    for d in range(dim):
        inter = [int(x) for x in np.asarray(g.interior_faces[d]).ravel()]
        exter = [int(x) for x in np.asarray(g.exterior_faces[d]).ravel()]
        if len(set(inter)) != len(inter) or len(set(exter)) != len(exter):
            raise Violation("partition-duplicates", f"axis {d}", t)
        if set(inter) & set(exter):
            raise Violation("partition-overlap", f"axis {d}: {sorted(set(inter) & set(exter))[:5]}", t)
        if set(inter) | set(exter) != set(ref.faces_per_axis[d]):
            raise Violation("partition-cover", f"axis {d}: union is not the faces of the axis", t)
        if dim >= 2:
            # usable by its consumer: an interior face has all tangential neighbours
            rc = np.asarray(g.reverse_connectivity)
            con = np.asarray(g.connectivity)
            for f in inter:
                for dp in range(dim):
                    if dp == d:
                        continue
                    for side in (0, 1):
                        if np.any(rc[dp, con[f, side]] < 0):
                            raise Violation("interior-not-interior", f"face {f} (axis {d}) labelled "
                                            f"interior but lacks a tangential neighbour along {dp}", t)
    return Outcome(_nt(shape), case)


def check_corners(case):
    g, ref = _grid(case)
    shape = case["shape"]
    dim = len(shape)
    t = _t(case)
    corners = np.asarray(g.cell_corners)
    if corners.shape != (2**dim, dim) or {tuple(c) for c in corners.tolist()} != set(
            itertools.product((0.0, 1.0), repeat=dim)):
        raise Violation("cell-corners", "reference cell corners are not {0,1}^dim", t)
    cci = np.asarray(g.cell_corner_indices)
    if cci.shape != (int(g.num_faces), 2, 2 ** (dim - 1)):
        raise Violation("corner-shape", f"{cci.shape}", t)
    for d in range(dim):
        for f in g.faces[d]:
            for side, coord in ((0, 1.0), (1, 0.0)):
                ids = cci[f, side]
                if len(set(ids.tolist())) != 2 ** (dim - 1):
                    raise Violation("corner-distinct", f"face {f} side {side}: {ids.tolist()}", t)
                if np.any(ids < 0) or np.any(ids >= 2**dim):
                    raise Violation("corner-range", f"face {f}: {ids.tolist()}", t)
                if not np.all(corners[ids, d] == coord):
                    raise Violation("corner-not-on-face", f"face {f} (axis {d}) side {side}: corners "
                                    f"{ids.tolist()} have coordinates {corners[ids, d].tolist()} along "
                                    f"the normal, expected {coord}", t)
    nf = int(g.num_faces)
    return Outcome(nf > 0 and _nt(shape), case)


def gen_image(tier):
    small = st.fixed_dictionaries({"img": gens.image_specs(
        dims=(1, 2, 3), max_extent={1: 30, 2: 9, 3: 5}, dtypes=("float64",), max_nt=2, max_comp=2)})

    @st.composite
    def large(draw):
        """Large extents with 'round' physical lengths: dimensions / (dimensions / n) is then often
        n (1 - eps), the hazard for any integer conversion of a float quotient."""
        dim = draw(st.sampled_from([1, 2, 3]))
        mx = {1: 200, 2: 160, 3: 40}[dim]
        shape = [draw(st.integers(1, mx)) for _ in range(dim)]
        if dim == 2 and draw(st.sampled_from([False, False, True])):
            shape = [draw(st.integers(120, 160)), draw(st.integers(120, 160))]  # > 2^15 faces, < 2^15 cells
        dims = [draw(st.sampled_from([1.0, 0.3, 1.2, 0.1, 1.5, 0.7, 2.0, 1e-4, 9.1])) for _ in range(dim)]
        return {"img": {"dim": dim, "shape": shape, "dimensions": dims, "origin": None, "payload": "scalar",
                        "ncomp": 0, "series": False, "nt": 0, "dtype": "bool", "time": "none", "t0": 0,
                        "dt": 1, "pseed": 0, "name": None}, "large": True}

    return st.one_of(small, large())


def _vector_checks(g, shape, t):
    """Vectorised consistency of the numbering for grids of any size: faces numbered once,
    connectivity joins neighbours along the normal axis, the cell-to-face lookup is its inverse."""
    shape = tuple(int(x) for x in shape)
    dim = len(shape)
    con = np.asarray(g.connectivity)
    rc = np.asarray(g.reverse_connectivity)
    nf = int(g.num_faces)
    allf = np.concatenate([np.asarray(g.faces[d]).ravel() for d in range(dim)]) if dim else np.zeros(0, int)
    if len(allf) != nf or not np.array_equal(np.sort(allf), np.arange(nf)):
        raise Violation("grid-face-numbering", "faces are not numbered exactly once", t)
    if con.shape != (nf, 2) or (nf and (con.min() < 0 or con.max() >= int(g.num_cells))):
        raise Violation("grid-connectivity-range", "connectivity holds invalid cell numbers", t)
    strides = np.cumprod((1,) + shape[:-1])  # Fortran-order strides
    for d in range(dim):
        f = np.asarray(g.faces[d]).ravel()
        if len(f) == 0:
            continue
        if not np.array_equal(con[f, 1] - con[f, 0], np.full(len(f), strides[d])):
            raise Violation("grid-not-neighbours", f"axis {d}: a face does not join neighbours along its normal", t)
        if (con[f, 0] // strides[d] % shape[d] == shape[d] - 1).any():
            raise Violation("grid-not-neighbours", f"axis {d}: a face wraps around the boundary", t)
        if not (np.array_equal(rc[d, con[f, 0], 1], f) and np.array_equal(rc[d, con[f, 1], 0], f)):
            bad = f[(rc[d, con[f, 0], 1] != f) | (rc[d, con[f, 1], 0] != f)][0]
            raise Violation("grid-reverse-inverse", f"axis {d}: cell-to-face lookup does not return face {int(bad)} "
                            f"for its cells (got {int(rc[d, con[bad, 0], 1])} / {int(rc[d, con[bad, 1], 0])})", t)
        nboundary = int(np.prod(shape)) // shape[d]
        if int((rc[d, :, 0] == -1).sum()) != nboundary or int((rc[d, :, 1] == -1).sum()) != nboundary \
                or (rc[d] < -1).any():
            raise Violation("grid-reverse-boundary", f"axis {d}: 'no face' entries are not exactly the boundary", t)


def gen_image_sequence(tier):
    @st.composite
    def strat(draw):
        spec = draw(gens.image_specs(dims=(1, 2, 3), max_extent={1: 30, 2: 9, 3: 5}, dtypes=("float64",),
                                     series=(False,), payloads=("scalar",)))
        new_shape = [draw(st.integers(1, {1: 30, 2: 9, 3: 5}[spec["dim"]])) for _ in range(spec["dim"])]
        return {"img": spec, "new_shape": new_shape, "how": draw(st.sampled_from(["assign", "update_metadata"])),
                "new_dims": draw(st.booleans())}

    return strat()


def check_grid_follows_image(case):
    """generate_grid on one image object before and after the image was changed in place (as
    corrections with overwrite=True do): the second grid matches the *current* image."""
    spec = case["img"]
    img = gens.build_image(spec)
    t = {"dim": spec["dim"]}
    g0 = darsia.generate_grid(img)
    if list(g0.shape) != list(spec["shape"]):
        raise Violation("grid-shape", f"{g0.shape} vs {spec['shape']}", t)
    new = np.zeros(case["new_shape"])
    if case["how"] == "assign":
        img.img = new
    else:
        img.update_metadata(img=new)
    if case["new_dims"]:
        img.update_metadata(dimensions=[2.0 * d for d in spec["dimensions"]])
    g1 = darsia.generate_grid(img)
    if list(g1.shape) != list(case["new_shape"]) or list(g1.shape) != list(img.num_voxels):
        raise Violation("grid-stale-after-inplace-change", f"grid shape {tuple(g1.shape)} for an image that now has "
                        f"shape {tuple(img.num_voxels)} (was {tuple(spec['shape'])})", t)
    if not np.allclose(np.asarray(g1.voxel_size, float), np.asarray(img.voxel_size, float), rtol=1e-15):
        raise Violation("grid-stale-after-inplace-change", "voxel size of the grid does not follow the image", t)
    _vector_checks(g1, case["new_shape"], t)
    return Outcome(list(case["new_shape"]) != list(spec["shape"]), case, (f"dim{spec['dim']}", case["how"]))


def check_grid_from_image(case):
    spec = case["img"]
    img = gens.build_image(spec)
    g = darsia.generate_grid(img)
    t = {"dim": spec["dim"]}
    if list(g.shape) != list(spec["shape"]) or g.dim != spec["dim"]:
        raise Violation("grid-shape", f"{g.shape} vs {spec['shape']}", t)
    vs = np.asarray(g.voxel_size, dtype=float)
    want = np.array(spec["dimensions"]) / np.array(spec["shape"])
    if vs.shape != (spec["dim"],) or not np.allclose(vs, want, rtol=1e-15, atol=0):
        raise Violation("grid-voxel-size", f"{vs.tolist()} vs {want.tolist()}", t)
    if not np.array_equal(vs, np.asarray(img.voxel_size, float)):
        raise Violation("grid-voxel-size", "differs from image.voxel_size", t)
    tot = int(np.prod(spec["shape"]))
    if int(g.num_cells) != tot or int(g.num_faces) != sum(tot - tot // n for n in spec["shape"]):
        raise Violation("grid-counts", f"{g.num_cells} cells / {g.num_faces} faces for image shape "
                        f"{spec['shape']}", t)
    _vector_checks(g, spec["shape"], t)
    if not case.get("large"):
        ref = RefGrid(spec["shape"], want)
        if not np.array_equal(np.asarray(g.connectivity), ref.connectivity()):
            raise Violation("grid-connectivity", "image-derived grid connectivity differs", t)
    fv = np.asarray(g.face_vol, dtype=float)
    if not np.allclose(fv, [np.prod(np.delete(want, d)) for d in range(spec["dim"])], rtol=1e-14):
        raise Violation("grid-face-vol", f"{fv.tolist()}", t)
    return Outcome(_nt(spec["shape"]), [spec["shape"], spec["dimensions"]],
                   (f"dim{spec['dim']}", "series" if spec["series"] else "single",
                    "large" if case.get("large") else "small"))


_RULE = ("enumerate every grid shape with extents 1..12 (1-D), 1..7 (2-D), 1..5 (3-D) [quick] or "
         "1..40 / 1..12 / 1..7 [thorough] and compare every table with an independent Fortran-order "
         "enumeration; image-derived grids from Hypothesis-drawn images; non-trivial = at least two "
         "axes of extent >= 2, or a single-cell axis beside an axis of extent >= 3; distinct = shape")
_ONE = {"quick": 4, "thorough": 8}

PROP = Prop(
    pid="C07",
    rule=_RULE,
    assumptions=["RefGrid (triple-loop Fortran-order enumeration) is the reference",
                 "1-D 'interior' labelling is only required to partition the faces"],
    subs=[
        Sub("face_counts", check_face_counts, enum=enum_shapes, exhaustive=True, shards=_ONE),
        Sub("connectivity", check_connectivity, enum=enum_shapes, exhaustive=True, shards=_ONE),
        Sub("reverse_is_inverse", check_reverse, enum=enum_shapes, exhaustive=True, shards=_ONE),
        Sub("interior_exterior_partition", check_partition, enum=enum_shapes, exhaustive=True, shards=_ONE),
        Sub("corner_indices_on_face", check_corners, enum=enum_shapes, exhaustive=True, shards=_ONE),
        Sub("grid_follows_image_changes", check_grid_follows_image, gen=gen_image_sequence,
            n={"quick": 400, "thorough": 8000}, shards={"quick": 2, "thorough": 8}),
        Sub("grid_from_image", check_grid_from_image, gen=gen_image,
            n={"quick": 2400, "thorough": 40000}, shards={"quick": 6, "thorough": 16}),
    ],
)
