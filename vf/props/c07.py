"""C07 - grid numbering and connectivity form a consistent bijection (exhaustive over shapes)."""
import itertools

import numpy as np
from hypothesis import strategies as st

import darsia
from vf import gens
from vf.oracles import RefGrid
from vf.runner import Outcome, Prop, Sub, Violation


def all_shapes(tier):
    n1, n2, n3 = (12, 7, 5) if tier == "quick" else (40, 12, 7)
    shapes = [[a] for a in range(1, n1 + 1)]
    shapes += [list(s) for s in itertools.product(range(1, n2 + 1), repeat=2)]
    shapes += [list(s) for s in itertools.product(range(1, n3 + 1), repeat=3)]
    return shapes


def enum_shapes(tier):
    return [{"shape": s} for s in all_shapes(tier)]


def _grid(case):
    shape = case["shape"]
    vs = case.get("voxel_size", [1.0] * len(shape))
    g = darsia.Grid(shape=tuple(shape), voxel_size=list(vs))
    # the tables are index arrays: their consumers (darsia.utils.fv, wasserstein) index with them
    for name in ("connectivity", "reverse_connectivity", "cell_index", "cell_corner_indices"):
        if np.asarray(getattr(g, name)).dtype.kind not in "iu":
            raise Violation("index-dtype", f"{name} has dtype {np.asarray(getattr(g, name)).dtype}, not usable "
                            "as an index", _t(case))
    return g, RefGrid(shape, vs)


def _nt(shape):
    big = sum(1 for s in shape if s >= 2)
    return big >= 2 or (1 in shape and max(shape) >= 3)


def _t(case):
    return {"dim": len(case["shape"])}


def _shape_labels(shape):
    """Shape classes named by the property: thin (a single-cell axis), single-cell, non-cubic."""
    lab = [f"dim{len(shape)}"]
    if int(np.prod(shape)) == 1:
        lab.append("single-cell")
    elif 1 in shape and len(shape) > 1:
        lab.append("thin")
    if 2 in shape:
        lab.append("two-cell-axis")
    if len(set(shape)) > 1:
        lab.append("non-cubic")
    return tuple(lab)


def check_face_counts(case):
    g, ref = _grid(case)
    shape = case["shape"]
    dim = len(shape)
    t = _t(case)
    tot = int(np.prod(shape))
    if int(g.num_cells) != tot:
        raise Violation("num_cells", f"{g.num_cells} vs {tot}", t)
    start = 0
    for d in range(dim):
        want = tot - tot // shape[d]
        if int(g.num_faces_per_axis[d]) != want:
            raise Violation("face-count", f"axis {d}: {g.num_faces_per_axis[d]} faces, expected {want}", t)
        f = np.asarray(g.faces[d])
        if not np.array_equal(f, np.arange(start, start + want)):
            raise Violation("face-numbering", f"axis {d}: faces not contiguous from {start}", t)
        start += want
    if int(g.num_faces) != start:
        raise Violation("num_faces", f"{g.num_faces} vs {start}", t)
    if g.connectivity.shape != (start, 2):
        raise Violation("connectivity-shape", f"{g.connectivity.shape}", t)
    # cell numbering: Fortran order
    ci = np.asarray(g.cell_index)
    if ci.shape != tuple(shape) or sorted(ci.ravel().tolist()) != list(range(tot)):
        raise Violation("cell-index", "cell_index is not a bijection onto 0..num_cells-1", t)
    for idx, n in ref.cell_index.items():
        if int(ci[idx]) != n:
            raise Violation("cell-order", f"cell {idx} numbered {ci[idx]}, Fortran order gives {n}", t)
    return Outcome(_nt(shape), case, _shape_labels(shape))


def check_connectivity(case):
    g, ref = _grid(case)
    shape = case["shape"]
    dim = len(shape)
    t = _t(case)
    con = np.asarray(g.connectivity)
    ci = np.asarray(g.cell_index)
    seen = set()
    for d in range(dim):
        for f in g.faces[d]:
            lo, hi = int(con[f, 0]), int(con[f, 1])
            a = np.array(np.unravel_index(lo, shape, order="F"))
            b = np.array(np.unravel_index(hi, shape, order="F"))
            diff = b - a
            e = np.zeros(dim, dtype=int)
            e[d] = 1
            if not np.array_equal(diff, e):
                raise Violation("not-neighbours", f"face {f} (axis {d}) joins cells {a.tolist()} and "
                                f"{b.tolist()}", t)
            if (lo, hi) in seen:
                raise Violation("duplicate-face", f"pair {(lo, hi)} numbered twice", t)
            seen.add((lo, hi))
    # every neighbour pair appears exactly once
    want = {tuple(r) for r in ref.connectivity().tolist()}
    if seen != want:
        raise Violation("pair-set", f"{len(want - seen)} neighbour pairs missing, {len(seen - want)} extra", t)
    # numbering order agrees with the independent Fortran enumeration
    if not np.array_equal(con, ref.connectivity()):
        bad = int(np.argwhere(np.any(con != ref.connectivity(), axis=1))[0][0])
        raise Violation("face-order", f"face {bad}: {con[bad].tolist()} vs reference "
                        f"{ref.connectivity()[bad].tolist()}", t)
    # face_index consistent with faces_shape
    for d in range(dim):
        fi = np.asarray(g.face_index[d])
        fs = list(shape)
        fs[d] -= 1
        if list(fi.shape) != fs:
            raise Violation("face-index-shape", f"axis {d}: {fi.shape} vs {fs}", t)
        for idx in np.ndindex(*fs):
            if int(fi[idx]) != ref.face_of(d, idx):
                raise Violation("face-index", f"axis {d} face at {idx}: {fi[idx]} vs {ref.face_of(d, idx)}", t)
    return Outcome(_nt(shape), case, _shape_labels(shape))


def check_reverse(case):
    g, ref = _grid(case)
    shape = case["shape"]
    dim = len(shape)
    t = _t(case)
    con = np.asarray(g.connectivity)
    rc = np.asarray(g.reverse_connectivity)
    if rc.shape != (dim, int(np.prod(shape)), 2):
        raise Violation("reverse-shape", f"{rc.shape}", t)
    for d in range(dim):
        for idx, c in ref.cell_index.items():
            lo_idx = list(idx)
            lo_idx[d] -= 1
            want0 = ref.face_of(d, tuple(lo_idx))  # face on the low side of the cell
            want1 = ref.face_of(d, idx)  # face on the high side
            got0, got1 = int(rc[d, c, 0]), int(rc[d, c, 1])
            if got0 != want0 or got1 != want1:
                raise Violation("reverse", f"axis {d} cell {idx}: faces ({got0},{got1}), expected "
                                f"({want0},{want1})", t)
            if got0 >= 0 and int(con[got0, 1]) != c:
                raise Violation("reverse-inverse", f"face {got0} high cell {con[got0, 1]} != {c}", t)
            if got1 >= 0 and int(con[got1, 0]) != c:
                raise Violation("reverse-inverse", f"face {got1} low cell {con[got1, 0]} != {c}", t)
            # -1 exactly on the outer boundary
            if (got0 == -1) != (idx[d] == 0) or (got1 == -1) != (idx[d] == shape[d] - 1):
                raise Violation("reverse-boundary", f"axis {d} cell {idx}: ({got0},{got1})", t)
    for f in range(int(g.num_faces)):
        d = [k for k in range(dim) if f in set(ref.faces_per_axis[k])][0]
        if int(rc[d, con[f, 0], 1]) != f or int(rc[d, con[f, 1], 0]) != f:
            raise Violation("reverse-inverse", f"face {f} not found through its cells", t)
    return Outcome(_nt(shape), case, _shape_labels(shape))


def check_partition(case):
    g, ref = _grid(case)
    shape = case["shape"]
    dim = len(shape)
    t = _t(case)
    for d in range(dim):
        inter = [int(x) for x in np.asarray(g.interior_faces[d]).ravel()]
        exter = [int(x) for x in np.asarray(g.exterior_faces[d]).ravel()]
        if len(set(inter)) != len(inter) or len(set(exter)) != len(exter):
            raise Violation("partition-duplicates", f"axis {d}", t)
        if set(inter) & set(exter):
            raise Violation("partition-overlap", f"axis {d}: {sorted(set(inter) & set(exter))[:5]}", t)
        if set(inter) | set(exter) != set(ref.faces_per_axis[d]):
            raise Violation("partition-cover", f"axis {d}: union is not the faces of the axis", t)
        if dim >= 2:
            # usable by its consumer: an interior face has all tangential neighbours
            rc = np.asarray(g.reverse_connectivity)
            con = np.asarray(g.connectivity)
            for f in inter:
                for dp in range(dim):
                    if dp == d:
                        continue
                    for side in (0, 1):
                        if np.any(rc[dp, con[f, side]] < 0):
                            raise Violation("interior-not-interior", f"face {f} (axis {d}) labelled "
                                            f"interior but lacks a tangential neighbour along {dp}", t)
            # ... and the converse ("exterior_faces: all faces on the outer boundary of the grid"): a
            # face labelled exterior has a cell on the outer boundary in some tangential axis. Decided on
            # the reference enumeration, not on the grid's own lookup tables.
            for f in exter:
                fd, lo = ref.faces[f]
                if all(1 <= lo[a] <= shape[a] - 2 for a in range(dim) if a != fd):
                    raise Violation("exterior-not-on-boundary", f"face {f} (axis {d}, lower cell {list(lo)}) "
                                    "labelled exterior but both its cells have all tangential neighbours", t)
    return Outcome(_nt(shape), case, _shape_labels(shape))


def check_corners(case):
    g, ref = _grid(case)
    shape = case["shape"]
    dim = len(shape)
    t = _t(case)
    corners = np.asarray(g.cell_corners)
    if corners.shape != (2**dim, dim) or {tuple(c) for c in corners.tolist()} != set(
            itertools.product((0.0, 1.0), repeat=dim)):
        raise Violation("cell-corners", "reference cell corners are not {0,1}^dim", t)
    cci = np.asarray(g.cell_corner_indices)
    if cci.shape != (int(g.num_faces), 2, 2 ** (dim - 1)):
        raise Violation("corner-shape", f"{cci.shape}", t)
    for d in range(dim):
        for f in g.faces[d]:
            for side, coord in ((0, 1.0), (1, 0.0)):
                ids = cci[f, side]
                if len(set(ids.tolist())) != 2 ** (dim - 1):
                    raise Violation("corner-distinct", f"face {f} side {side}: {ids.tolist()}", t)
                if np.any(ids < 0) or np.any(ids >= 2**dim):
                    raise Violation("corner-range", f"face {f}: {ids.tolist()}", t)
                if not np.all(corners[ids, d] == coord):
                    raise Violation("corner-not-on-face", f"face {f} (axis {d}) side {side}: corners "
                                    f"{ids.tolist()} have coordinates {corners[ids, d].tolist()} along "
                                    f"the normal, expected {coord}", t)
    nf = int(g.num_faces)
    return Outcome(nf > 0 and _nt(shape), case, _shape_labels(shape))


def gen_image(tier):
    small = st.fixed_dictionaries({"img": gens.image_specs(
        dims=(1, 2, 3), max_extent={1: 30, 2: 9, 3: 5}, dtypes=("float64", "float32", "uint8", "bool"), max_nt=2,
        max_comp=2)})

    @st.composite
    def large(draw):
        """Large extents with 'round' physical lengths: dimensions / (dimensions / n) is then often
        n (1 - eps), the hazard for any integer conversion of a float quotient."""
        dim = draw(st.sampled_from([1, 2, 3]))
        mx = {1: 200, 2: 160, 3: 40}[dim]
        shape = [draw(st.integers(1, mx)) for _ in range(dim)]
        if dim == 2 and draw(st.sampled_from([False, False, True])):
            shape = [draw(st.integers(120, 160)), draw(st.integers(120, 160))]  # > 2^15 faces, < 2^15 cells
        dims = [draw(st.sampled_from([1.0, 0.3, 1.2, 0.1, 1.5, 0.7, 2.0, 1e-4, 9.1])) for _ in range(dim)]
        return {"img": {"dim": dim, "shape": shape, "dimensions": dims, "origin": None, "payload": "scalar",
                        "ncomp": 0, "series": False, "nt": 0, "dtype": "bool", "time": "none", "t0": 0,
                        "dt": 1, "pseed": 0, "name": None}, "large": True}

    return st.one_of(small, large())


class _VRef:
    """Closed-form reference numbering for grids of any size (index arithmetic only, no slicing /
    ravel of index arrays as in the code under test): cell c has multi-index (c // stride_a) % n_a
    with Fortran strides; the faces of axis d are the cells with idx_d < n_d - 1 in increasing cell
    number (Fortran order of the lower cell), numbered axis after axis; 'interior' (dim >= 2): both
    cells keep off the outer boundary in every tangential axis."""

    def __init__(self, shape):
        shape = tuple(int(x) for x in shape)
        dim = len(shape)
        nc, strides = 1, []
        for n in shape:
            strides.append(nc)
            nc *= n
        c = np.arange(nc, dtype=np.int64)
        idx = [(c // strides[a]) % shape[a] for a in range(dim)]
        self.shape, self.dim, self.num_cells, self.strides = shape, dim, nc, strides
        self.faces, self.lower, self.interior_mask = [], [], []
        self.rc = -np.ones((dim, nc, 2), dtype=np.int64)
        off = 0
        for d in range(dim):
            lower = c[idx[d] < shape[d] - 1]
            f = off + np.arange(len(lower), dtype=np.int64)
            self.faces.append(f)
            self.lower.append(lower)
            self.rc[d, lower, 1] = f
            self.rc[d, lower + strides[d], 0] = f
            inner = np.ones(len(lower), dtype=bool)
            for a in range(dim):
                if a != d:
                    inner &= (idx[a][lower] >= 1) & (idx[a][lower] <= shape[a] - 2)
            self.interior_mask.append(inner)
            off += len(lower)
        self.num_faces = off

    def cell_index(self):
        out = np.zeros(self.shape, dtype=np.int64)
        for a, ind in enumerate(np.indices(self.shape)):
            out += ind * self.strides[a]
        return out

    def face_index(self, d):
        sub = list(self.shape)
        sub[d] -= 1
        out = np.full(sub, int(self.faces[d][0]) if len(self.faces[d]) else 0, dtype=np.int64)
        mult = 1
        for a, ind in enumerate(np.indices(sub)):
            out += ind * mult
            mult *= sub[a]
        return out


def _is_int(a):
    return np.asarray(a).dtype.kind in "iu"


def _vector_checks(g, shape, t):
    """Vectorised consistency of the numbering for grids of any size: faces numbered once,
    connectivity joins neighbours along the normal axis, the cell-to-face lookup is its inverse;
    then every table exactly against the closed-form reference _VRef."""
    shape = tuple(int(x) for x in shape)
    dim = len(shape)
    con = np.asarray(g.connectivity)
    rc = np.asarray(g.reverse_connectivity)
    nf = int(g.num_faces)
    allf = np.concatenate([np.asarray(g.faces[d]).ravel() for d in range(dim)]) if dim else np.zeros(0, int)
    if len(allf) != nf or not np.array_equal(np.sort(allf), np.arange(nf)):
        raise Violation("grid-face-numbering", "faces are not numbered exactly once", t)
    # the tables are index arrays: their consumers (darsia.utils.fv, wasserstein) index with them
    for name, arr in (("connectivity", con), ("reverse_connectivity", rc), ("cell_index", g.cell_index),
                      ("cell_corner_indices", g.cell_corner_indices)) + tuple(
            (f"faces[{d}]", g.faces[d]) for d in range(dim)):
        if not _is_int(arr):
            raise Violation("grid-index-dtype", f"{name} has dtype {np.asarray(arr).dtype}, not usable as an index", t)
    if con.shape != (nf, 2) or (nf and (con.min() < 0 or con.max() >= int(g.num_cells))):
        raise Violation("grid-connectivity-range", "connectivity holds invalid cell numbers", t)
    strides = np.cumprod((1,) + shape[:-1])  # Fortran-order strides
    for d in range(dim):
        f = np.asarray(g.faces[d]).ravel()
        if len(f) == 0:
            continue
        if not np.array_equal(con[f, 1] - con[f, 0], np.full(len(f), strides[d])):
            raise Violation("grid-not-neighbours", f"axis {d}: a face does not join neighbours along its normal", t)
        if (con[f, 0] // strides[d] % shape[d] == shape[d] - 1).any():
            raise Violation("grid-not-neighbours", f"axis {d}: a face wraps around the boundary", t)
        if not (np.array_equal(rc[d, con[f, 0], 1], f) and np.array_equal(rc[d, con[f, 1], 0], f)):
            bad = f[(rc[d, con[f, 0], 1] != f) | (rc[d, con[f, 1], 0] != f)][0]
            raise Violation("grid-reverse-inverse", f"axis {d}: cell-to-face lookup does not return face {int(bad)} "
                            f"for its cells (got {int(rc[d, con[bad, 0], 1])} / {int(rc[d, con[bad, 1], 0])})", t)
        nboundary = int(np.prod(shape)) // shape[d]
        if int((rc[d, :, 0] == -1).sum()) != nboundary or int((rc[d, :, 1] == -1).sum()) != nboundary \
                or (rc[d] < -1).any():
            raise Violation("grid-reverse-boundary", f"axis {d}: 'no face' entries are not exactly the boundary", t)
    _exact_checks(g, _VRef(shape), t)


def _exact_checks(g, ref, t):
    """Every numbering table against the closed-form reference (any grid size)."""
    shape, dim = ref.shape, ref.dim
    con = np.asarray(g.connectivity)
    rc = np.asarray(g.reverse_connectivity)
    if int(g.num_cells) != ref.num_cells or int(g.num_faces) != ref.num_faces or int(g.dim) != dim:
        raise Violation("grid-counts", f"{g.num_cells} cells / {g.num_faces} faces for shape {list(shape)}", t)
    ci = np.asarray(g.cell_index)
    if ci.shape != shape or not np.array_equal(ci, ref.cell_index()):
        raise Violation("grid-cell-order", "cell_index is not the Fortran-ordered numbering of the cells", t)
    if rc.shape != ref.rc.shape:
        raise Violation("grid-reverse-shape", f"{rc.shape}", t)
    corners = np.asarray(g.cell_corners)
    cci = np.asarray(g.cell_corner_indices)
    if cci.shape != (ref.num_faces, 2, 2 ** (dim - 1)) or corners.shape != (2**dim, dim):
        raise Violation("grid-corner-shape", f"{cci.shape} / {corners.shape}", t)
    if ref.num_faces and (cci.min() < 0 or cci.max() >= 2**dim):
        raise Violation("grid-corner-range", "corner index outside the reference cell", t)
    for d in range(dim):
        want_f = ref.faces[d]
        f = np.asarray(g.faces[d]).ravel()
        if int(g.num_faces_per_axis[d]) != len(want_f) or not np.array_equal(f, want_f):
            raise Violation("grid-face-count", f"axis {d}: faces {len(f)} (declared {g.num_faces_per_axis[d]}), "
                            f"shape {list(shape)} gives {len(want_f)} numbered from "
                            f"{int(want_f[0]) if len(want_f) else '-'}", t)
        fs = list(shape)
        fs[d] -= 1
        if [int(x) for x in np.asarray(g.faces_shape[d]).ravel()] != fs:
            raise Violation("grid-faces-shape", f"axis {d}: faces_shape {list(g.faces_shape[d])} vs {fs}", t)
        fi = np.asarray(g.face_index[d])
        if list(fi.shape) != fs or not np.array_equal(fi, ref.face_index(d)):
            raise Violation("grid-face-index", f"axis {d}: face_index is not the Fortran-ordered numbering "
                            "of the faces of that axis", t)
        lower = ref.lower[d]
        if not (np.array_equal(con[want_f, 0], lower) and np.array_equal(con[want_f, 1], lower + ref.strides[d])):
            bad = int(want_f[(con[want_f, 0] != lower) | (con[want_f, 1] != lower + ref.strides[d])][0])
            k = bad - int(want_f[0])
            raise Violation("grid-face-order", f"face {bad} (axis {d}) joins {con[bad].tolist()}, Fortran order of "
                            f"the faces gives [{int(lower[k])}, {int(lower[k] + ref.strides[d])}]", t)
        if not np.array_equal(rc[d], ref.rc[d]):
            c = int(np.argwhere(np.any(rc[d] != ref.rc[d], axis=1))[0][0])
            raise Violation("grid-reverse", f"axis {d} cell {c}: faces {rc[d, c].tolist()}, expected "
                            f"{ref.rc[d, c].tolist()}", t)
        # interior / exterior faces partition the faces of the axis
        inter = np.asarray(g.interior_faces[d]).ravel()
        exter = np.asarray(g.exterior_faces[d]).ravel()
        both = np.concatenate([inter, exter]).astype(np.int64)
        if len(both) != len(want_f) or not np.array_equal(np.sort(both), want_f):
            raise Violation("grid-partition", f"axis {d}: interior ({len(inter)}) and exterior ({len(exter)}) faces "
                            f"do not partition the {len(want_f)} faces of the axis", t)
        if dim >= 2 and len(want_f):
            # 1-D: only the partition is promised (see DESIGN); dim >= 2: interior = off the outer
            # boundary in every tangential axis (consumer: tangential reconstruction; "exterior_faces:
            # all faces on the outer boundary of the grid")
            is_inner = ref.interior_mask[d]
            got_inner = np.zeros(len(want_f), dtype=bool)
            got_inner[inter.astype(np.int64) - int(want_f[0])] = True
            if (got_inner & ~is_inner).any():
                bad = int(want_f[got_inner & ~is_inner][0])
                raise Violation("grid-interior-not-interior", f"face {bad} (axis {d}) labelled interior but one of "
                                "its cells lies on the outer boundary in a tangential axis", t)
            if (~got_inner & is_inner).any():
                bad = int(want_f[~got_inner & is_inner][0])
                raise Violation("grid-exterior-not-on-boundary", f"face {bad} (axis {d}) labelled exterior but both "
                                "its cells have all tangential neighbours", t)
        if len(want_f):
            for side, coord in ((0, 1.0), (1, 0.0)):
                ids = cci[want_f, side]  # (faces, 2^(dim-1))
                if not np.all(corners[ids, d] == coord):
                    bad = int(want_f[np.argwhere(np.any(corners[ids, d] != coord, axis=1))[0][0]])
                    raise Violation("grid-corner-not-on-face", f"face {bad} (axis {d}) side {side}: corners "
                                    f"{cci[bad, side].tolist()} do not all lie on the face", t)
                srt = np.sort(ids, axis=1)
                if srt.shape[1] > 1 and (np.diff(srt, axis=1) == 0).any():
                    raise Violation("grid-corner-distinct", f"axis {d} side {side}: a corner is listed twice", t)
    if {tuple(c) for c in corners.tolist()} != set(itertools.product((0.0, 1.0), repeat=dim)):
        raise Violation("grid-cell-corners", "reference cell corners are not {0,1}^dim", t)


def gen_image_sequence(tier):
    @st.composite
    def strat(draw):
        spec = draw(gens.image_specs(dims=(1, 2, 3), max_extent={1: 30, 2: 9, 3: 5}, dtypes=("float64",),
                                     series=(False,), payloads=("scalar",)))
        new_shape = [draw(st.integers(1, {1: 30, 2: 9, 3: 5}[spec["dim"]])) for _ in range(spec["dim"])]
        return {"img": spec, "new_shape": new_shape, "how": draw(st.sampled_from(["assign", "update_metadata"])),
                "new_dims": draw(st.booleans())}

    return strat()


def check_grid_follows_image(case):
    """generate_grid on one image object before and after the image was changed in place (as
    corrections with overwrite=True do): the second grid matches the *current* image."""
    spec = case["img"]
    img = gens.build_image(spec)
    t = {"dim": spec["dim"]}
    g0 = darsia.generate_grid(img)
    if list(g0.shape) != list(spec["shape"]):
        raise Violation("grid-shape", f"{g0.shape} vs {spec['shape']}", t)
    new = np.zeros(case["new_shape"])
    if case["how"] == "assign":
        img.img = new
    else:
        img.update_metadata(img=new)
    if case["new_dims"]:
        img.update_metadata(dimensions=[2.0 * d for d in spec["dimensions"]])
    g1 = darsia.generate_grid(img)
    if list(g1.shape) != list(case["new_shape"]) or list(g1.shape) != list(img.num_voxels):
        raise Violation("grid-stale-after-inplace-change", f"grid shape {tuple(g1.shape)} for an image that now has "
                        f"shape {tuple(img.num_voxels)} (was {tuple(spec['shape'])})", t)
    if not np.allclose(np.asarray(g1.voxel_size, float), np.asarray(img.voxel_size, float), rtol=1e-15):
        raise Violation("grid-stale-after-inplace-change", "voxel size of the grid does not follow the image", t)
    _vector_checks(g1, case["new_shape"], t)
    return Outcome(list(case["new_shape"]) != list(spec["shape"]), case, (f"dim{spec['dim']}", case["how"]))


def check_grid_from_image(case):
    spec = case["img"]
    img = gens.build_image(spec)
    before = gens.snapshot(img)
    g = darsia.generate_grid(img)
    t = {"dim": spec["dim"]}
    same, what = gens.snapshot_equal(before, gens.snapshot(img))
    if not same:
        raise Violation("generate-grid-changes-image", f"the image is modified by generate_grid: {what}", t)
    if list(g.shape) != list(spec["shape"]) or g.dim != spec["dim"]:
        raise Violation("grid-shape", f"{g.shape} vs {spec['shape']}", t)
    vs = np.asarray(g.voxel_size, dtype=float)
    want = np.array(spec["dimensions"]) / np.array(spec["shape"])
    if vs.shape != (spec["dim"],) or not np.allclose(vs, want, rtol=1e-15, atol=0):
        raise Violation("grid-voxel-size", f"{vs.tolist()} vs {want.tolist()}", t)
    if not np.array_equal(vs, np.asarray(img.voxel_size, float)):
        raise Violation("grid-voxel-size", "differs from image.voxel_size", t)
    tot = int(np.prod(spec["shape"]))
    if int(g.num_cells) != tot or int(g.num_faces) != sum(tot - tot // n for n in spec["shape"]):
        raise Violation("grid-counts", f"{g.num_cells} cells / {g.num_faces} faces for image shape "
                        f"{spec['shape']}", t)
    _vector_checks(g, spec["shape"], t)
    if not case.get("large"):
        ref = RefGrid(spec["shape"], want)
        if not np.array_equal(np.asarray(g.connectivity), ref.connectivity()):
            raise Violation("grid-connectivity", "image-derived grid connectivity differs", t)
    fv = np.asarray(g.face_vol, dtype=float)
    if not np.allclose(fv, [np.prod(np.delete(want, d)) for d in range(spec["dim"])], rtol=1e-14):
        raise Violation("grid-face-vol", f"{fv.tolist()}", t)
    labels = [f"dim{spec['dim']}", "series" if spec["series"] else "single",
              "large" if case.get("large") else "small", spec["payload"], spec["dtype"]]
    if int(g.num_faces) > 2**15 >= tot:
        labels.append("faces>2^15>=cells")
    if 1 in spec["shape"] and spec["dim"] > 1:
        labels.append("thin")
    return Outcome(_nt(spec["shape"]), [spec["shape"], spec["dimensions"]], tuple(labels))


# ---------------------------------------------------------------------------------------------
# direct construction under every documented call form
# ---------------------------------------------------------------------------------------------

_VOX = [1.0, 0.5, 0.3, 1e-4, 2.5e-3, 7.0, 1234.5, 1e6]


def _draw_shape(draw, dim, big):
    if big:
        mx = {1: 3000, 2: 150, 3: 30}[dim]
        return [draw(st.integers(1, mx)) for _ in range(dim)]
    mx = {1: 14, 2: 8, 3: 5}[dim]
    # single-cell and two-cell axes are the hazard of the index arithmetic: keep them frequent
    return [draw(st.one_of(st.sampled_from([1, 2, 3]), st.integers(1, mx))) for _ in range(dim)]


def gen_call_forms(tier):
    @st.composite
    def strat(draw):
        dim = draw(st.sampled_from([1, 2, 3]))
        big = draw(st.sampled_from([False, False, False, True]))
        form = draw(st.sampled_from(["default", "scalar", "list", "list-iso"]))
        case = {"shape": _draw_shape(draw, dim, big), "shape_as": draw(st.sampled_from(["tuple", "list", "tuple", "list", "int64-array", "int32-array"])),
                "form": form, "big": big}
        if form == "scalar":
            case["vs"] = draw(st.sampled_from(_VOX))
        elif form == "list":
            case["vs"] = [draw(st.sampled_from(_VOX)) for _ in range(dim)]
        elif form == "list-iso":
            case["vs"] = [draw(st.sampled_from(_VOX))] * dim
        return case

    return strat()


def _construct(shape, shape_as, form, vs):
    """Grid(...) under one documented call form (shape: tuple, as documented, or list, as
    generate_grid passes it; voxel_size: omitted / float / list). Returns grid and the arguments."""
    shape_arg = {"tuple": tuple, "list": list, "int64-array": lambda x: np.array(x, dtype=np.int64),
                 "int32-array": lambda x: np.array(x, dtype=np.int32)}[shape_as](shape)
    if form == "default":
        return darsia.Grid(shape_arg), shape_arg, None
    if form == "scalar":
        return darsia.Grid(shape_arg, float(vs)), shape_arg, float(vs)
    vs_arg = [float(v) for v in vs]
    return darsia.Grid(shape=shape_arg, voxel_size=vs_arg), shape_arg, vs_arg


def _check_sizes(g, shape, form, vs, t):
    dim = len(shape)
    want = np.ones(dim) if form == "default" else (float(vs) * np.ones(dim) if form == "scalar"
                                                    else np.array([float(v) for v in vs]))
    got = np.asarray(g.voxel_size, dtype=float)
    if got.shape != (dim,) or not np.array_equal(got, want):
        raise Violation(f"voxel-size:{'list' if form.startswith('list') else form}",
                        f"grid.voxel_size {got.tolist()} for voxel_size argument {vs!r} (dim {dim})", t)
    fv = np.asarray(g.face_vol, dtype=float)
    want_fv = np.array([np.prod(np.delete(want, d)) for d in range(dim)])
    if fv.shape != (dim,) or not np.allclose(fv, want_fv, rtol=1e-14, atol=0):
        raise Violation(f"face-vol:{'list' if form.startswith('list') else form}",
                        f"face_vol {fv.tolist()} vs {want_fv.tolist()} for voxel sizes {want.tolist()}", t)


def check_call_forms(case):
    """The numbering depends on the shape only: under every documented call form (shape as tuple
    or list; voxel_size omitted, a float, a list - order one or far from it) all tables equal the
    closed-form reference, voxel_size / face_vol follow the argument, arguments are left alone."""
    shape, form = case["shape"], case["form"]
    t = {"dim": len(shape), "form": form, "shape_as": case["shape_as"]}
    g, shape_arg, vs_arg = _construct(shape, case["shape_as"], form, case.get("vs"))
    kind = {"tuple": tuple, "list": list}.get(case["shape_as"], np.ndarray)
    if [int(x) for x in shape_arg] != list(shape) or type(shape_arg) is not kind:
        raise Violation("argument-changed:shape", f"shape argument {list(shape)} ({case['shape_as']}) is now "
                        f"{shape_arg!r}", t)
    if isinstance(vs_arg, list) and vs_arg != [float(v) for v in case["vs"]]:
        raise Violation("argument-changed:voxel_size", f"voxel_size argument {case['vs']} is now {vs_arg!r}", t)
    if [int(x) for x in g.shape] != list(shape) or int(g.dim) != len(shape):
        raise Violation("grid-shape", f"{g.shape} vs {shape}", t)
    _check_sizes(g, shape, form, case.get("vs"), t)
    _vector_checks(g, shape, t)
    return Outcome(_nt(shape), [shape, case["shape_as"], form, case.get("vs")],
                   _shape_labels(shape) + (f"vs:{form}", f"shape:{case['shape_as']}", "big" if case["big"] else "small"))


# ---------------------------------------------------------------------------------------------
# several grids in one process: no grid depends on the grids / images seen before
# ---------------------------------------------------------------------------------------------

def _divisors(n):
    return [k for k in range(1, n + 1) if n % k == 0]


def gen_grid_sequences(tier):
    @st.composite
    def strat(draw):
        dim = draw(st.sampled_from([1, 2, 3]))
        mx = {1: 24, 2: 8, 3: 5}[dim]
        shape = [draw(st.integers(1, mx)) for _ in range(dim)]
        dims0 = [draw(st.sampled_from([1.0, 0.3, 2.0, 12.0])) for _ in range(dim)]
        items = [{"shape": shape, "rel": "first"}]
        for _ in range(draw(st.integers(1, 3))):
            rel = draw(st.sampled_from(["same", "permuted", "same-count", "fresh"]))
            prev = items[-1]["shape"]
            if rel == "same" or (dim == 1 and rel != "fresh"):
                nxt, rel = list(prev), "same"
            elif rel == "permuted":
                nxt = list(draw(st.permutations(prev)))
            elif rel == "same-count":
                n = int(np.prod(prev))
                nxt = []
                for _k in range(dim - 1):
                    nxt.append(draw(st.sampled_from(_divisors(n))))
                    n //= nxt[-1]
                nxt.append(n)
            else:
                nxt = [draw(st.integers(1, mx)) for _ in range(dim)]
            items.append({"shape": nxt, "rel": rel})
        for it in items:
            it["via"] = draw(st.sampled_from(["image", "image", "direct"]))
            # images of one sequence share name, dtype and (mostly) the physical dimensions
            it["dimensions"] = dims0 if draw(st.sampled_from([True, True, False])) else [
                draw(st.sampled_from([1.0, 0.3, 2.0, 12.0])) for _ in range(dim)]
        return {"dim": dim, "items": items}

    return strat()


def _plain_spec(dim, shape, dimensions):
    return {"dim": dim, "shape": list(shape), "dimensions": list(dimensions), "origin": None, "payload": "scalar",
            "ncomp": 0, "series": False, "nt": 0, "dtype": "float64", "time": "none", "t0": 0, "dt": 1,
            "pseed": 0, "name": "img"}


def check_grid_sequences(case):
    """Build 2-4 grids one after the other (from images that agree in everything but the shape -
    same shape again, permuted shape, another shape with the same number of voxels - and directly),
    *then* verify every one of them: each grid is the grid of its own shape / image."""
    dim = case["dim"]
    t = {"dim": dim}
    built = []
    for it in case["items"]:
        if it["via"] == "image":
            img = gens.build_image(_plain_spec(dim, it["shape"], it["dimensions"]))
            built.append((it, darsia.generate_grid(img), img))
        else:
            built.append((it, darsia.Grid(tuple(it["shape"]), [float(v) for v in it["dimensions"]]), None))
    for k, (it, g, img) in enumerate(built):
        tt = dict(t, via=it["via"], rel=it["rel"])
        if [int(x) for x in g.shape] != list(it["shape"]):
            raise Violation("grid-of-another-shape", f"grid {k} of the sequence ({it['via']}, {it['rel']}) has "
                            f"shape {tuple(g.shape)}, requested {it['shape']}; sequence "
                            f"{[i['shape'] for i in case['items']]}", tt)
        want = np.array(it["dimensions"], float) / (np.array(it["shape"]) if img is not None else 1.0)
        if not np.array_equal(np.asarray(g.voxel_size, float), want):
            raise Violation("grid-of-another-shape", f"grid {k} of the sequence has voxel size "
                            f"{np.asarray(g.voxel_size).tolist()}, expected {want.tolist()}", tt)
        _vector_checks(g, it["shape"], tt)
    rels = tuple(sorted({it["rel"] for it in case["items"][1:]}))
    return Outcome(any(r != "fresh" for r in rels) or len(case["items"]) > 2,
                   [[i["shape"], i["via"], i["dimensions"]] for i in case["items"]],
                   (f"dim{dim}",) + rels + tuple(sorted({"via:" + i["via"] for i in case["items"]})))


_RULE = ("enumerate every grid shape with extents 1..12 (1-D), 1..7 (2-D), 1..5 (3-D) [quick] or "
         "1..40 / 1..12 / 1..7 [thorough] and compare every table with an independent Fortran-order "
         "enumeration; image-derived grids from Hypothesis-drawn images, directly constructed grids under "
         "every documented call form and sequences of grids in one process (extents up to 3000 / 160 / 40) "
         "compared table by table with a closed-form index-arithmetic reference; non-trivial = at least two "
         "axes of extent >= 2, or a single-cell axis beside an axis of extent >= 3; distinct = shape")
_ONE = {"quick": 4, "thorough": 8}

PROP = Prop(
    pid="C07",
    rule=_RULE,
    assumptions=["RefGrid (triple-loop Fortran-order enumeration) is the reference",
                 "1-D 'interior' labelling is only required to partition the faces",
                 "dim >= 2: a face is interior iff both its cells have all tangential neighbours (unit test "
                 "test_compatibility for one direction, the source comment 'exterior_faces: all faces on the "
                 "outer boundary of the grid' for the other)",
                 "documented call forms: shape as tuple (or list, as generate_grid passes it; integer numpy "
                 "arrays such as np.array(image.num_voxels) // 2 are accepted alike and are generated too); "
                 "voxel_size omitted, float or list"],
    subs=[
        Sub("face_counts", check_face_counts, enum=enum_shapes, exhaustive=True, shards=_ONE),
        Sub("connectivity", check_connectivity, enum=enum_shapes, exhaustive=True, shards=_ONE),
        Sub("reverse_is_inverse", check_reverse, enum=enum_shapes, exhaustive=True, shards=_ONE),
        Sub("interior_exterior_partition", check_partition, enum=enum_shapes, exhaustive=True, shards=_ONE),
        Sub("corner_indices_on_face", check_corners, enum=enum_shapes, exhaustive=True, shards=_ONE),
        Sub("grid_follows_image_changes", check_grid_follows_image, gen=gen_image_sequence,
            n={"quick": 400, "thorough": 8000}, shards={"quick": 2, "thorough": 8}),
        Sub("grid_from_image", check_grid_from_image, gen=gen_image,
            n={"quick": 2400, "thorough": 40000}, shards={"quick": 8, "thorough": 16}),
        Sub("direct_call_forms", check_call_forms, gen=gen_call_forms,
            n={"quick": 600, "thorough": 16000}, shards={"quick": 3, "thorough": 16}),
        Sub("grids_do_not_share_state", check_grid_sequences, gen=gen_grid_sequences,
            n={"quick": 300, "thorough": 8000}, shards={"quick": 2, "thorough": 8}),
    ],
)
