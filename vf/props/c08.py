"""C08 - all linear-solve formulations and back-ends solve the same mixed system."""
import warnings

import numpy as np
import scipy.sparse as sps
from hypothesis import strategies as st

import darsia
from vf import wass
from vf.oracles import RefGrid
from vf.props.c07 import all_shapes
from vf.runner import Outcome, Prop, Sub, Violation

FORMS = ["full", "flux_reduced", "pressure"]
SPELLINGS = ["full", "flux_reduced", "flux-reduced", "pressure"]


def _mk(shape, vox, formulation, solver, lso=None):
    g = darsia.Grid(shape=tuple(shape), voxel_size=list(vox))
    opts = {"formulation": formulation, "linear_solver": solver}
    if solver in ("amg", "cg"):
        opts["linear_solver_options"] = lso or {"atol": 1e-13, "rtol": 1e-13, "maxiter": 600}
    with warnings.catch_warnings():
        warnings.simplefilter("ignore")
        w1 = darsia.WassersteinDistanceBregman(g, None, opts)
    return w1, g


def _system(ref, pinned, wts, rng, flux_rhs=True):
    """Harness-assembled A = [[diag(w) vol, -D^T, 0], [D, 0, -c^T], [0, c, 0]] and rhs."""
    nf, nc = ref.num_faces, ref.num_cells
    D = ref.divergence()
    c = np.zeros((1, nc))
    c[0, pinned] = 1.0
    A = np.zeros((nf + nc + 1, nf + nc + 1))
    A[:nf, :nf] = np.diag(wts * ref.vol)
    A[:nf, nf:nf + nc] = -D.T
    A[nf:nf + nc, :nf] = D
    A[nf:nf + nc, -1] = -c[0]
    A[-1, nf:nf + nc] = c[0]
    # flux block of the right-hand side in the units it has in every use by the solvers
    # (weight x face mass matrix x a flux-like vector), so that it is commensurate with the mass source
    g = (wts * ref.vol) * rng.integers(-8, 9, size=nf).astype(float) if flux_rhs else np.zeros(nf)
    f = rng.integers(-8, 9, size=nc).astype(float)
    f -= f.mean()
    b = np.concatenate([g, f * ref.vol, [0.0]])
    return A, b


def _equilibrated_cond(A):
    """Condition number after a few sweeps of symmetric row/column max-scaling: the saddle-point
    matrix mixes entries of very different physical units (flux block ~ cell volume, divergence ~ face
    area, constraint = 1), whose disparity is not a property of the problem."""
    B = np.array(A, dtype=float)
    for _ in range(8):
        r = np.sqrt(np.abs(B).max(axis=1))
        r[r == 0] = 1.0
        B = B / r[:, None]
        c = np.sqrt(np.abs(B).max(axis=0))
        c[c == 0] = 1.0
        B = B / c[None, :]
    return float(np.linalg.cond(B))


def _rel_err(x, xref, nf, nc, A=None, b=None):
    """Largest block-wise relative error of (flux | pressure | multiplier); each block is measured in
    its own units, the multiplier (exactly zero for compatible data) against the pressure scale.

    A block of the reference that vanishes or nearly cancels is measured against the size of the terms
    that cancel in it - for the flux u_f = (g_f + (D^T p)_f) / A_ff these are |g_f| / A_ff and
    (|D^T| |p|)_f / A_ff - because that is what rounding in any correct solver is relative to (thorough
    tier: two cells with equal sources, u = 0 exactly, computed 1e-15 next to a pressure of 8)."""
    x, xref = np.asarray(x, float), np.asarray(xref, float)
    if x.shape != xref.shape or not np.all(np.isfinite(x)):
        return np.inf
    out = 0.0
    su = np.abs(xref[:nf]).max() if nf else 0.0
    sp = np.abs(xref[nf:nf + nc]).max()
    if nf and A is not None and b is not None:
        A = np.asarray(A, float)
        diag = np.abs(np.diag(A)[:nf])
        terms = np.abs(np.asarray(b, float)[:nf]) + np.abs(A[:nf, nf:nf + nc]) @ np.abs(xref[nf:nf + nc])
        with np.errstate(all="ignore"):
            nat = np.where(diag > 0, terms / diag, 0.0)
        if nat.size and np.all(np.isfinite(nat)):
            su = max(su, float(nat.max()))
        # ... and for the pressure differences (D^T p)_f = A_ff u_f - g_f the terms |A_ff u_f| and |g_f|,
        # per unit of the coupling entries (face areas) of that row
        coup = np.abs(A[:nf, nf:nf + nc]).max(axis=1)
        terms_p = np.abs(np.asarray(b, float)[:nf]) + diag * np.abs(xref[:nf])
        with np.errstate(all="ignore"):
            natp = np.where(coup > 0, terms_p / coup, 0.0)
        if natp.size and np.all(np.isfinite(natp)):
            sp = max(sp, float(natp.max()))
    # a block that vanishes identically is measured against the size it would naturally have
    # (rounding noise of the other block carried over), never against zero
    floor = max(1e-10 * max(su, sp), np.finfo(float).tiny)
    if nf:
        out = max(out, np.abs(x[:nf] - xref[:nf]).max() / max(su, floor))
    out = max(out, np.abs(x[nf:nf + nc] - xref[nf:nf + nc]).max() / max(sp, floor))
    if len(x) > nf + nc and A is not None and b is not None:
        # the multiplier of the pressure constraint (zero for compatible data), in the units of the mass
        # balance rows it enters: against the mass source and |D| times the (natural) flux scale
        sl = max(float(np.abs(np.asarray(b, float)[nf:nf + nc]).max()),
                 float(np.abs(np.asarray(A, float)[nf:nf + nc, :nf]).max()) * su if nf else 0.0)
        out = max(out, float(np.abs(x[nf + nc:] - xref[nf + nc:]).max()) / max(sl, floor))
    return float(out)


def _weights(rng, nf, kind):
    if kind == "unit":
        return np.ones(nf)
    return 10.0 ** rng.uniform(-1.5, 1.5, size=nf)


def _case_setup(case):
    shape, vox = case["shape"], case["vox"]
    ref = RefGrid(shape, vox)
    rng = np.random.default_rng(case["pseed"])
    return ref, rng


def _tags(case, **kw):
    t = {"dim": len(case["shape"]), "vk": case.get("vk", "")}
    t.update(kw)
    # does the AMG hierarchy of an iterative back-end have more than one level?  pyamg coarsens while the
    # level has more than max_coarse (default 100) unknowns; the reduced systems have cells + 1
    # (flux-eliminated, with the multiplier) resp. cells - 1 (pressure only) unknowns
    if kw.get("solver") in ("amg", "cg"):
        nc = int(np.prod(case["shape"]))
        n = nc + 1 if str(kw.get("formulation", "")).replace("-", "_") == "flux_reduced" else nc - 1
        mc = case.get("max_coarse")
        t["multilevel"] = bool(n > (mc if mc is not None else 100))
    return t


def _solve(w1, A, b, reuse=False):
    """One call of the library's linear_solve.  The system handed over is the caller's: the same matrix
    and right-hand side objects are compared with the solution afterwards (and given to the next
    formulation), so they must come back unchanged."""
    M = sps.csc_matrix(A)
    rhs = np.array(b, dtype=float)
    with warnings.catch_warnings():
        warnings.simplefilter("ignore")
        x, _ = w1.linear_solve(M, rhs, None, reuse_solver=reuse)
    if not np.array_equal(rhs, b):
        k = int(np.argmax(np.abs(rhs - b)))
        raise Violation(f"system-modified:rhs:{w1.formulation}", f"linear_solve ({w1.formulation}/"
                        f"{w1.options.get('linear_solver')}) changed the right-hand side it was given: entry {k} "
                        f"{b[k]!r} -> {rhs[k]!r}", {"formulation": str(w1.formulation)})
    if M.shape != A.shape or not np.array_equal(M.toarray(), A):
        raise Violation(f"system-modified:matrix:{w1.formulation}", f"linear_solve ({w1.formulation}/"
                        f"{w1.options.get('linear_solver')}) changed the matrix it was given",
                        {"formulation": str(w1.formulation)})
    return np.asarray(x, dtype=float)


def _nt(case):
    return sum(1 for s in case["shape"] if s >= 2) >= 2 and case.get("wk", "var") == "var"


VOXC = {"unit": [1.0, 1.0, 1.0], "pow2": [0.5, 4.0, 0.125], "generic": [0.3, 1.7, 0.55],
        # mm-sized cells in SI units (cell volume ~1e-12) and km-sized ones: the flux block of the
        # system scales with the cell volume, absolute regularisations would show here
        "tiny": [2.0 ** -13, 2.0 ** -13, 2.0 ** -14], "huge": [1024.0, 512.0, 2048.0]}


def enum_direct(tier):
    out = []
    for i, s in enumerate(all_shapes(tier)):
        if int(np.prod(s)) < 2:
            continue
        for rep in range(1 if tier == "quick" else 2):  # thorough: every shape with two voxel classes / systems
            vk = ["unit", "pow2", "generic", "tiny", "huge"][(i + 2 * rep) % 5]
            out.append({"shape": s, "vox": VOXC[vk][: len(s)], "vk": vk, "pseed": i + 7919 * rep, "wk": "var"})
    return out


def check_direct_all_forms(case):
    """Every formulation with the direct back-end: matches the dense reference solve,
    satisfies the full system, and the formulations agree pairwise."""
    ref, rng = _case_setup(case)
    sols = {}
    A = b = None
    for form in FORMS:
        w1, g = _mk(case["shape"], case["vox"], form, "direct")
        pinned = int(w1.constrained_cell_flat_index)
        if A is None:
            wts = _weights(rng, ref.num_faces, case.get("wk", "var"))
            A, b = _system(ref, pinned, wts, rng)
            xref = np.linalg.solve(A, b)
            cond = _equilibrated_cond(A)
        x = _solve(w1, A, b)
        sols[form] = x
        # backward error, row by row in the units of that row
        # the solution satisfies the original full system (global backward error; the block-wise
        # comparison with the dense solution of that very system below is the sharper statement)
        res = np.abs(A @ x - b).max()
        if res > 1e-9 * cond * float((np.abs(A) @ np.abs(x) + np.abs(b)).max()):
            raise Violation(f"residual:{form}:direct", f"|Ax-b| = {res:.3e} for formulation {form}",
                            _tags(case, formulation=form, solver="direct"))
        err = _rel_err(x, xref, ref.num_faces, ref.num_cells, A, b)
        if err > 1e-11 * cond:
            raise Violation(f"dense-mismatch:{form}:direct", f"block-wise relative error {err:.3e} "
                            f"(equilibrated cond {cond:.2e})", _tags(case, formulation=form, solver="direct"))
    for a_, b_ in (("full", "flux_reduced"), ("full", "pressure"), ("flux_reduced", "pressure")):
        d = _rel_err(sols[a_], sols[b_], ref.num_faces, ref.num_cells, A, b)
        if d > 2e-11 * cond:
            raise Violation(f"disagree:{a_}:{b_}", f"block-wise relative difference {d:.3e}", _tags(case))
    return Outcome(_nt(case), [case["shape"], case["vox"], case["pseed"]],
                   (f"dim{len(case['shape'])}", case.get("vk", "")), evals=3)


def enum_spellings(tier):
    out = []
    for shape in ([5], [3, 4], [2, 3, 2], [1, 4], [2, 1, 3]):
        for sp in SPELLINGS:
            for solver in ("direct", "amg", "cg"):
                if sp == "full" and solver != "direct":
                    continue
                out.append({"shape": shape, "vox": [1.0] * len(shape), "spelling": sp,
                            "solver": solver, "pseed": 5})
    return out


def check_documented_usable(case):
    """Every documented formulation spelling constructs and solves (the docstring lists
    "full", "flux_reduced", "pressure"; the hyphenated spelling is what the code accepted)."""
    ref, rng = _case_setup(case)
    sp, solver = case["spelling"], case["solver"]
    t = _tags(case, formulation=sp, solver=solver)
    try:
        w1, g = _mk(case["shape"], case["vox"], sp, solver)
    except AssertionError as e:
        if sp == "flux-reduced":
            return Outcome(False, case, status="rejected")  # undocumented spelling may be refused
        raise Violation(f"unusable:{sp}", f"documented formulation {sp!r} rejected at construction: {e}", t)
    pinned = int(w1.constrained_cell_flat_index)
    A, b = _system(ref, pinned, _weights(rng, ref.num_faces, "var"), rng)
    try:
        x = _solve(w1, A, b)
    except (UnboundLocalError, AttributeError) as e:
        raise Violation(f"unusable:{sp}", f"formulation {sp!r} constructs but cannot solve: "
                        f"{type(e).__name__}: {e}", t)
    xref = np.linalg.solve(A, b)
    tol = 1e-9 if solver == "direct" else 1e-6
    if _rel_err(x, xref, ref.num_faces, ref.num_cells, A, b) > tol * _equilibrated_cond(A):
        raise Violation(f"dense-mismatch:{sp}:{solver}", f"max|x-x_ref| = {np.abs(x - xref).max():.3e}", t)
    return Outcome(True, case, (sp, solver))


def gen_iterative(tier):
    @st.composite
    def strat(draw):
        g = draw(wass.grid_specs(max_cells={1: 40, 2: 9, 3: 5}, min_cells=2))
        return {"shape": g["shape"], "vox": g["vox"], "vk": g["vk"],
                "form": draw(st.sampled_from(["flux_reduced", "pressure"])),
                "solver": draw(st.sampled_from(["amg", "cg", "direct"])),
                "wk": draw(st.sampled_from(["var", "var", "unit"])),
                "default_tol": draw(st.booleans()),
                # power-of-two size of the data: 1, tiny (mm-sized images in SI units), large
                "rhs_exp": draw(st.sampled_from([0, 0, -30, -44, 24])),
                "zero_flux_rhs": draw(st.booleans()),
                # documented pyamg option: a small coarsest level forces a genuine multigrid hierarchy
                # (several levels) on the small grids of this check; None = single level (exact coarse solve)
                "max_coarse": draw(st.sampled_from([None, None, 2, 5, 10])),
                "pseed": draw(st.integers(0, 2**20))}
    return strat()


def _amg_state(w1):
    """(levels, converged) of a stand-alone AMG back-end after a solve: pyamg stops on
    ||r|| <= tol * ||b|| or after maxiter cycles and reports neither; the residual history tells."""
    ls = getattr(w1, "linear_solver", None)
    levels = len(getattr(ls, "levels", [])) if ls is not None else 0
    hist = list(getattr(w1, "amg_residual_history", []) or [])
    so = getattr(w1, "solver_options", {}) or {}
    conv = None
    if hist and "maxiter" in so:
        conv = (len(hist) - 1) < so["maxiter"]
    return levels, conv


def check_backends(case):
    """Iterative back-ends (tight and default tolerances) against the dense reference."""
    ref, rng = _case_setup(case)
    form, solver = case["form"], case["solver"]
    t = _tags(case, formulation=form, solver=solver)
    lso = None
    tol = 1e-9
    if case["default_tol"] and solver != "direct":
        lso = {}
        tol = 1e-4  # default linear tolerances are 1e-6 relative
    g = darsia.Grid(shape=tuple(case["shape"]), voxel_size=list(case["vox"]))
    opts = {"formulation": form, "linear_solver": solver}
    scale = 2.0 ** case.get("rhs_exp", 0)
    if solver != "direct":
        # scipy's cg takes an absolute tolerance in the units of the data next to the relative one; the
        # "atol" of the AMG back-end is handed to pyamg as `tol`, which is relative to ||b||
        opts["linear_solver_options"] = lso if lso is not None else {
            "atol": 1e-13 * (scale if solver == "cg" else 1.0), "rtol": 1e-13, "maxiter": 600}
    mc = case.get("max_coarse")
    if mc is not None and solver != "direct":
        opts["amg_options"] = {"max_coarse": int(mc)}
    t.setdefault("multilevel", False)
    with warnings.catch_warnings():
        warnings.simplefilter("ignore")
        w1 = darsia.WassersteinDistanceBregman(g, None, opts)
    pinned = int(w1.constrained_cell_flat_index)
    A, b = _system(ref, pinned, _weights(rng, ref.num_faces, case["wk"]), rng,
                   flux_rhs=not case.get("zero_flux_rhs", False))
    b = b * scale
    xref = np.linalg.solve(A, b)
    cond = _equilibrated_cond(A)
    np.random.seed(case["pseed"] % (2**31))  # pyamg's set-up draws from numpy's global generator
    x = _solve(w1, A, b)
    err = _rel_err(x, xref, ref.num_faces, ref.num_cells, A, b)
    levels, amg_conv = _amg_state(w1) if solver == "amg" else (0, None)
    t["amg_converged"] = amg_conv
    if err > 10 * tol * cond:
        if solver == "amg" and amg_conv is False:
            # the stand-alone multigrid iteration ran out of cycles without reaching its tolerance and
            # said nothing: "up to solver tolerance" is not met, under a kind of its own
            raise Violation(f"amg-unconverged-silent:{form}", f"AMG stopped after {w1.solver_options['maxiter']} "
                            f"cycles at relative residual {w1.amg_residual_history[-1] / max(w1.amg_residual_history[0], 1e-300):.2e} "
                            f"without warning; block-wise relative error {err:.3e} (cond {cond:.2e}, {levels} levels)", t)
        raise Violation(f"dense-mismatch:{form}:{solver}", f"block-wise relative error {err:.3e} (cond {cond:.2e}, "
                        f"{'default' if case['default_tol'] else 'tight'} tolerances)", t)
    return Outcome(_nt(case), [case["shape"], case["vox"], form, solver, case["pseed"], mc],
                   (f"dim{len(case['shape'])}", form, solver,
                    "default-tol" if case["default_tol"] else "tight-tol",
                    f"rhs-2^{case.get('rhs_exp', 0)}", "zero-flux-rhs" if case.get("zero_flux_rhs") else "full-rhs",
                    "multilevel" if t["multilevel"] else "single-level"))


def gen_reuse(tier):
    @st.composite
    def strat(draw):
        g = draw(wass.grid_specs(max_cells={1: 30, 2: 7, 3: 4}, min_cells=2))
        n = draw(st.integers(2, 5))
        # one object, a sequence of systems: each step either brings a new matrix (then the solver must be
        # set up afresh - except on the very first call, where asking for re-use is allowed and simply
        # sets up) or keeps the matrix (then re-use or a fresh set-up are both right); this is how the
        # Bregman iteration drives it: (new, fresh), (same, reuse), (same, reuse), (new, fresh), ...
        steps = []
        for k in range(n):
            new = k == 0 or draw(st.booleans())
            reuse = draw(st.booleans()) if (not new or k == 0) else False
            steps.append([bool(new), bool(reuse)])
        # physical size of the voxels: order one, or a photograph / micro-model in SI units (voxels of
        # 1e-5 .. 1e-3 m, flux-block entries h^d * weight below 1e-8) or a field-scale domain; an exact
        # power of two, so the systems are the same up to scaling (round 5, C08-u2)
        # With the direct back-end only: the iterative back-ends are driven here with the harness's fixed
        # absolute tolerance (1e-13), which is not "tight" any more next to data of size 1e-10 - a first
        # version applied the scaling to all back-ends and raised a false alarm (CG stopping at x = 0).
        solver = draw(st.sampled_from(["direct", "direct", "amg", "cg"]))
        vexp = draw(st.sampled_from([0, 0, 0, -17, -10, 12])) if solver == "direct" else 0
        return {"shape": g["shape"], "vox": [v * 2.0 ** vexp for v in g["vox"]], "vk": g["vk"], "vox_exp": vexp,
                "form": draw(st.sampled_from(FORMS)),
                "solver": solver,
                "steps": steps,
                "pseed": draw(st.integers(0, 2**20))}
    return strat()


def check_reuse(case):
    """Sequences of systems on one object: reuse_solver=True on an unchanged matrix (or on the first
    call) equals a fresh solve; reuse_solver=False is always right."""
    ref, rng = _case_setup(case)
    form, solver = case["form"], case["solver"]
    if form == "full" and solver != "direct":
        solver = "direct"
    t = _tags(case, formulation=form, solver=solver)
    w1, g = _mk(case["shape"], case["vox"], form, solver)
    pinned = int(w1.constrained_cell_flat_index)
    steps = case.get("steps")
    if steps is None:  # replay files written before the step list existed
        steps = [[k == 0 or not case["same_matrix"], bool(case["same_matrix"] and k > 0)] for k in range(case["n"])]
    wts = None
    tol = 1e-11 if solver == "direct" else 1e-8
    kept = []
    for k, (new, reuse) in enumerate(steps):
        if new or wts is None:
            wts = _weights(rng, ref.num_faces, "var")
        A, b = _system(ref, pinned, wts, rng)
        try:
            x = _solve(w1, A, b, reuse=reuse)
        except AttributeError as e:
            raise Violation(f"sequence:unusable:{form}:{solver}", f"step {k} (new matrix {new}, reuse_solver={reuse}): "
                            f"{type(e).__name__}: {e}", t)
        xref = np.linalg.solve(A, b)
        cond = _equilibrated_cond(A)
        err = _rel_err(x, xref, ref.num_faces, ref.num_cells, A, b)
        if err > 10 * tol * cond:
            raise Violation(f"sequence:{'reuse' if reuse else 'fresh'}:{form}:{solver}",
                            f"system {k} of the sequence {steps}: max|x-x_ref| = {err:.3e}", t)
        kept.append((x, xref, cond, A, b))
    # solutions handed out earlier stay what they were (no buffer shared between calls)
    for k, (x, xref, cond, A, b) in enumerate(kept):
        if _rel_err(x, xref, ref.num_faces, ref.num_cells, A, b) > 10 * tol * cond:
            raise Violation(f"sequence:overwritten:{form}:{solver}", f"the solution returned for system {k} was "
                            f"changed by a later solve on the same object", t)
    return Outcome(True, [case["shape"], case["vox"], form, solver, steps, case["pseed"]],
                   (form, solver, "first-call-reuse" if steps[0][1] else "first-call-fresh",
                    "reuses" if any(r for _, r in steps[1:]) else "no-reuse",
                    "matrix-changes" if any(n for n, _ in steps[1:]) else "matrix-constant"),
                   evals=len(steps))


def gen_shared_options(tier):
    @st.composite
    def strat(draw):
        g = draw(wass.grid_specs(max_cells={1: 30, 2: 7, 3: 4}, min_cells=2))
        return {"shape": g["shape"], "vox": g["vox"], "vk": g["vk"],
                "order": draw(st.permutations(["direct", "amg", "cg"])),
                "form": draw(st.sampled_from(["pressure", "pressure", "flux_reduced"])),
                "rhs_exp": draw(st.sampled_from([0, -20, -27, 20])),
                "explicit": draw(st.booleans()), "pseed": draw(st.integers(0, 2**20))}
    return strat()


def check_shared_options(case):
    """Several solver objects built one after the other from the *same* options dictionary (only the
    back-end entry is changed in between, as a user comparing back-ends would do): constructing and using
    one object does not change the options the next one sees, and every back-end solves systems of
    small / large absolute magnitude to its relative tolerance."""
    import copy

    ref, rng = _case_setup(case)
    opts = {"formulation": case["form"]}
    if case["explicit"]:
        opts["linear_solver_options"] = {"rtol": 1e-10, "maxiter": 400}
    scale = 2.0 ** case["rhs_exp"]
    wts = _weights(rng, ref.num_faces, "var")
    for solver in case["order"]:
        opts["linear_solver"] = solver
        before = copy.deepcopy(opts)
        g = darsia.Grid(shape=tuple(case["shape"]), voxel_size=list(case["vox"]))
        with warnings.catch_warnings():
            warnings.simplefilter("ignore")
            w1 = darsia.WassersteinDistanceBregman(g, None, opts)
        t = _tags(case, formulation=case["form"], solver=solver)
        A, b = _system(ref, int(w1.constrained_cell_flat_index), wts, rng)
        b = b * scale
        x = _solve(w1, A, b)
        if opts != before:
            raise Violation("options-mutated", f"building / using a {solver} solver changed the caller's options "
                            f"dictionary: {before} -> {opts}", t)
        xref = np.linalg.solve(A, b)
        tol = 1e-9 if solver == "direct" else (1e-7 if case["explicit"] else 1e-4)
        err = _rel_err(x, xref, ref.num_faces, ref.num_cells, A, b)
        if err > 10 * tol * _equilibrated_cond(A):
            raise Violation(f"dense-mismatch:{case['form']}:{solver}", f"right-hand side of magnitude 2^{case['rhs_exp']}: "
                            f"block-wise relative error {err:.3e}", t)
    return Outcome(True, [case["shape"], case["vox"], case["order"], case["form"], case["rhs_exp"], case["pseed"]],
                   (case["form"], f"rhs2^{case['rhs_exp']}", "explicit-tol" if case["explicit"] else "default-tol",
                    "-".join(case["order"])), evals=3)


def gen_end_to_end(tier):
    @st.composite
    def strat(draw):
        g = draw(wass.grid_specs(max_cells={1: 24, 2: 6, 3: 3}, min_cells=2))
        o = draw(wass.option_specs(max_iter=10))
        o["aa_depth"] = 0
        o["aa_restart"] = None
        return {"grid": g, "mass": draw(wass.mass_specs()), "opt": o}
    return strat()


def check_end_to_end(case):
    """The distance does not depend on formulation / back-end beyond solver tolerance."""
    grid, o = case["grid"], dict(case["opt"])
    a, b = wass.make_masses(grid["shape"], case["mass"])
    i1, i2 = wass.make_images(grid, a, b)
    dists = {}
    t = {"dim": len(grid["shape"]), "method": o["method"], "mobility": o["mobility_mode"],
         "degenerate_mobility": False}
    for form, solver in (("full", "direct"), ("flux_reduced", "direct"), ("pressure", "direct"),
                         ("pressure", "amg"), ("pressure", "cg")):
        o["formulation"], o["linear_solver"] = form, solver
        with warnings.catch_warnings():
            warnings.simplefilter("ignore")
            np.seterr(all="ignore")
            try:
                w1, _ = wass.make_solver(grid, o)
                wass.watch_mobility(w1, t)
                d, info = w1(i1, i2)
            except Exception as e:  # crash: reported by the runner with these tags
                e.vf_tags = dict(t, formulation=form, solver=solver)
                raise
        dists[(form, solver)] = float(d)
    vals = np.array(list(dists.values()))
    if not np.all(np.isfinite(vals)):
        if np.all(~np.isfinite(vals)):
            return Outcome(False, None, ("nonfinite",), status="skipped")
        raise Violation("end-to-end:finite-mismatch", f"{dists}", t)
    ref = dists[("full", "direct")]
    for k, v in dists.items():
        if abs(v - ref) > 1e-6 * max(1.0, abs(ref)):
            raise Violation(f"end-to-end:{k[0]}:{k[1]}", f"distance {v!r} vs full/direct {ref!r} "
                            f"(method {o['method']}, {o['num_iter']} iterations)", t)
    return Outcome(len([s for s in grid["shape"] if s >= 2]) >= 2,
                   [grid, case["mass"], o["method"], o["l1_mode"], o["mobility_mode"], o["num_iter"]],
                   (f"dim{len(grid['shape'])}", o["method"], o["mobility_mode"]), evals=5)


_RULE = ("direct back-end: every grid shape of the C07 range with >= 2 cells is enumerated (voxel class "
         "cycling unit/pow2/generic), random positive face weights over three decades, random rhs with "
         "arbitrary flux block and zero-mean mass source, all three formulations compared with a dense "
         "numpy solve of the harness-assembled system; iterative back-ends, solver re-use sequences and "
         "end-to-end distances on Hypothesis-drawn grids; non-trivial = >= 2 axes of extent >= 2 and "
         "non-constant weights")

PROP = Prop(
    pid="C08",
    rule=_RULE,
    assumptions=["dense numpy.linalg.solve of the harness-assembled saddle-point system (RefGrid "
                 "incidence) is the reference; errors are measured block-wise (flux / pressure, each in its own "
                 "units) against 1e-11 x cond of the row/column-equilibrated matrix (direct), 1e-8 x cond (tight "
                 "iterative), 1e-3 x cond (default iterative tolerances)",
                 "reuse_solver=True with a *changed* matrix is not asserted; full + amg/cg is refused "
                 "by the code and not generated; PETSc ksp is not installed"],
    subs=[
        Sub("direct_all_formulations", check_direct_all_forms, enum=enum_direct, exhaustive=True,
            shards={"quick": 6, "thorough": 8}),
        Sub("documented_formulations_usable", check_documented_usable, enum=enum_spellings,
            exhaustive=True, shards={"quick": 2, "thorough": 2}),
        Sub("backends_match_dense_reference", check_backends, gen=gen_iterative,
            n={"quick": 300, "thorough": 6000}, shards={"quick": 3, "thorough": 12}),
        Sub("reuse_is_transparent", check_reuse, gen=gen_reuse,
            n={"quick": 200, "thorough": 4000}, shards={"quick": 2, "thorough": 8}),
        Sub("shared_options_and_scales", check_shared_options, gen=gen_shared_options,
            n={"quick": 200, "thorough": 4000}, shards={"quick": 2, "thorough": 8}),
        Sub("end_to_end_distance", check_end_to_end, gen=gen_end_to_end,
            n={"quick": 60, "thorough": 1500}, shards={"quick": 3, "thorough": 16}),
    ],
)
