"""C18 - saved images and corrections reload to equivalent objects.

Round trips: Image.save -> imread (npz), cv2-encoded byte strings -> imread_from_bytes,
OpticalImage.write -> imread (lossless formats), correction.save -> read_correction.
Scratch files live under /verif/.cache/run-<pid>/c18 and are removed at the end of every case.
"""
import copy
import datetime as _dt
import json
import os
import shutil
import zlib
from pathlib import Path

import cv2
import numpy as np
from hypothesis import strategies as st

import darsia
from vf import env, gens
from vf.props import c10 as C
from vf.runner import Outcome, Prop, Sub, Violation

# ---------------------------------------------------------------------------------------------
# scratch
# ---------------------------------------------------------------------------------------------


def _scratch():
    d = os.path.join(env.VERIF, ".cache", f"run-{os.getpid()}", "c18")
    os.makedirs(d, exist_ok=True)
    return d


def _cleanup():
    shutil.rmtree(os.path.join(env.VERIF, ".cache", f"run-{os.getpid()}"), ignore_errors=True)


def _wrap(fn):
    def check(case):
        try:
            return fn(case)
        finally:
            _cleanup()

    check.__name__ = fn.__name__
    return check


def _path(name, kind="Path"):
    p = os.path.join(_scratch(), name)
    return Path(p) if kind == "Path" else p


# ---------------------------------------------------------------------------------------------
# 1. npz round trip
# ---------------------------------------------------------------------------------------------


def gen_npz(tier):
    @st.composite
    def strat(draw):
        spec = draw(gens.image_specs(
            dims=(1, 2, 3), max_extent={1: 20, 2: 7, 3: 4},
            dtypes=("float64", "float32", "uint8", "uint16", "bool"), max_nt=3, max_comp=3))
        cand = ["Image", "Image"]
        if spec["payload"] == "scalar":
            cand.append("ScalarImage")
        if spec["dim"] == 2 and spec["payload"] == "vector":
            spec["ncomp"] = draw(st.sampled_from([3, 3, spec["ncomp"]]))
            if spec["ncomp"] == 3:
                cand += ["OpticalImage", "OpticalImage"]
        spec["cls"] = draw(st.sampled_from(cand))
        spec["cspace"] = draw(st.sampled_from(["RGB", "BGR", "HSV"]))
        # "saving ANY image": not only freshly constructed ones - half of the cases save an image
        # that public operations have brought into another state first (see _OPS)
        ops = []
        for _ in range(draw(st.sampled_from([0, 0, 0, 1, 1, 2, 3]))):
            ops.append(draw(_op(spec)))
        return {
            "img": spec,
            "ops": ops,
            "refdate": draw(st.sampled_from([None, None, -90, 45])),  # seconds relative to BASE_DATE
            "special": draw(st.sampled_from([False, False, True])),
            "path": draw(st.sampled_from(["Path", "str"])),
            "subdir": draw(st.booleans()),
            "fname": draw(st.sampled_from(["a.npz", "with space.npz", "b.c.npz"])),
        }

    return strat()


# operations that produce images which do not come straight from the constructor: other dtype than
# the original one, array that is a strided view, metadata changed after construction
_OPS_ANY = ["astype", "astype", "astype", "set_time", "rename", "rename_dict", "reset_origin", "copy",
            "subregion", "layout", "layout", "append"]
_OPS_SERIES = ["time_slice", "time_slice", "time_interval", "time_interval"]
_OPS_DATED = ["new_reference_date", "shift_reference", "reset_reference"]


@st.composite
def _op(draw, spec):
    cand = list(_OPS_ANY)
    if spec["series"]:
        cand += _OPS_SERIES
    if spec["time"] in ("date", "both"):
        cand += _OPS_DATED
    return {"op": draw(st.sampled_from(cand)), "a": draw(st.integers(0, 7)), "b": draw(st.integers(0, 7)),
            "to": draw(st.sampled_from(C.ALL5))}


def _apply_op(img, op, case, k):
    """One public operation; returns (image, label) - label None if the operation does not apply to
    the current state of the image (then it is skipped)."""
    name, a, b = op["op"], op["a"], op["b"]
    dated = not img._is_none(img.date)
    if name == "astype":
        return img.astype(C.NPT[op["to"]]), "op-astype"
    if name == "copy":
        return img.copy(), "op-copy"
    if name == "rename":
        img.update_metadata(name=f"renamed {a}")
        return img, "op-update_metadata"
    if name == "rename_dict":
        img.update_metadata({"name": None if a % 2 else "x"})
        return img, "op-update_metadata"
    if name == "reset_origin":
        if a % 2:
            return img.reset_origin(return_image=True), "op-reset_origin"
        img.reset_origin()
        return img, "op-reset_origin"
    if name == "set_time":
        n = img.time_num
        img.set_time([0.5 * a + 3.0 * i for i in range(n)] if img.series else 0.5 * a)
        return img, "op-set_time"
    if name == "layout":
        # the array of an image may be any ndarray (corrections assign views / transposed copies)
        img.img = np.asfortranarray(img.img) if a % 2 else np.repeat(img.img, 2, axis=0)[::2]
        return img, "op-layout"
    if name == "subregion":
        n = img.num_voxels
        roi = []
        for d in range(img.space_dim):
            lo = (a + d) % n[d]
            roi.append(slice(lo, lo + 1 + (b + d) % (n[d] - lo)))
        return img.subregion(tuple(roi)), "op-subregion"
    if name == "time_slice":
        if not img.series:
            return img, None
        return img.time_slice(a % img.time_num), "op-time_slice"
    if name == "time_interval":
        if not img.series:
            return img, None
        lo = a % img.time_num
        return img.time_interval(slice(lo, lo + 1 + b % (img.time_num - lo))), "op-time_interval"
    if name == "new_reference_date":
        if not dated:
            return img, None
        img.update_reference_time(gens.BASE_DATE - _dt.timedelta(seconds=7 * a + 1))
        return img, "op-reference"
    if name == "shift_reference":
        if not dated or img.reference_date is None:
            return img, None
        img.update_reference_time(1.5 * a - 4.0)
        return img, "op-reference"
    if name == "reset_reference":
        if not dated:
            return img, None
        img.reset_reference_time()
        return img, "op-reference"
    if name == "append":
        # a later single image of the same geometry (documented use: single -> series, series grows)
        spec = case["img"]
        if img.img.shape[: img.space_dim] != tuple(spec["shape"]) or img.time_num > 4:
            return img, None
        nxt = 60 + 40 * k + a  # minutes after BASE_DATE: later than every date drawn / appended so far
        s2 = dict(spec, series=False, nt=0, pseed=(spec["pseed"] + 101 * (k + 1)) % 2**16)
        arr2 = gens.payload_array(gens.full_shape(s2), str(img.img.dtype), s2["pseed"], dyadic=True)
        kw = dict(space_dim=img.space_dim, dimensions=list(img.dimensions), scalar=img.scalar,
                  origin=np.asarray(img.origin, dtype=float).tolist())
        if dated:
            kw["date"] = gens.BASE_DATE + _dt.timedelta(minutes=nxt)
        if not img._is_none(img.time):
            kw["time"] = 100.0 + a
        img.append(darsia.Image(arr2, **kw), offset=[None, 5.0, 1000.0][b % 3])
        return img, "op-append"
    raise AssertionError(name)


def _direct_attrs(img):
    """The attributes of an image read one by one (not through Image.metadata())."""
    out = {}
    for k in ("space_dim", "dimensions", "origin", "series", "scalar", "date", "reference_date", "time",
              "name", "indexing"):
        v = getattr(img, k)
        if k in ("dimensions", "origin"):
            v = np.asarray(v, dtype=float).tolist()
        out[k] = copy.deepcopy(v)
    return out


def _build_npz_image(case):
    spec = case["img"]
    arr = gens.payload_array(gens.full_shape(spec), spec["dtype"], spec["pseed"], dyadic=True)
    if case["special"] and arr.dtype.kind == "f" and arr.size:
        flat = arr.reshape(-1)
        vals = [np.nan, np.inf, -np.inf, -0.0, np.finfo(arr.dtype).max, np.finfo(arr.dtype).tiny]
        for i, v in enumerate(vals):
            flat[(7 * i) % flat.size] = v
    kw = gens.image_kwargs(spec)
    if case["refdate"] is not None and spec["time"] in ("date", "both"):
        kw["reference_date"] = gens.BASE_DATE + _dt.timedelta(seconds=case["refdate"])
    if spec["cls"] == "OpticalImage":
        kw["color_space"] = spec["cspace"]
    cls = getattr(darsia, spec["cls"])
    if cls is darsia.ScalarImage:
        kw.pop("scalar", None)
    return cls(arr, **kw), arr.copy()


def _expected_attrs(case):
    """Attributes of the image as the constructor keywords define them (independent of
    Image.metadata(), which both the writer and a metadata comparison would go through)."""
    from vf.oracles import default_origin

    spec = case["img"]
    kw = gens.image_kwargs(spec)
    n = spec["nt"] if spec["series"] else 1
    date = kw.get("date", [None] * n if spec["series"] else None)
    first = date[0] if isinstance(date, list) else date
    ref = first
    if case["refdate"] is not None and spec["time"] in ("date", "both"):
        ref = gens.BASE_DATE + _dt.timedelta(seconds=case["refdate"])
    if "time" in kw:
        time = kw["time"]
    elif first is None:
        time = [None] * n if spec["series"] else None
    elif spec["series"]:
        time = [(d - ref).total_seconds() for d in date]
    else:
        time = (date - ref).total_seconds()
    origin = spec["origin"] if spec["origin"] is not None else default_origin(spec["dim"], spec["dimensions"])
    return {"space_dim": spec["dim"], "dimensions": [float(d) for d in spec["dimensions"]],
            "origin": [float(o) for o in origin], "series": spec["series"],
            "scalar": spec["payload"] == "scalar", "date": date, "reference_date": ref, "time": time,
            "name": spec.get("name"), "indexing": "ijk"[: spec["dim"]]}


def _attr_diff(img, want):
    for k, v in want.items():
        got = getattr(img, k)
        if k in ("dimensions", "origin"):
            same = np.array_equal(np.asarray(got, dtype=float), np.asarray(v, dtype=float))
        else:
            same = got == v and isinstance(got, list) == isinstance(v, list)
        if not same:
            return f"{k}: {got!r}, constructed with {v!r}"
    return ""


def _cs_view(img):
    cs = img.coordinatesystem
    probe = np.array([[0] * cs.dim, list(cs.shape), [1] * cs.dim, [-2] * cs.dim])
    return {
        "dim": cs.dim, "shape": list(cs.shape), "dimensions": [float(d) for d in cs.dimensions],
        "indexing": cs.indexing, "axes": cs.axes,
        "voxel_size": {k: float(v) for k, v in cs.voxel_size.items()},
        "origin": np.asarray(cs._coordinate_of_origin_voxel, dtype=float).tolist(),
        "opposite": np.asarray(cs._coordinate_of_opposite_voxel, dtype=float).tolist(),
        "domain": {k: float(v) for k, v in cs.domain.items()},
        "probe": np.asarray(cs.coordinate(probe), dtype=float).tolist(),
    }


def _bytes_equal(a, b):
    return a.dtype == b.dtype and a.shape == b.shape and a.tobytes() == b.tobytes()


def _npz_tags(case):
    s = case["img"]
    return {"dim": s["dim"], "series": s["series"], "payload": s["payload"], "dtype": s["dtype"],
            "time": s["time"], "cls": s["cls"]}


def _compare_loaded(orig, arr, meta_before, cs_before, want_attrs, loaded, what, t):
    if not isinstance(loaded, darsia.Image):
        raise Violation("npz-type", f"{what}: imread returned {type(loaded).__name__}", t)
    if not _bytes_equal(np.ascontiguousarray(loaded.img), np.ascontiguousarray(arr)):
        d = C._same_array(loaded.img, arr)
        raise Violation("npz-array", f"{what}: array differs ({d or 'byte pattern, e.g. sign of zero'})", t)
    d = C._meta_diff(C._norm_meta(loaded.metadata()), meta_before)
    if d:
        raise Violation("npz-metadata", f"{what}: metadata {d}", t)
    for attr in ("series", "scalar", "space_dim", "time_num", "name"):
        if getattr(loaded, attr) != getattr(orig, attr):
            raise Violation("npz-attribute", f"{what}: {attr} {getattr(orig, attr)!r} -> "
                            f"{getattr(loaded, attr)!r}", t)
    d = _attr_diff(loaded, want_attrs)
    if d:
        raise Violation("npz-attribute", f"{what}: {d}", t)
    cs_after = _cs_view(loaded)
    if cs_after != cs_before:
        bad = [k for k in cs_before if cs_before[k] != cs_after[k]]
        raise Violation("npz-coordinatesystem", f"{what}: coordinate system differs in {bad}", t)


def check_npz(case):
    spec = case["img"]
    t = _npz_tags(case)
    img, arr = _build_npz_image(case)
    want_attrs = _expected_attrs(case)
    d = _attr_diff(img, want_attrs)
    if d:  # the reference model must describe the image that was built
        from vf.runner import HarnessError

        raise HarnessError(f"C18 attribute model disagrees with the constructed image: {d}")
    op_labels = []
    for k, op in enumerate(case.get("ops", [])):
        img, lab = _apply_op(img, op, case, k)
        if lab is not None:
            op_labels.append(lab)
    if op_labels:
        # the image that is saved is the derived one: its array and its attributes, read directly
        arr = np.array(img.img, copy=True, order="K")
        want_attrs = _direct_attrs(img)
        t = dict(t, derived=True)
        if str(img.img.dtype) != str(img.original_dtype):
            op_labels.append("dtype-differs-from-original")
        if not img.img.flags["C_CONTIGUOUS"]:
            op_labels.append("array-not-contiguous")
    meta_before = C._norm_meta(img.metadata())
    # entries of the generic metadata only: imread_from_npz builds a plain darsia.Image
    generic = {k: v for k, v in meta_before.items() if k != "color_space"}
    cs_before = _cs_view(img)
    sub = "sub dir" if case["subdir"] else ""
    p1 = _path(os.path.join(sub, case["fname"]), case["path"])
    img.save(p1, verbose=False)
    if not os.path.exists(str(p1)):
        raise Violation("npz-file", f"save({str(p1)!r}) did not create that file", t)
    # saving must not change the image
    if not _bytes_equal(img.img, arr) or C._norm_meta(img.metadata()) != meta_before:
        raise Violation("npz-save-mutates", "save() changed the image", t)
    loaded = darsia.imread(p1)
    _compare_loaded(img, arr, generic, cs_before, want_attrs, loaded, "save -> imread", t)
    # second generation
    p2 = _path("second.npz", "Path")
    loaded.save(p2, verbose=False)
    again = darsia.imread(str(p2))
    _compare_loaded(img, arr, generic, cs_before, want_attrs, again, "save -> imread -> save -> imread", t)
    with np.load(str(p1), allow_pickle=True) as f1, np.load(str(p2), allow_pickle=True) as f2:
        if not _bytes_equal(f1["array"], f2["array"]):
            raise Violation("npz-resave", "re-saved file holds a different array", t)
    nontrivial = spec["series"] or spec["dim"] == 3 or spec["time"] != "none" or bool(op_labels)
    labels = tuple(sorted(set(op_labels))) + (("derived",) if op_labels else ("fresh-from-constructor",)) + (f"dim{spec['dim']}", "series" if spec["series"] else "single", f"payload-{spec['payload']}",
              f"dtype-{spec['dtype']}", f"time-{spec['time']}", f"cls-{spec['cls']}",
              "origin-user" if spec["origin"] is not None else "origin-default",
              "refdate" if (case["refdate"] is not None and spec["time"] in ("date", "both")) else "refdate-default")
    return Outcome(bool(nontrivial), None, labels, evals=2)


# ---------------------------------------------------------------------------------------------
# 2. byte strings
# ---------------------------------------------------------------------------------------------


def gen_bytes(tier):
    @st.composite
    def strat(draw):
        layout = draw(st.sampled_from(["grey", "grey", "single", "rgb", "rgb", "rgb", "rgba"]))
        kw = draw(st.sampled_from(["none", "geometry", "time", "all"]))
        return {
            "fmt": draw(st.sampled_from([".png", ".tif", ".tiff"])),
            "depth": draw(st.sampled_from([8, 16])),
            "layout": layout,
            "shape": [draw(st.integers(1, 12)), draw(st.integers(1, 12))],
            "pseed": draw(st.integers(0, 2**16)),
            "pattern": draw(st.sampled_from(["random", "random", "channel-ramp"])),
            "kw": kw,
            "t0": draw(st.integers(0, 5)),
            # who wrote the byte string: cv2 (the decoder's own library) or an independent encoder
            "enc": draw(st.sampled_from(["cv2", "independent"])),
            # keyword ``transformations`` of the reader
            "transf": draw(st.sampled_from(["none", "none", "type-float32", "type-float32+none"])),
        }

    return strat()


def _encode(case, arr, nch, to_encode):
    """-> (bytes or None, encoder label).  The independent encoders (Pillow, tifffile) are handed the
    array in RGB order - what the file formats store -, cv2 the BGR order of its API."""
    import io

    fmt, depth = case["fmt"], case["depth"]
    if case.get("enc", "cv2") == "independent" and nch in (0, 3):
        if (depth == 8 or nch == 0) and (fmt == ".png" or case["pseed"] % 3 == 0):
            from PIL import Image as PILImage

            buf = io.BytesIO()
            PILImage.fromarray(arr).save(buf, format="PNG" if fmt == ".png" else "TIFF")
            return buf.getvalue(), "enc-pillow"
        if fmt in (".tif", ".tiff"):
            import tifffile

            buf = io.BytesIO()
            tifffile.imwrite(buf, arr, photometric="rgb" if nch == 3 else "minisblack",
                             compression="deflate" if case["pseed"] % 2 else None)
            return buf.getvalue(), "enc-tifffile"
    ok, buf = cv2.imencode(fmt, to_encode)
    return (buf.tobytes() if ok else None), "enc-cv2"


def _bytes_kwargs(case):
    h, w = case["shape"]
    kw = {}
    if case["kw"] in ("geometry", "all"):
        kw.update(dimensions=[h * 0.5, w * 0.25], origin=[1.5, -2.0], name="from bytes")
    if case["kw"] in ("time", "all"):
        kw.update(date=gens.BASE_DATE + _dt.timedelta(seconds=60 * case["t0"]), time=10.0 * case["t0"])
    return kw


def check_bytes(case):
    h, w = case["shape"]
    nch = {"grey": 0, "single": 1, "rgb": 3, "rgba": 4}[case["layout"]]
    dtype = np.uint8 if case["depth"] == 8 else np.uint16
    rng = np.random.default_rng(case["pseed"])
    shape = (h, w) if nch == 0 else (h, w, nch)
    top = 256 if case["depth"] == 8 else 65536
    arr = rng.integers(0, top, size=shape).astype(dtype)
    if case["pattern"] == "channel-ramp" and nch >= 3:
        # R < G < B everywhere: any channel permutation is visible in every pixel
        arr[..., 0] = arr[..., 0] // 4
        arr[..., 1] = top // 4 + arr[..., 1] // 4
        arr[..., 2] = top // 2 + arr[..., 2] // 4
    t = {"fmt": case["fmt"], "depth": case["depth"], "layout": case["layout"]}
    # the file holds BGR(A) order, as every cv2-written image does
    if nch == 3:
        to_encode = np.ascontiguousarray(arr[..., ::-1])
    elif nch == 4:
        to_encode = np.ascontiguousarray(arr[..., [2, 1, 0, 3]])
    else:
        to_encode = arr
    data, enc = _encode(case, arr, nch, to_encode)
    if data is None:
        return Outcome(False, None, ("encode-failed",), status="skipped")
    t["enc"] = enc
    kw = _bytes_kwargs(case)
    if nch == 3:
        kw["color_space"] = "RGB"
    transf = case.get("transf", "none")
    labels = (case["fmt"], f"{case['depth']}bit", case["layout"], f"kw-{case['kw']}", enc, f"transf-{transf}")
    call_kw = {k: (list(v) if isinstance(v, list) else v) for k, v in kw.items()}
    if transf != "none":
        call_kw["transformations"] = [darsia.TypeCorrection(np.float32)] + ([None] if transf.endswith("none") else [])
    try:
        img = darsia.imread_from_bytes(data, **call_kw)
    except NotImplementedError:
        if nch == 4:  # only grey, single-channel and 3-channel images are implemented
            return Outcome(False, None, labels + ("rejected",), status="rejected")
        raise
    if nch == 4:
        # nothing is promised about 4-channel strings: if a version accepts them, there is no claim
        return Outcome(False, None, labels + ("rgba-accepted",), status="skipped")
    want_cls = darsia.OpticalImage if nch == 3 else darsia.ScalarImage
    if type(img) is not want_cls:
        raise Violation("bytes-kind", f"{case['layout']} -> {type(img).__name__}", t)
    want = arr if nch != 1 else arr[..., 0]
    got = img.img
    if transf != "none":
        # the transformations are applied to the decoded image: float32 image in [0, 1] whose values
        # are the decoded integers divided by the largest value of their type
        if got.dtype != np.float32 or got.shape != want.shape:
            raise Violation("bytes-transformations", f"transformations=[TypeCorrection(float32)]: array of "
                            f"dtype {got.dtype}, shape {got.shape}", t)
        got = np.rint(got.astype(np.float64) * (top - 1)).astype(want.dtype)
    d = C._same_array(got, want)
    if d:
        if nch == 3 and C._same_array(got, want[..., ::-1]) == "":
            raise Violation("bytes-channel-order", "channels come back in BGR order", t)
        raise Violation("bytes-array", f"decoded array differs ({enc}): {d}", t)
    if img.series or img.space_dim != 2 or img.scalar != (nch != 3):
        raise Violation("bytes-metadata", f"series={img.series} space_dim={img.space_dim} scalar={img.scalar}", t)
    for k, v in kw.items():
        got = getattr(img, k)
        same = np.array_equal(np.asarray(got, dtype=float), np.asarray(v, dtype=float)) \
            if k in ("dimensions", "origin") else got == v
        if not same:
            raise Violation("bytes-kwargs", f"keyword {k}={v!r} -> attribute {got!r}", t)
    return Outcome(case["depth"] == 16 or nch == 3, None, labels)


# ---------------------------------------------------------------------------------------------
# 3. OpticalImage.write -> imread
# ---------------------------------------------------------------------------------------------


def gen_write(tier):
    @st.composite
    def strat(draw):
        case = draw(base())
        if case["via"] == "folder":
            case["nfiles"] = max(2, case["nfiles"])
        return case

    @st.composite
    def base(draw):
        return {
            "shape": [draw(st.integers(1, 14)), draw(st.integers(1, 14))],
            "dtype": draw(st.sampled_from(["uint8", "uint8", "uint8", "uint16", "uint16", "uint16", "float64"])),
            "suffix": draw(st.sampled_from([".png", ".tif", ".tiff", ".PNG", ".TIF"])),
            "cspace": draw(st.sampled_from(["RGB", "RGB", "BGR"])),
            "via_float": draw(st.booleans()),
            "nfiles": draw(st.sampled_from([1, 1, 1, 2, 3])),
            "pseed": draw(st.integers(0, 2**16)),
            "pattern": draw(st.sampled_from(["random", "channel-ramp"])),
            "kw": draw(st.sampled_from(["none", "geometry", "time", "time"])),
            "compression": draw(st.sampled_from([None, 0, 9])),
            "path": draw(st.sampled_from(["Path", "str"])),
            # how the files are handed to imread: the path(s), or the folder that holds them
            "via": draw(st.sampled_from(["paths", "paths", "folder"])),
            "t0": draw(st.integers(0, 5)),
        }

    return strat()


def check_write(case):
    h, w = case["shape"]
    t = {"dtype": case["dtype"], "suffix": case["suffix"].lower(), "cspace": case["cspace"],
         "via_float": case["via_float"], "nfiles": case["nfiles"]}
    labels = (case["dtype"], case["suffix"].lower(), case["cspace"],
              "via-float" if case["via_float"] else "direct", f"files-{case['nfiles']}")
    rng = np.random.default_rng(case["pseed"])
    top = {"uint8": 256, "uint16": 65536, "float64": 2}[case["dtype"]]
    paths, wants, ints = [], [], []
    for k in range(case["nfiles"]):
        if case["dtype"] == "float64":
            arr = rng.random((h, w, 3))
        else:
            arr = rng.integers(0, top, size=(h, w, 3)).astype(case["dtype"])
            if case["pattern"] == "channel-ramp":
                arr[..., 0] = arr[..., 0] // 4
                arr[..., 1] = top // 4 + arr[..., 1] // 4
                arr[..., 2] = top // 2 + arr[..., 2] // 4
        img = darsia.OpticalImage(arr.copy(), color_space=case["cspace"], dimensions=[float(h), float(w)])
        as_float = img.img_as(float)
        src = as_float if case["via_float"] else img
        before = src.img.copy()
        p = _path(os.path.join("written", f"w{k}{case['suffix']}"), case["path"])
        kw = {} if case["compression"] is None else {"compression": case["compression"]}
        try:
            src.write(p, **kw)
        except NotImplementedError:
            if case["dtype"] == "float64":  # documented: 8 and 16 bit originals only
                return Outcome(False, None, labels + ("rejected",), status="rejected")
            raise
        if case["dtype"] == "float64":
            # nothing is promised about images that were floats from the start: if a version writes
            # them there is no claim about the (necessarily quantised) colours
            return Outcome(False, None, labels + ("float-accepted",), status="skipped")
        if not np.array_equal(src.img, before) or src.color_space != case["cspace"]:
            raise Violation("write-mutates", "write() changed the image", t)
        rgb = as_float.img if case["cspace"] == "RGB" else as_float.img[..., ::-1]
        paths.append(p)
        wants.append(rgb)
        ints.append(arr if case["cspace"] == "RGB" else arr[..., ::-1])
    via = case.get("via", "paths") if case["nfiles"] > 1 else "paths"
    as_list = case["nfiles"] > 1  # a folder is read as the sorted list of its files
    rkw = {}
    if case["kw"] == "geometry":
        rkw = dict(dimensions=[h * 0.5, w * 2.0], name="read back")
    elif case["kw"] == "time":
        # documented keywords of imread_from_optical: user-specified physical time(s) and, for a
        # single file, a custom date that replaces the one of the file
        t0 = case.get("t0", 0)
        if as_list:
            rkw = dict(time=[10.0 * t0 + 2.5 * i for i in range(case["nfiles"])])
        else:
            rkw = dict(time=10.0 * t0, date=gens.BASE_DATE + _dt.timedelta(seconds=60 * t0))
    given = copy.deepcopy(rkw)
    if via == "folder":
        folder = _path("written", case["path"])
        back = darsia.imread(folder, **rkw)
        want = np.stack(wants, axis=2)
    elif case["nfiles"] == 1:
        back = darsia.imread(paths[0], **rkw)
        want = wants[0]
    else:
        back = darsia.imread(list(paths), **rkw)
        want = np.stack(wants, axis=2)
    t["via"] = via
    labels += (f"via-{via}", f"readkw-{case['kw']}")
    if not isinstance(back, darsia.OpticalImage):
        raise Violation("write-kind", f"imread returned {type(back).__name__}", t)
    if back.series != as_list or (back.series and back.time_num != case["nfiles"]):
        raise Violation("write-series", f"series={back.series} time_num={back.time_num} reading "
                        f"{case['nfiles']} file(s) via {via}", t)
    d = C._same_array(back.img, want)
    if d:
        if C._same_array(back.img, want[..., ::-1]) == "":
            raise Violation("write-channel-order", "colours come back with R and B swapped", t)
        raise Violation("write-colours", f"colours differ after write -> imread: {d}", t)
    # the same colours, independently of Image.img_as (which both sides above went through): the
    # float image in [0, 1] is the integer original divided by the largest value of its type
    whole = np.stack(ints, axis=2) if as_list else ints[0]
    if back.img.dtype.kind != "f" or back.img.shape != whole.shape or \
            not np.array_equal(np.rint(back.img.astype(np.float64) * (top - 1)), whole.astype(np.float64)):
        raise Violation("write-colours-integer", f"read image (dtype {back.img.dtype}) times {top - 1} is not "
                        "the integer image that was written", t)
    # ... to double precision (conversion = one multiplication by the reciprocal: <= 2 roundings)
    err = float(np.max(np.abs(back.img.astype(np.float64) - whole.astype(np.float64) / (top - 1)))) if whole.size else 0.0
    if err > 4 * np.finfo(np.float64).eps:
        raise Violation("write-colours-precision", f"read colours differ from integer / {top - 1} by {err:.3g}", t)
    if back.color_space != "RGB":
        raise Violation("write-colour-space", f"read image claims colour space {back.color_space}", t)
    for k, v in given.items():
        got = getattr(back, k)
        if (list(got) if k == "dimensions" else got) != v:
            raise Violation("write-kwargs", f"imread keyword {k}={v!r} -> {got!r}", t)
    return Outcome(case["dtype"] == "uint16" or case["cspace"] != "RGB" or case["nfiles"] > 1, None, labels,
                   evals=case["nfiles"])


# ---------------------------------------------------------------------------------------------
# 4. corrections
# ---------------------------------------------------------------------------------------------

RELOAD_KINDS = ["type", "type", "type", "curvature", "curvature", "curvature", "drift_off", "drift_off", "drift_on", "drift_on",
                "illumination", "illumination", "color", "color"]


RESIZE_FACTORS = [1.0, 1.0, 0.5, 0.5, 2.0, 0.25]


def _pick(mix, salt, options):
    """Choice derived from an integer drawn at the start of the case: Hypothesis' generation phase
    re-uses spans of earlier examples, which makes sampled_from draws deep inside a long case clump
    within one run (measured: 0-2 of 600 cases with a float64 target or a roi given as slices)."""
    return options[zlib.crc32(f"{mix}:{salt}".encode()) % len(options)]


TYPE_TARGETS = sorted(C.NPT)
DRIFT_ROIS = ["none", "none", "slices", "slices", "points", "points"]


def gen_corr(tier):
    @st.composite
    def strat(draw):
        mix = draw(st.integers(0, 2**30))
        kind = draw(st.sampled_from(RELOAD_KINDS))
        spec = draw(C._spec(kind, "any"))
        if kind == "drift_on" and spec["dtype"] == "bool":
            spec["dtype"] = "float32"  # cv2 refuses bool arrays: nothing to reload (c10 covers the refusal)
        cp = draw(C._corr(kind, spec))
        # every drawn value enters: distinct cases get (nearly) independent derived choices
        mix = zlib.crc32(json.dumps([mix, spec, cp], sort_keys=True).encode())
        if kind == "type":
            cp["to"] = _pick(mix, "to", TYPE_TARGETS)
        if kind == "drift_on":
            h, w = spec["shape"]
            cp["roi"] = _pick(mix, "roi", DRIFT_ROIS)
            if cp["roi"] != "none":
                six = list(range(7))
                cp["r"] = [_pick(mix, "r0", six), h - _pick(mix, "r1", six)]
                cp["c"] = [_pick(mix, "c0", six), w - _pick(mix, "c1", six)]
                cp["padding"] = _pick(mix, "pad", [0.0, 0.02, 0.02])
            # constructor form of the baseline: array or darsia.Image (both documented)
            cp["base_as"] = _pick(mix, "base", ["array", "array", "Image", "OpticalImage"])
        if kind == "curvature":
            # the interpolation order is a constructor keyword of its own class of cases
            cp["order"] = _pick(mix, "order", [1, 1, 1, 0, 0, 3])
            if not cp["config"]:
                cp["config"] = {"bulge": {"horizontal_bulge": 5e-3, "horizontal_center_offset": 0,
                                          "vertical_bulge": 0.0, "vertical_center_offset": 1}}
            # constructor keyword resize_factor: the config describes the full-size image, the
            # correction is set up for images resized by that factor (dyadic factors: exact scaling)
            cp["resize"] = _pick(mix, "resize", RESIZE_FACTORS)
            if cp["resize"] != 1.0 and "crop" in cp["config"]:
                # corner points of the full-size image, so that the adapted ones lie in the input
                cp["config"]["crop"]["pts_src"] = [[c / cp["resize"] for c in pt]
                                                   for pt in cp["config"]["crop"]["pts_src"]]
        if kind == "drift_off":
            cp["with_base"] = draw(st.sampled_from([True, True, True, False]))
        if kind == "color":
            cp["active"] = draw(st.sampled_from([True, True, True, False]))
        return {"inp": spec, "corr": cp, "used_before_save": draw(st.booleans()),
                "overwrite": draw(st.booleans())}

    return strat()


def _build_corr(cp, spec):
    """c10.build_corr plus the constructor keywords that only matter for persistence."""
    if cp["kind"] == "curvature" and cp.get("resize", 1.0) != 1.0:
        return darsia.CurvatureCorrection(config=copy.deepcopy(cp["config"]),
                                          interpolation_order=cp.get("order", 1),
                                          resize_factor=cp["resize"])
    if cp["kind"] == "drift_on" and cp.get("base_as", "array") != "array":
        ref = C.build_corr(cp, spec)  # c10's construction from an array: source of base and config
        cfg = {}
        if cp["roi"] == "slices":
            cfg["roi"] = (slice(*cp["r"]), slice(*cp["c"]))
        elif cp["roi"] == "points":
            cfg["roi"] = [[cp["r"][0], cp["c"][0]], [cp["r"][1], cp["c"][1]]]
            cfg["padding"] = cp["padding"]
        h, w = spec["shape"]
        kw = dict(dimensions=[float(h), float(w)], scalar=False)
        if cp["base_as"] == "OpticalImage":
            base = darsia.OpticalImage(ref.base.copy(), color_space="RGB", dimensions=[float(h), float(w)])
        else:
            base = darsia.Image(ref.base.copy(), **kw)
        return darsia.DriftCorrection(base, cfg)
    return C.build_corr(cp, spec)


def _all_dtypes(kind):
    """Kinds that accept every supported dtype (c10.REQ): their cases probe the reloaded correction
    with inputs of all of them - it must be the same function on the whole input space, and integer
    inputs round away small differences that float inputs (dyadic payload, exact comparison) show."""
    return set(C.REQ[kind]["dtypes"]) == set(C.ALL5)


def _n_inputs(cp):
    return len(C.ALL5) if _all_dtypes(cp["kind"]) else 3


def _variant(case, i):
    """i-th test input of a case: same geometry, different content; where the correction accepts all
    dtypes the input dtypes cycle through them (input 0 keeps the drawn dtype)."""
    spec = dict(case["inp"])
    cp = dict(case["corr"])
    spec["pseed"] = (spec["pseed"] + 7919 * i) % 2**16
    if _all_dtypes(cp["kind"]):
        spec["dtype"] = C.ALL5[(C.ALL5.index(spec["dtype"]) + i) % len(C.ALL5)]
    if cp["kind"] == "drift_on":
        cp["shift"] = [(cp["shift"][0] + 2 * i) % 6 - 3, (cp["shift"][1] - 3 * i) % 6 - 3]
    return spec, C._payload(spec, cp)


def check_corr(case):
    spec, cp = case["inp"], case["corr"]
    kind = cp["kind"]
    t = {"corr": kind, "cls": spec["cls"], "series": spec["series"], "dtype": spec["dtype"]}
    if kind == "curvature":
        t["order_default"] = cp.get("order", 1) == 1
    if kind == "drift_off":
        t["with_base"] = bool(cp.get("with_base"))
    labels = (f"corr-{kind}", f"cls-{spec['cls']}", "series" if spec["series"] else "single",
              "used" if case["used_before_save"] else "fresh")
    if kind == "curvature":
        rf = cp.get("resize", 1.0)
        t["resize_default"] = rf == 1.0
        labels += (f"order-{cp.get('order', 1)}", f"resize-{rf}")
        if rf != 1.0 and not case["used_before_save"] and not C._is_neutral(cp):
            labels += ("curvature-resized-fresh",)
    if kind == "type":
        labels += (f"to-{cp['to']}",)
    if _all_dtypes(kind):
        labels += ("inputs-all-dtypes",)
    if kind == "drift_on":
        labels += (f"roi-{cp['roi']}", f"base-{cp.get('base_as', 'array')}")
    bool_possible = spec["dtype"] == "bool"
    n_inputs = _n_inputs(cp)
    try:
        with C._guard([kind], bool_possible):
            orig = _build_corr(cp, spec)
            # a twin with the same construction and the same history that is never saved: saving is
            # an observation, the saved object has to keep behaving like the one that was not saved
            twin = _build_corr(cp, spec)
            if case["used_before_save"]:
                s0, a0 = _variant(case, 5)
                C._apply(orig, C._mk_input(s0, a0), False)
                C._apply(twin, C._mk_input(s0, a0), False)
            path = _path(f"{kind}.npz", "Path")
            orig.save(path)
            loaded = darsia.read_correction(path)
            if kind == "color":
                C.reseed_kmeans(loaded)  # as for the original, see c10.reseed_kmeans
            if type(loaded) is not type(orig):
                raise Violation(f"reload-class:{kind}", f"{type(orig).__name__} reloaded as "
                                f"{type(loaded).__name__}", t)
            n_ok = 0
            for i in range(n_inputs):
                si, ai = _variant(case, i)
                want = C._apply(orig, C._mk_input(si, ai), case["overwrite"])
                if i == 0 or kind not in ("color", "drift_on"):
                    ref = C._apply(twin, C._mk_input(si, ai), case["overwrite"])
                    d = "" if type(ref) is type(want) else f"{type(ref).__name__} vs {type(want).__name__}"
                    d = d or C._same_array(C._arr(want), C._arr(ref))
                    if not d and not isinstance(ref, np.ndarray):
                        d = C._meta_diff(C._norm_meta(want.metadata()), C._norm_meta(ref.metadata()))
                    if d:
                        raise Violation(f"save-changes-correction:{kind}", f"input {i} ({si['dtype']}): the "
                                        f"correction after save() vs an identical one never saved: {d}", t)
                got = C._apply(loaded, C._mk_input(si, ai), case["overwrite"])
                if type(got) is not type(want):
                    raise Violation(f"reload-kind:{kind}", f"{type(want).__name__} vs {type(got).__name__}", t)
                d = C._same_array(C._arr(got), C._arr(want))
                if d:
                    k = kind
                    if kind == "curvature":
                        # non-default constructor keywords of the case: root causes of their own
                        kws = (["interpolation-order"] if cp.get("order", 1) != 1 else []) + \
                              (["resize-factor"] if cp.get("resize", 1.0) != 1.0 else [])
                        if kws:
                            k = "curvature:" + "+".join(kws)
                    what = f"input {i} ({si['dtype']})"
                    if kind == "type":
                        what = f"input {i} ({si['dtype']} -> {cp['to']})"
                    raise Violation(f"reload-output:{k}", f"{what}: reloaded correction vs original: {d}", t)
                if not isinstance(got, np.ndarray):
                    d = C._meta_diff(C._norm_meta(got.metadata()), C._norm_meta(want.metadata()))
                    if d:
                        raise Violation(f"reload-metadata:{kind}", f"input {i}: {d}", t)
                n_ok += 1
            # a second generation behaves the same
            path2 = _path(f"{kind}-2.npz", "Path")
            loaded.save(path2)
            again = darsia.read_correction(path2)
            if kind == "color":
                C.reseed_kmeans(again)
            si, ai = _variant(case, 0)
            d = C._same_array(C._arr(C._apply(again, C._mk_input(si, ai), False)),
                              C._arr(C._apply(orig, C._mk_input(si, ai), False)))
            if d:
                raise Violation(f"reload-second-generation:{kind}", d, t)
    except C._Rejected:
        return Outcome(False, None, labels + ("rejected",), status="rejected")
    except Violation:
        raise
    except Exception as e:  # noqa - re-raised: the runner buckets it as a crash, the tags name the class
        e.vf_tags = t
        raise
    nontrivial = not C._is_neutral(cp)
    return Outcome(nontrivial, None, labels, evals=n_ok + 1)


# ---------------------------------------------------------------------------------------------

_RULE = ("npz: Hypothesis draws images over the full metadata space (space_dim 1-3, scalar / vector, "
         "single / series, 5 dtypes incl. NaN/inf/-0.0 payloads, date / time / both / neither, custom "
         "reference date, names, origins, Image / ScalarImage / OpticalImage), saved fresh from the "
         "constructor or after 1-3 public operations (astype, copy, time_slice, time_interval, subregion, "
         "append, set_time, update / reset of the reference time, update_metadata, reset_origin, array "
         "replaced by a Fortran-ordered / strided one), the saved state then being read attribute by "
         "attribute; bytes: PNG / TIFF, 8 / 16 bit, grey / (H,W,1) / RGB / RGBA, encoded by cv2 or by an "
         "independent encoder (Pillow, tifffile) from the RGB array, with and without the transformations "
         "keyword; write: uint8 / uint16 OpticalImages in RGB / BGR, png / tif, read back from a path, a "
         "list of paths or the folder, with geometry or time / date keywords, compared with img_as(float) "
         "of the original and with integer / max of the integer array; corrections: type (targets spread "
         "evenly), curvature, drift (active with roi none / slices / points and baseline as array / Image / "
         "OpticalImage, inactive), illumination, colour with random configurations (curvature: "
         "interpolation order and resize_factor keywords, saved before / after first use), >= 3 inputs "
         "each (type, curvature, inactive drift: inputs of all 5 dtypes), reloaded vs saved original and "
         "saved original vs an identical twin that is never saved; non-trivial = series or 3-D or dated or "
         "derived image / 16 bit or colour / 16 bit, BGR or list / non-neutral configuration")

_SH = {"quick": 4, "thorough": 16}

PROP = Prop(
    pid="C18",
    rule=_RULE,
    assumptions=[
        "file names end in .npz (documented); corrections are saved to pathlib.Path objects (annotated)",
        "imread_from_npz builds a plain darsia.Image: class identity and color_space are not demanded, "
        "all generic metadata entries, attributes and the coordinate system are",
        "ImageMagick identify is absent: dates of written optical images are not compared",
        "4-channel byte strings and float OpticalImage.write raise NotImplementedError -> rejected; if a "
        "version accepts them nothing is claimed (skipped)",
        "reading a folder: only folders with >= 2 image files (a list of files is documented to give a "
        "space-time image)",
        "the twin of a correction gets the same construction and the same history; for the colour "
        "correction and the active drift correction it is compared on the first input only (cost)",
        "k-means inside the colour correction: the instance's correct_array is wrapped to call "
        "cv2.setRNGSeed(0) first (original and reloaded object alike)",
    ],
    subs=[
        Sub("npz_roundtrip", _wrap(check_npz), gen=gen_npz, n={"quick": 2400, "thorough": 120000}, shards=_SH),
        Sub("bytes_decode", _wrap(check_bytes), gen=gen_bytes, n={"quick": 2000, "thorough": 80000}, shards=_SH),
        Sub("optical_write_read", _wrap(check_write), gen=gen_write, n={"quick": 1600, "thorough": 80000},
            shards=_SH),
        Sub("correction_reload", _wrap(check_corr), gen=gen_corr, n={"quick": 600, "thorough": 30000},
            shards={"quick": 6, "thorough": 16}),
    ],
)
