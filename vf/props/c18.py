"""C18 - saved images and corrections reload to equivalent objects.

Round trips: Image.save -> imread (npz), cv2-encoded byte strings -> imread_from_bytes,
OpticalImage.write -> imread (lossless formats), correction.save -> read_correction.
Scratch files live under /verif/.cache/run-<pid>/c18 and are removed at the end of every case.
"""
import copy
import datetime as _dt
import os
import shutil
from pathlib import Path

import cv2
import numpy as np
from hypothesis import strategies as st

import darsia
from vf import env, gens
from vf.props import c10 as C
from vf.runner import Outcome, Prop, Sub, Violation

# ---------------------------------------------------------------------------------------------
# scratch
# ---------------------------------------------------------------------------------------------


def _scratch():
    d = os.path.join(env.VERIF, ".cache", f"run-{os.getpid()}", "c18")
    os.makedirs(d, exist_ok=True)
    return d


def _cleanup():
    shutil.rmtree(os.path.join(env.VERIF, ".cache", f"run-{os.getpid()}"), ignore_errors=True)


def _wrap(fn):
    def check(case):
        try:
            return fn(case)
        finally:
            _cleanup()

    check.__name__ = fn.__name__
    return check


def _path(name, kind="Path"):
    p = os.path.join(_scratch(), name)
    return Path(p) if kind == "Path" else p


# ---------------------------------------------------------------------------------------------
# 1. npz round trip
# ---------------------------------------------------------------------------------------------


def gen_npz(tier):
    @st.composite
    def strat(draw):
        spec = draw(gens.image_specs(
            dims=(1, 2, 3), max_extent={1: 20, 2: 7, 3: 4},
            dtypes=("float64", "float32", "uint8", "uint16", "bool"), max_nt=3, max_comp=3))
        cand = ["Image", "Image"]
        if spec["payload"] == "scalar":
            cand.append("ScalarImage")
        if spec["dim"] == 2 and spec["payload"] == "vector":
            spec["ncomp"] = draw(st.sampled_from([3, 3, spec["ncomp"]]))
            if spec["ncomp"] == 3:
                cand += ["OpticalImage", "OpticalImage"]
        spec["cls"] = draw(st.sampled_from(cand))
        spec["cspace"] = draw(st.sampled_from(["RGB", "BGR", "HSV"]))
        return {
            "img": spec,
            "refdate": draw(st.sampled_from([None, None, -90, 45])),  # seconds relative to BASE_DATE
            "special": draw(st.sampled_from([False, False, True])),
            "path": draw(st.sampled_from(["Path", "str"])),
            "subdir": draw(st.booleans()),
            "fname": draw(st.sampled_from(["a.npz", "with space.npz", "b.c.npz"])),
        }

    return strat()


def _build_npz_image(case):
    spec = case["img"]
    arr = gens.payload_array(gens.full_shape(spec), spec["dtype"], spec["pseed"], dyadic=True)
    if case["special"] and arr.dtype.kind == "f" and arr.size:
        flat = arr.reshape(-1)
        vals = [np.nan, np.inf, -np.inf, -0.0, np.finfo(arr.dtype).max, np.finfo(arr.dtype).tiny]
        for i, v in enumerate(vals):
            flat[(7 * i) % flat.size] = v
    kw = gens.image_kwargs(spec)
    if case["refdate"] is not None and spec["time"] in ("date", "both"):
        kw["reference_date"] = gens.BASE_DATE + _dt.timedelta(seconds=case["refdate"])
    if spec["cls"] == "OpticalImage":
        kw["color_space"] = spec["cspace"]
    cls = getattr(darsia, spec["cls"])
    if cls is darsia.ScalarImage:
        kw.pop("scalar", None)
    return cls(arr, **kw), arr.copy()


def _expected_attrs(case):
    """Attributes of the image as the constructor keywords define them (independent of
    Image.metadata(), which both the writer and a metadata comparison would go through)."""
    from vf.oracles import default_origin

    spec = case["img"]
    kw = gens.image_kwargs(spec)
    n = spec["nt"] if spec["series"] else 1
    date = kw.get("date", [None] * n if spec["series"] else None)
    first = date[0] if isinstance(date, list) else date
    ref = first
    if case["refdate"] is not None and spec["time"] in ("date", "both"):
        ref = gens.BASE_DATE + _dt.timedelta(seconds=case["refdate"])
    if "time" in kw:
        time = kw["time"]
    elif first is None:
        time = [None] * n if spec["series"] else None
    elif spec["series"]:
        time = [(d - ref).total_seconds() for d in date]
    else:
        time = (date - ref).total_seconds()
    origin = spec["origin"] if spec["origin"] is not None else default_origin(spec["dim"], spec["dimensions"])
    return {"space_dim": spec["dim"], "dimensions": [float(d) for d in spec["dimensions"]],
            "origin": [float(o) for o in origin], "series": spec["series"],
            "scalar": spec["payload"] == "scalar", "date": date, "reference_date": ref, "time": time,
            "name": spec.get("name"), "indexing": "ijk"[: spec["dim"]]}


def _attr_diff(img, want):
    for k, v in want.items():
        got = getattr(img, k)
        if k in ("dimensions", "origin"):
            same = np.array_equal(np.asarray(got, dtype=float), np.asarray(v, dtype=float))
        else:
            same = got == v and isinstance(got, list) == isinstance(v, list)
        if not same:
            return f"{k}: {got!r}, constructed with {v!r}"
    return ""


def _cs_view(img):
    cs = img.coordinatesystem
    probe = np.array([[0] * cs.dim, list(cs.shape), [1] * cs.dim, [-2] * cs.dim])
    return {
        "dim": cs.dim, "shape": list(cs.shape), "dimensions": [float(d) for d in cs.dimensions],
        "indexing": cs.indexing, "axes": cs.axes,
        "voxel_size": {k: float(v) for k, v in cs.voxel_size.items()},
        "origin": np.asarray(cs._coordinate_of_origin_voxel, dtype=float).tolist(),
        "opposite": np.asarray(cs._coordinate_of_opposite_voxel, dtype=float).tolist(),
        "domain": {k: float(v) for k, v in cs.domain.items()},
        "probe": np.asarray(cs.coordinate(probe), dtype=float).tolist(),
    }


def _bytes_equal(a, b):
    return a.dtype == b.dtype and a.shape == b.shape and a.tobytes() == b.tobytes()


def _npz_tags(case):
    s = case["img"]
    return {"dim": s["dim"], "series": s["series"], "payload": s["payload"], "dtype": s["dtype"],
            "time": s["time"], "cls": s["cls"]}


def _compare_loaded(orig, arr, meta_before, cs_before, want_attrs, loaded, what, t):
    if not isinstance(loaded, darsia.Image):
        raise Violation("npz-type", f"{what}: imread returned {type(loaded).__name__}", t)
    if not _bytes_equal(np.ascontiguousarray(loaded.img), np.ascontiguousarray(arr)):
        d = C._same_array(loaded.img, arr)
        raise Violation("npz-array", f"{what}: array differs ({d or 'byte pattern, e.g. sign of zero'})", t)
    d = C._meta_diff(C._norm_meta(loaded.metadata()), meta_before)
    if d:
        raise Violation("npz-metadata", f"{what}: metadata {d}", t)
    for attr in ("series", "scalar", "space_dim", "time_num", "name"):
        if getattr(loaded, attr) != getattr(orig, attr):
            raise Violation("npz-attribute", f"{what}: {attr} {getattr(orig, attr)!r} -> "
                            f"{getattr(loaded, attr)!r}", t)
    d = _attr_diff(loaded, want_attrs)
    if d:
        raise Violation("npz-attribute", f"{what}: {d}", t)
    cs_after = _cs_view(loaded)
    if cs_after != cs_before:
        bad = [k for k in cs_before if cs_before[k] != cs_after[k]]
        raise Violation("npz-coordinatesystem", f"{what}: coordinate system differs in {bad}", t)


def check_npz(case):
    spec = case["img"]
    t = _npz_tags(case)
    img, arr = _build_npz_image(case)
    meta_before = C._norm_meta(img.metadata())
    # entries of the generic metadata only: imread_from_npz builds a plain darsia.Image
    generic = {k: v for k, v in meta_before.items() if k != "color_space"}
    cs_before = _cs_view(img)
    sub = "sub dir" if case["subdir"] else ""
    p1 = _path(os.path.join(sub, case["fname"]), case["path"])
    img.save(p1, verbose=False)
    if not os.path.exists(str(p1)):
        raise Violation("npz-file", f"save({str(p1)!r}) did not create that file", t)
    # saving must not change the image
    if not _bytes_equal(img.img, arr) or C._norm_meta(img.metadata()) != meta_before:
        raise Violation("npz-save-mutates", "save() changed the image", t)
    loaded = darsia.imread(p1)
    want_attrs = _expected_attrs(case)
    d = _attr_diff(img, want_attrs)
    if d:  # the reference model must describe the image that was built
        from vf.runner import HarnessError

        raise HarnessError(f"C18 attribute model disagrees with the constructed image: {d}")
    _compare_loaded(img, arr, generic, cs_before, want_attrs, loaded, "save -> imread", t)
    # second generation
    p2 = _path("second.npz", "Path")
    loaded.save(p2, verbose=False)
    again = darsia.imread(str(p2))
    _compare_loaded(img, arr, generic, cs_before, want_attrs, again, "save -> imread -> save -> imread", t)
    with np.load(str(p1), allow_pickle=True) as f1, np.load(str(p2), allow_pickle=True) as f2:
        if not _bytes_equal(f1["array"], f2["array"]):
            raise Violation("npz-resave", "re-saved file holds a different array", t)
    nontrivial = spec["series"] or spec["dim"] == 3 or spec["time"] != "none"
    labels = (f"dim{spec['dim']}", "series" if spec["series"] else "single", f"payload-{spec['payload']}",
              f"dtype-{spec['dtype']}", f"time-{spec['time']}", f"cls-{spec['cls']}",
              "origin-user" if spec["origin"] is not None else "origin-default",
              "refdate" if (case["refdate"] is not None and spec["time"] in ("date", "both")) else "refdate-default")
    return Outcome(bool(nontrivial), None, labels, evals=2)


# ---------------------------------------------------------------------------------------------
# 2. byte strings
# ---------------------------------------------------------------------------------------------


def gen_bytes(tier):
    @st.composite
    def strat(draw):
        layout = draw(st.sampled_from(["grey", "grey", "single", "rgb", "rgb", "rgb", "rgba"]))
        kw = draw(st.sampled_from(["none", "geometry", "time", "all"]))
        return {
            "fmt": draw(st.sampled_from([".png", ".tif", ".tiff"])),
            "depth": draw(st.sampled_from([8, 16])),
            "layout": layout,
            "shape": [draw(st.integers(1, 12)), draw(st.integers(1, 12))],
            "pseed": draw(st.integers(0, 2**16)),
            "pattern": draw(st.sampled_from(["random", "random", "channel-ramp"])),
            "kw": kw,
            "t0": draw(st.integers(0, 5)),
        }

    return strat()


def _bytes_kwargs(case):
    h, w = case["shape"]
    kw = {}
    if case["kw"] in ("geometry", "all"):
        kw.update(dimensions=[h * 0.5, w * 0.25], origin=[1.5, -2.0], name="from bytes")
    if case["kw"] in ("time", "all"):
        kw.update(date=gens.BASE_DATE + _dt.timedelta(seconds=60 * case["t0"]), time=10.0 * case["t0"])
    return kw


def check_bytes(case):
    h, w = case["shape"]
    nch = {"grey": 0, "single": 1, "rgb": 3, "rgba": 4}[case["layout"]]
    dtype = np.uint8 if case["depth"] == 8 else np.uint16
    rng = np.random.default_rng(case["pseed"])
    shape = (h, w) if nch == 0 else (h, w, nch)
    top = 256 if case["depth"] == 8 else 65536
    arr = rng.integers(0, top, size=shape).astype(dtype)
    if case["pattern"] == "channel-ramp" and nch >= 3:
        # R < G < B everywhere: any channel permutation is visible in every pixel
        arr[..., 0] = arr[..., 0] // 4
        arr[..., 1] = top // 4 + arr[..., 1] // 4
        arr[..., 2] = top // 2 + arr[..., 2] // 4
    t = {"fmt": case["fmt"], "depth": case["depth"], "layout": case["layout"]}
    # the file holds BGR(A) order, as every cv2-written image does
    if nch == 3:
        to_encode = np.ascontiguousarray(arr[..., ::-1])
    elif nch == 4:
        to_encode = np.ascontiguousarray(arr[..., [2, 1, 0, 3]])
    else:
        to_encode = arr
    ok, buf = cv2.imencode(case["fmt"], to_encode)
    if not ok:
        return Outcome(False, None, ("encode-failed",), status="skipped")
    data = buf.tobytes()
    kw = _bytes_kwargs(case)
    if nch == 3:
        kw["color_space"] = "RGB"
    labels = (case["fmt"], f"{case['depth']}bit", case["layout"], f"kw-{case['kw']}")
    try:
        img = darsia.imread_from_bytes(data, **{k: (list(v) if isinstance(v, list) else v) for k, v in kw.items()})
    except NotImplementedError:
        if nch == 4:  # documented: only grey, single-channel and 3-channel images
            return Outcome(False, None, labels + ("rejected",), status="rejected")
        raise
    if nch == 4:
        raise Violation("bytes-rgba-accepted", f"4-channel image decoded to {type(img).__name__}", t)
    want_cls = darsia.OpticalImage if nch == 3 else darsia.ScalarImage
    if type(img) is not want_cls:
        raise Violation("bytes-kind", f"{case['layout']} -> {type(img).__name__}", t)
    want = arr if nch != 1 else arr[..., 0]
    d = C._same_array(img.img, want)
    if d:
        if nch == 3 and C._same_array(img.img, want[..., ::-1]) == "":
            raise Violation("bytes-channel-order", "channels come back in BGR order", t)
        raise Violation("bytes-array", f"decoded array differs: {d}", t)
    if img.series or img.space_dim != 2 or img.scalar != (nch != 3):
        raise Violation("bytes-metadata", f"series={img.series} space_dim={img.space_dim} scalar={img.scalar}", t)
    for k, v in kw.items():
        got = getattr(img, k)
        same = np.array_equal(np.asarray(got, dtype=float), np.asarray(v, dtype=float)) \
            if k in ("dimensions", "origin") else got == v
        if not same:
            raise Violation("bytes-kwargs", f"keyword {k}={v!r} -> attribute {got!r}", t)
    return Outcome(case["depth"] == 16 or nch == 3, None, labels)


# ---------------------------------------------------------------------------------------------
# 3. OpticalImage.write -> imread
# ---------------------------------------------------------------------------------------------


def gen_write(tier):
    @st.composite
    def strat(draw):
        return {
            "shape": [draw(st.integers(1, 14)), draw(st.integers(1, 14))],
            "dtype": draw(st.sampled_from(["uint8", "uint8", "uint8", "uint16", "uint16", "uint16", "float64"])),
            "suffix": draw(st.sampled_from([".png", ".tif", ".tiff", ".PNG", ".TIF"])),
            "cspace": draw(st.sampled_from(["RGB", "RGB", "BGR"])),
            "via_float": draw(st.booleans()),
            "nfiles": draw(st.sampled_from([1, 1, 1, 2, 3])),
            "pseed": draw(st.integers(0, 2**16)),
            "pattern": draw(st.sampled_from(["random", "channel-ramp"])),
            "kw": draw(st.sampled_from(["none", "geometry"])),
            "compression": draw(st.sampled_from([None, 0, 9])),
            "path": draw(st.sampled_from(["Path", "str"])),
        }

    return strat()


def check_write(case):
    h, w = case["shape"]
    t = {"dtype": case["dtype"], "suffix": case["suffix"].lower(), "cspace": case["cspace"],
         "via_float": case["via_float"], "nfiles": case["nfiles"]}
    labels = (case["dtype"], case["suffix"].lower(), case["cspace"],
              "via-float" if case["via_float"] else "direct", f"files-{case['nfiles']}")
    rng = np.random.default_rng(case["pseed"])
    top = {"uint8": 256, "uint16": 65536, "float64": 2}[case["dtype"]]
    paths, wants = [], []
    for k in range(case["nfiles"]):
        if case["dtype"] == "float64":
            arr = rng.random((h, w, 3))
        else:
            arr = rng.integers(0, top, size=(h, w, 3)).astype(case["dtype"])
            if case["pattern"] == "channel-ramp":
                arr[..., 0] = arr[..., 0] // 4
                arr[..., 1] = top // 4 + arr[..., 1] // 4
                arr[..., 2] = top // 2 + arr[..., 2] // 4
        img = darsia.OpticalImage(arr.copy(), color_space=case["cspace"], dimensions=[float(h), float(w)])
        as_float = img.img_as(float)
        src = as_float if case["via_float"] else img
        before = src.img.copy()
        p = _path(f"w{k}{case['suffix']}", case["path"])
        kw = {} if case["compression"] is None else {"compression": case["compression"]}
        try:
            src.write(p, **kw)
        except NotImplementedError:
            if case["dtype"] == "float64":  # documented: 8 and 16 bit originals only
                return Outcome(False, None, labels + ("rejected",), status="rejected")
            raise
        if case["dtype"] == "float64":
            raise Violation("write-float-accepted", "float image written without NotImplementedError", t)
        if not np.array_equal(src.img, before) or src.color_space != case["cspace"]:
            raise Violation("write-mutates", "write() changed the image", t)
        rgb = as_float.img if case["cspace"] == "RGB" else as_float.img[..., ::-1]
        paths.append(p)
        wants.append(rgb)
    rkw = {}
    if case["kw"] == "geometry":
        rkw = dict(dimensions=[h * 0.5, w * 2.0], name="read back")
    if case["nfiles"] == 1:
        back = darsia.imread(paths[0], **rkw)
        want = wants[0]
    else:
        back = darsia.imread(list(paths), **rkw)
        want = np.stack(wants, axis=2)
    if not isinstance(back, darsia.OpticalImage):
        raise Violation("write-kind", f"imread returned {type(back).__name__}", t)
    if back.series != (case["nfiles"] > 1) or (back.series and back.time_num != case["nfiles"]):
        raise Violation("write-series", f"series={back.series} time_num={back.time_num}", t)
    d = C._same_array(back.img, want)
    if d:
        if C._same_array(back.img, want[..., ::-1]) == "":
            raise Violation("write-channel-order", "colours come back with R and B swapped", t)
        raise Violation("write-colours", f"colours differ after write -> imread: {d}", t)
    if back.color_space != "RGB":
        raise Violation("write-colour-space", f"read image claims colour space {back.color_space}", t)
    for k, v in rkw.items():
        got = getattr(back, k)
        if (list(got) if k == "dimensions" else got) != v:
            raise Violation("write-kwargs", f"imread keyword {k}={v!r} -> {got!r}", t)
    return Outcome(case["dtype"] == "uint16" or case["cspace"] != "RGB" or case["nfiles"] > 1, None, labels,
                   evals=case["nfiles"])


# ---------------------------------------------------------------------------------------------
# 4. corrections
# ---------------------------------------------------------------------------------------------

RELOAD_KINDS = ["type", "type", "type", "curvature", "curvature", "curvature", "drift_off", "drift_off", "drift_on", "drift_on",
                "illumination", "illumination", "color", "color"]


RESIZE_FACTORS = [1.0, 1.0, 0.5, 0.5, 2.0, 0.25]


def gen_corr(tier):
    @st.composite
    def strat(draw):
        kind = draw(st.sampled_from(RELOAD_KINDS))
        spec = draw(C._spec(kind, "any"))
        cp = draw(C._corr(kind, spec))
        if kind == "curvature":
            # the interpolation order is a constructor keyword of its own class of cases
            cp["order"] = draw(st.sampled_from([1, 1, 1, 0, 0, 3]))
            if not cp["config"]:
                cp["config"] = {"bulge": {"horizontal_bulge": 5e-3, "horizontal_center_offset": 0,
                                          "vertical_bulge": 0.0, "vertical_center_offset": 1}}
            # constructor keyword resize_factor: the config describes the full-size image, the
            # correction is set up for images resized by that factor (dyadic factors: exact scaling)
            cp["resize"] = draw(st.sampled_from(RESIZE_FACTORS))
            if cp["resize"] != 1.0 and "crop" in cp["config"]:
                # corner points of the full-size image, so that the adapted ones lie in the input
                cp["config"]["crop"]["pts_src"] = [[c / cp["resize"] for c in pt]
                                                   for pt in cp["config"]["crop"]["pts_src"]]
        if kind == "drift_off":
            cp["with_base"] = draw(st.sampled_from([True, True, True, False]))
        if kind == "color":
            cp["active"] = draw(st.sampled_from([True, True, True, False]))
        return {"inp": spec, "corr": cp, "used_before_save": draw(st.booleans()),
                "overwrite": draw(st.booleans())}

    return strat()


def _build_corr(cp, spec):
    """c10.build_corr plus the constructor keywords that only matter for persistence."""
    if cp["kind"] == "curvature" and cp.get("resize", 1.0) != 1.0:
        return darsia.CurvatureCorrection(config=copy.deepcopy(cp["config"]),
                                          interpolation_order=cp.get("order", 1),
                                          resize_factor=cp["resize"])
    return C.build_corr(cp, spec)


def _all_dtypes(kind):
    """Kinds that accept every supported dtype (c10.REQ): their cases probe the reloaded correction
    with inputs of all of them - it must be the same function on the whole input space, and integer
    inputs round away small differences that float inputs (dyadic payload, exact comparison) show."""
    return set(C.REQ[kind]["dtypes"]) == set(C.ALL5)


def _n_inputs(cp):
    return len(C.ALL5) if _all_dtypes(cp["kind"]) else 3


def _variant(case, i):
    """i-th test input of a case: same geometry, different content; where the correction accepts all
    dtypes the input dtypes cycle through them (input 0 keeps the drawn dtype)."""
    spec = dict(case["inp"])
    cp = dict(case["corr"])
    spec["pseed"] = (spec["pseed"] + 7919 * i) % 2**16
    if _all_dtypes(cp["kind"]):
        spec["dtype"] = C.ALL5[(C.ALL5.index(spec["dtype"]) + i) % len(C.ALL5)]
    if cp["kind"] == "drift_on":
        cp["shift"] = [(cp["shift"][0] + 2 * i) % 6 - 3, (cp["shift"][1] - 3 * i) % 6 - 3]
    return spec, C._payload(spec, cp)


def check_corr(case):
    spec, cp = case["inp"], case["corr"]
    kind = cp["kind"]
    t = {"corr": kind, "cls": spec["cls"], "series": spec["series"], "dtype": spec["dtype"]}
    if kind == "curvature":
        t["order_default"] = cp.get("order", 1) == 1
    if kind == "drift_off":
        t["with_base"] = bool(cp.get("with_base"))
    labels = (f"corr-{kind}", f"cls-{spec['cls']}", "series" if spec["series"] else "single",
              "used" if case["used_before_save"] else "fresh")
    if kind == "curvature":
        rf = cp.get("resize", 1.0)
        t["resize_default"] = rf == 1.0
        labels += (f"order-{cp.get('order', 1)}", f"resize-{rf}")
        if rf != 1.0 and not case["used_before_save"] and not C._is_neutral(cp):
            labels += ("curvature-resized-fresh",)
    if kind == "type":
        labels += (f"to-{cp['to']}",)
    if _all_dtypes(kind):
        labels += ("inputs-all-dtypes",)
    if kind == "drift_on":
        labels += (f"roi-{cp['roi']}",)
    bool_possible = spec["dtype"] == "bool"
    n_inputs = _n_inputs(cp)
    try:
        with C._guard([kind], bool_possible):
            orig = _build_corr(cp, spec)
            if case["used_before_save"]:
                s0, a0 = _variant(case, 5)
                C._apply(orig, C._mk_input(s0, a0), False)
            path = _path(f"{kind}.npz", "Path")
            orig.save(path)
            loaded = darsia.read_correction(path)
            if kind == "color":
                C.reseed_kmeans(loaded)  # as for the original, see c10.reseed_kmeans
            if type(loaded) is not type(orig):
                raise Violation(f"reload-class:{kind}", f"{type(orig).__name__} reloaded as "
                                f"{type(loaded).__name__}", t)
            n_ok = 0
            for i in range(n_inputs):
                si, ai = _variant(case, i)
                want = C._apply(orig, C._mk_input(si, ai), case["overwrite"])
                got = C._apply(loaded, C._mk_input(si, ai), case["overwrite"])
                if type(got) is not type(want):
                    raise Violation(f"reload-kind:{kind}", f"{type(want).__name__} vs {type(got).__name__}", t)
                d = C._same_array(C._arr(got), C._arr(want))
                if d:
                    k = kind
                    if kind == "curvature":
                        # non-default constructor keywords of the case: root causes of their own
                        kws = (["interpolation-order"] if cp.get("order", 1) != 1 else []) + \
                              (["resize-factor"] if cp.get("resize", 1.0) != 1.0 else [])
                        if kws:
                            k = "curvature:" + "+".join(kws)
                    what = f"input {i} ({si['dtype']})"
                    if kind == "type":
                        what = f"input {i} ({si['dtype']} -> {cp['to']})"
                    raise Violation(f"reload-output:{k}", f"{what}: reloaded correction vs original: {d}", t)
                if not isinstance(got, np.ndarray):
                    d = C._meta_diff(C._norm_meta(got.metadata()), C._norm_meta(want.metadata()))
                    if d:
                        raise Violation(f"reload-metadata:{kind}", f"input {i}: {d}", t)
                n_ok += 1
            # a second generation behaves the same
            path2 = _path(f"{kind}-2.npz", "Path")
            loaded.save(path2)
            again = darsia.read_correction(path2)
            if kind == "color":
                C.reseed_kmeans(again)
            si, ai = _variant(case, 0)
            d = C._same_array(C._arr(C._apply(again, C._mk_input(si, ai), False)),
                              C._arr(C._apply(orig, C._mk_input(si, ai), False)))
            if d:
                raise Violation(f"reload-second-generation:{kind}", d, t)
    except C._Rejected:
        return Outcome(False, None, labels + ("rejected",), status="rejected")
    except Violation:
        raise
    except Exception as e:  # noqa - re-raised: the runner buckets it as a crash, the tags name the class
        e.vf_tags = t
        raise
    nontrivial = not C._is_neutral(cp)
    return Outcome(nontrivial, None, labels, evals=n_ok + 1)


# ---------------------------------------------------------------------------------------------

_RULE = ("npz: Hypothesis draws images over the full metadata space (space_dim 1-3, scalar / vector, "
         "single / series, 5 dtypes incl. NaN/inf/-0.0 payloads, date / time / both / neither, custom "
         "reference date, names, origins, Image / ScalarImage / OpticalImage); bytes: PNG / TIFF, 8 / 16 "
         "bit, grey / (H,W,1) / RGB / RGBA; write: uint8 / uint16 OpticalImages in RGB / BGR, png / tif, "
         "single files and lists; corrections: type, curvature, drift (active / inactive), illumination, "
         "colour with random configurations (curvature: interpolation order and resize_factor keywords, "
         "saved before / after first use), >= 3 inputs each (type: inputs of all 5 dtypes); non-trivial = series or 3-D or dated "
         "image / 16 bit or colour / 16 bit, BGR or list / non-neutral configuration")

_SH = {"quick": 4, "thorough": 16}

PROP = Prop(
    pid="C18",
    rule=_RULE,
    assumptions=[
        "file names end in .npz (documented); corrections are saved to pathlib.Path objects (annotated)",
        "imread_from_npz builds a plain darsia.Image: class identity and color_space are not demanded, "
        "all generic metadata entries, attributes and the coordinate system are",
        "ImageMagick identify is absent: dates of written optical images are not compared",
        "4-channel byte strings and float OpticalImage.write raise NotImplementedError -> rejected",
        "k-means inside the colour correction: the instance's correct_array is wrapped to call "
        "cv2.setRNGSeed(0) first (original and reloaded object alike)",
    ],
    subs=[
        Sub("npz_roundtrip", _wrap(check_npz), gen=gen_npz, n={"quick": 2400, "thorough": 120000}, shards=_SH),
        Sub("bytes_decode", _wrap(check_bytes), gen=gen_bytes, n={"quick": 2000, "thorough": 80000}, shards=_SH),
        Sub("optical_write_read", _wrap(check_write), gen=gen_write, n={"quick": 1600, "thorough": 80000},
            shards=_SH),
        Sub("correction_reload", _wrap(check_corr), gen=gen_corr, n={"quick": 600, "thorough": 30000},
            shards=_SH),
    ],
)
