"""C09 - coordinate transformations are invertible and move voxels exactly.

Point level: ``AffineTransformation`` (2-D / 3-D) forward / inverse, rotation part, documented
action, typed I/O.  Image level: ``TransformationCorrection`` / ``CoordinateTransformation``
with maps set *exactly* (never fitted) are compared with a pull-back model written here in
integer arithmetic (destination voxel -> source voxel), independent of the code's inverse,
its point-type conversions and its validity mask.
"""
import math

import numpy as np
from hypothesis import strategies as st

import darsia
from vf import gens
from vf.oracles import AXES
from vf.runner import Outcome, Prop, Sub, Violation

EPS = np.finfo(float).eps

SINGLE = {"coordinate": darsia.Coordinate, "voxel": darsia.Voxel, "center": darsia.VoxelCenter}
ARRAY = {"coordinate": darsia.CoordinateArray, "voxel": darsia.VoxelArray,
         "center": darsia.VoxelCenterArray}
REPS = ("coordinate", "voxel", "center")


# =======================================================================================
# point level
# =======================================================================================


@st.composite
def _angle(draw):
    kind = draw(st.sampled_from(["generic", "generic", "quarter", "tiny"]))
    if kind == "generic":
        return draw(st.floats(-3.1, 3.1).filter(lambda a: abs(a) > 1e-3))
    if kind == "quarter":
        return draw(st.sampled_from([-2, -1, 1, 2, 3])) * math.pi / 2
    return draw(st.sampled_from([-1e-7, 1e-7, 1e-4]))


@st.composite
def affine_params(draw, dims=(2, 3)):
    dim = draw(st.sampled_from(list(dims)))
    tr = [draw(st.one_of(st.floats(-1e3, 1e3), st.integers(-20, 20).map(float))) for _ in range(dim)]
    iso = draw(st.booleans())
    scaling = 1.0 if iso else draw(st.one_of(st.floats(0.1, 10.0), st.sampled_from([0.5, 2.0, 1.0])))
    nang = 1 if dim == 2 else 3
    if dim == 2:
        nnz = draw(st.sampled_from([0, 1, 1, 1]))
    else:
        nnz = draw(st.sampled_from([0, 1, 2, 2, 3, 3]))
    which = draw(st.permutations(list(range(nang))))[:nnz]
    angles = [0.0] * nang
    for a in which:
        angles[a] = draw(_angle())
    return {
        "dim": dim, "translation": tr, "scaling": scaling, "isometry": iso, "angles": angles,
        "setter": draw(st.sampled_from(["params", "vector"])),
    }


def _nnz(p):
    return sum(1 for a in p["angles"] if a != 0.0)


def _angle_class(p):
    n = _nnz(p)
    return "no-angle" if n == 0 else ("single-angle" if n == 1 else "multi-angle")


def _build_T(p):
    """AffineTransformation with the parameters of ``p`` (set exactly, never fitted)."""
    dim = p["dim"]
    T = darsia.AffineTransformation(dim)
    tr = np.array(p["translation"], dtype=float)
    ang = np.array(p["angles"], dtype=float)
    if p.get("setter", "params") == "vector":
        T.isometry = bool(p["isometry"])
        if p["isometry"]:
            vec = np.concatenate([tr, ang])
        else:
            vec = np.concatenate([tr, [p["scaling"]], ang])
        T.set_parameters_as_vector(vec)
    else:
        T.set_parameters(tr, float(p["scaling"]), ang)
    return T


def _ptags(p, **extra):
    t = {"dim": p["dim"], "angles": _angle_class(p)}
    t.update(extra)
    return t


def _plabels(p, *extra):
    return (f"dim{p['dim']}", _angle_class(p), "isometry" if p["isometry"] else "scaled",
            f"setter-{p['setter']}") + tuple(extra)


def _points(dim, n, pseed, scale=1e3):
    rng = np.random.default_rng(pseed)
    x = rng.uniform(-scale, scale, size=(n, dim))
    k = rng.integers(0, 4, size=(n, 1))
    x = np.where(k == 0, np.round(x), x)  # some lattice points
    x[0] = 0.0
    return x


def _std_rotation(dim, angles):
    """Standard (right-handed, counter-clockwise) rotation matrix for one non-zero angle."""
    if dim == 2:
        c, s = math.cos(angles[0]), math.sin(angles[0])
        return np.array([[c, -s], [s, c]])
    nz = [i for i, a in enumerate(angles) if a != 0.0]
    if not nz:
        return np.eye(3)
    assert len(nz) == 1
    ax = nz[0]
    c, s = math.cos(angles[ax]), math.sin(angles[ax])
    i, j = [(1, 2), (2, 0), (0, 1)][ax]
    R = np.eye(3)
    R[i, i], R[i, j], R[j, i], R[j, j] = c, -s, s, c
    return R


# ---- 1. inverse_roundtrip ---------------------------------------------------------------


def gen_roundtrip(tier):
    return st.fixed_dictionaries({
        "p": affine_params(),
        "io": st.sampled_from(["coordinate", "coordinate", "array", "ndarray"]),
        "n": st.integers(1, 6),
        "pseed": st.integers(0, 2**20),
        # integer-typed point sets (lattice points held in an int64 array) are points too
        "ptype": st.sampled_from(["float", "float", "float", "int"]),
    })


def _ndarray_io(fn, x, what, tags):
    """Call a typed entry point of a transformation whose I/O type is the default np.ndarray."""
    try:
        return fn(x)
    except TypeError as e:
        raise Violation("ndarray-io", f"{what} on a transformation whose I/O type is np.ndarray "
                        f"(a documented input type) raised TypeError({e})", tags)


def _unchanged(held, before, what, tags):
    """The caller's point array is an argument, not scratch space."""
    now = np.asarray(held)
    if now.shape != before.shape or now.dtype != before.dtype or not np.array_equal(now, before):
        raise Violation("argument-modified", f"{what} changed the point array handed to it "
                        f"(first row {before[0].tolist() if before.ndim > 1 else before.tolist()} -> "
                        f"{now[0].tolist() if now.ndim > 1 else now.tolist()})", tags)


def check_inverse_roundtrip(case):
    p = case["p"]
    dim = p["dim"]
    T = _build_T(p)
    x = _points(dim, case["n"], case["pseed"])
    ptype = case.get("ptype", "float")
    if ptype == "int":
        x = np.round(x).astype(np.int64)
    s = float(p["scaling"])
    tn = float(np.abs(p["translation"]).sum())
    io = case["io"]
    tags = _ptags(p, io=io)
    if io == "coordinate":
        X = darsia.CoordinateArray(x)
        T.set_dtype(X, X)
        fwd, inv = T, T.inverse
    elif io == "array":
        X = x
        fwd, inv = T.call_array, T.inverse_array
    else:
        X = x
        fwd = lambda a: _ndarray_io(T, a, "T(x)", tags)  # noqa: E731
        inv = lambda a: _ndarray_io(T.inverse, a, "T.inverse(x)", tags)  # noqa: E731
    kind = f"inverse-roundtrip:dim{dim}:{_angle_class(p)}"
    n = 0
    x0 = x.copy()
    for name, f, g in (("T.inverse(T(x))", fwd, inv), ("T(T.inverse(x))", inv, fwd)):
        mid = f(X)
        _unchanged(X, x0, f"the first map of {name}", tags)
        mid0 = np.array(mid, copy=True)
        y = np.asarray(g(mid), dtype=float)
        _unchanged(mid, mid0, f"the second map of {name}", tags)
        if y.shape != x.shape:
            raise Violation("roundtrip-shape", f"{name}: shape {y.shape} for input {x.shape}", tags)
        tol = 1e-9 * (1 + np.abs(x).sum(axis=1, keepdims=True) + tn) * max(s, 1 / s)
        bad = np.abs(y - x) > tol
        n += len(x)
        if bad.any():
            i = int(np.argwhere(bad)[0][0])
            raise Violation(kind, f"{name}: x = {x[i].tolist()} came back as {y[i].tolist()} "
                            f"(translation {p['translation']}, scaling {s}, angles {p['angles']})",
                            tags)
        if io != "array":  # single-point form
            xi = X[0] if io == "ndarray" else darsia.Coordinate(x[0])
            xi0 = np.array(xi, copy=True)
            yi = np.asarray(g(f(xi)), dtype=float)
            _unchanged(xi, xi0, f"{name} (single point)", tags)
            if yi.shape != (dim,) or np.any(np.abs(yi - x[0]) > tol[0]):
                raise Violation(kind, f"{name} (single point): {x[0].tolist()} -> {yi.tolist()}", tags)
    return Outcome(nontrivial=(dim == 3 and _nnz(p) >= 2) or _nnz(p) >= 1 or s != 1.0,
                   key=[p, io, case["pseed"], case["n"], ptype],
                   labels=_plabels(p, f"io-{io}", f"points-{ptype}"), evals=n)


# ---- 1b. the same object re-parameterised ------------------------------------------------


def gen_reparam(tier):
    @st.composite
    def strat(draw):
        dim = draw(st.sampled_from([2, 3]))
        n = draw(st.integers(2, 4))
        ps = [draw(affine_params(dims=(dim,))) for _ in range(n)]
        return {"ps": ps, "pseed": draw(st.integers(0, 2**20)),
                "use": draw(st.lists(st.sampled_from(["forward", "inverse", "both"]), min_size=n, max_size=n))}

    return strat()


def _set_T(T, p):
    tr = np.array(p["translation"], dtype=float)
    ang = np.array(p["angles"], dtype=float)
    if p.get("setter", "params") == "vector":
        T.isometry = bool(p["isometry"])
        vec = np.concatenate([tr, ang]) if p["isometry"] else np.concatenate([tr, [p["scaling"]], ang])
        T.set_parameters_as_vector(vec)
    else:
        T.set_parameters(tr, float(p["scaling"]), ang)


def check_reparametrised(case):
    """One AffineTransformation object given several parameter sets in a row: after every
    re-parameterisation forward and inverse evaluation agree with a fresh object holding the same
    parameters, and inverse(T(x)) = x for the *current* parameters."""
    ps = case["ps"]
    dim = ps[0]["dim"]
    T = darsia.AffineTransformation(dim)
    x = _points(dim, 5, case["pseed"], scale=50.0)
    for k, (p, use) in enumerate(zip(ps, case["use"])):
        _set_T(T, p)
        F = _build_T(p)
        tags = _ptags(p, step=k)
        s = float(p["scaling"])
        tol = 1e-9 * (1 + np.abs(x).sum(axis=1, keepdims=True) + float(np.abs(p["translation"]).sum())) * max(s, 1 / s)
        if use in ("forward", "both"):
            if not np.array_equal(np.asarray(T.call_array(x)), np.asarray(F.call_array(x))):
                raise Violation("reparam:forward", f"step {k}: forward map of the re-parameterised object differs "
                                f"from a fresh object with the same parameters", tags)
        if use in ("inverse", "both"):
            a, b = np.asarray(T.inverse_array(x)), np.asarray(F.inverse_array(x))
            if not np.array_equal(a, b):
                raise Violation("reparam:inverse", f"step {k}: inverse map of the re-parameterised object differs "
                                f"from a fresh object with the same parameters (max {np.abs(a - b).max():.2e})", tags)
        y = np.asarray(T.inverse_array(np.asarray(T.call_array(x))), dtype=float)
        if np.any(np.abs(y - x) > tol):
            raise Violation("reparam:roundtrip", f"step {k}: inverse(T(x)) != x after re-parameterising the same "
                            f"object (parameters {p['translation']}, {s}, {p['angles']})", tags)
    return Outcome(True, [ps, case["use"]], (f"dim{dim}", f"steps{len(ps)}"), evals=len(ps))


# ---- 1c. maps fitted from exact point pairs ----------------------------------------------


def gen_fitted(tier, only=None):
    @st.composite
    def strat(draw):
        dim = draw(st.sampled_from([2, 2, 3]))
        mx = 8 if dim == 2 else 5
        shape = [draw(st.integers(3, mx)) for _ in range(dim)]
        vox = [draw(st.sampled_from([0.5, 1.0, 0.25, 0.3, 2.0])) for _ in range(dim)]
        shift = [draw(st.sampled_from([0, 0, 0, 1, -1, 1, -1, 2, -2, 3, -3])) for _ in range(dim)]
        if draw(st.integers(0, 9)) == 0:  # farther than the image is wide
            shift[draw(st.integers(0, dim - 1))] = draw(st.sampled_from([-1, 1])) * (mx + 1)
        isometry = draw(st.sampled_from([True, True, False]))
        if only == "coordinate-isometry":
            isometry, maker = True, "coordinate"
        elif isometry:
            # (coordinate points + isometry: sub-check fitted_coordinate_isometry)
            maker = draw(st.sampled_from(["voxel", "voxel_center"]))
        else:
            # (a plain fit from Voxel-typed pairs pulls integer positions back, which sit on voxel
            # faces: the rounding of the fitted translation decides the voxel - not held to exactness)
            maker = draw(st.sampled_from(["voxel_center", "coordinate"]))
        case = {"dim": dim, "shape": shape, "vox": vox, "shift": shift, "maker": maker,
                "isometry": isometry,
                "npts": draw(st.integers(dim + 2, 8)), "pseed": draw(st.integers(0, 2**20)),
                "ctor": draw(st.sampled_from(["AffineCorrection", "CoordinateTransformation"])),
                "dst_shape": None, "offset": [0] * dim, "k_src": None}
        if draw(st.booleans()):
            # destination system of another shape and origin (same voxel size: the maps are
            # translations), source system with an origin of its own
            case["dst_shape"] = [draw(st.integers(2, mx)) for _ in range(dim)]
            case["offset"] = [draw(st.integers(-3, 3)) for _ in range(dim)]
            case["k_src"] = [draw(st.integers(-20, 20)) for _ in range(dim)]
        return case

    return strat()


def _origin_of(dim, shape, vox, k):
    """Origin (Cartesian) from integer multiples k of the voxel size of each Cartesian axis;
    k None: the default origin."""
    dims = [n * v for n, v in zip(shape, vox)]
    if k is None:
        return dims, None
    return dims, [float(k[c] * vox[AXES[dim][c][0]]) for c in range(dim)]


def check_fitted_isometry(case):
    """A correction *fitted* from exact point pairs of the identity or a whole-voxel translation
    returns exactly the input / its zero-filled shift in the destination system: AffineCorrection and
    CoordinateTransformation, with the isometry option (points handed over as voxels, voxel centres
    or coordinates of voxel centres; the map then lives in physical coordinates) and without
    (voxel centres, coordinates), between equal or different source / destination systems.
    (The fit starts from the centre-of-mass translation, which is the exact answer here; the
    pulled-back centres land on source voxel centres, half a voxel away from any face, so the
    result does not depend on the optimiser's tolerance.  Design-time probes: 120/120 and 400/400
    exact on the unchanged tree.)"""
    from vf.oracles import RefCS

    dim, shape, vox = case["dim"], case["shape"], case["vox"]
    isometry = bool(case.get("isometry", True))
    dshape = case.get("dst_shape") or shape
    offset = case.get("offset") or [0] * dim
    rng = np.random.default_rng(case["pseed"])
    arr = rng.integers(1, 9, size=shape).astype(float)
    dims_s, o_s = _origin_of(dim, shape, vox, case.get("k_src"))
    kd = None
    if case.get("dst_shape"):
        ks = case["k_src"]
        kd = [ks[c] + offset[AXES[dim][c][0]] for c in range(dim)]
    dims_d, o_d = _origin_of(dim, dshape, vox, kd)
    kw_s = {} if o_s is None else {"origin": list(o_s)}
    kw_d = {} if o_d is None else {"origin": list(o_d)}
    img = darsia.Image(arr.copy(), space_dim=dim, dimensions=list(dims_s), scalar=True, **kw_s)
    host = darsia.Image(np.zeros(dshape), space_dim=dim, dimensions=list(dims_d), scalar=True, **kw_d)
    cs, cd = img.coordinatesystem, host.coordinatesystem
    shift = np.array(case["shift"])
    src = np.array([[int(rng.integers(0, n)) for n in shape] for _ in range(case["npts"])])
    src[: dim + 1] = np.vstack([np.zeros(dim, int), np.eye(dim, dtype=int) * (np.array(shape) - 1)])
    dst = src + shift
    maker = case["maker"]
    same = not case.get("dst_shape")
    tags = {"dim": dim, "maker": maker, "ctor": case["ctor"], "isometry": isometry, "same_system": same}
    if maker == "coordinate":
        # physical coordinates of the voxel centres, from the reference map of the harness
        p_src = darsia.CoordinateArray(RefCS(dim, shape, dims_s, o_s).coordinate(src + 0.5))
        p_dst = darsia.CoordinateArray(RefCS(dim, dshape, dims_d, o_d).coordinate(dst + 0.5))
    else:
        mk = darsia.make_voxel if maker == "voxel" else darsia.make_voxel_center
        p_src, p_dst = mk(src), mk(dst)
    ctor = darsia.AffineCorrection if case["ctor"] == "AffineCorrection" else darsia.CoordinateTransformation
    try:
        corr = ctor(cs, cd, p_src, p_dst, fit_options={"isometry": isometry})
    except AssertionError as e:
        if isometry and maker == "coordinate" and "coordinatesystem must be provided" in str(e):
            # CoordinateArray is a documented point type and isometry a documented option
            raise Violation("fitted:coordinate-points-isometry", f"{case['ctor']}(..., CoordinateArray "
                            f"points, fit_options={{'isometry': True}}) raised AssertionError({e})", tags)
        raise
    T = corr.transformation if case["ctor"] == "AffineCorrection" else corr.affine_correction.transformation
    if isometry and (float(T.scaling) != 1.0 or T.input_dtype is not darsia.Coordinate):
        raise Violation("fitted:isometry-map", f"isometry fit left scaling {T.scaling!r} / input type "
                        f"{T.input_dtype.__name__} (documented: an isometry operating on coordinates)", tags)
    res = corr(img)
    out = np.asarray(res.img)
    V = _dst_voxels(dshape)
    want, n_valid = _apply_model(arr, V, V - shift, shape, dshape)
    kind = f"fitted-isometry:{maker}" if isometry else f"fitted-plain:{maker}"
    if out.shape != want.shape or not np.array_equal(out, want):
        raise Violation(kind, f"{case['ctor']} fitted (isometry={isometry}) from exact "
                        f"{maker} pairs of the whole-voxel shift {shift.tolist()}, source shape {shape} -> "
                        f"destination shape {list(dshape)} (origin offset {offset} voxels): result is not the "
                        f"zero-filled shift (max difference "
                        f"{np.abs(out - want).max() if out.shape == want.shape else 'shape'})", tags)
    if not np.array_equal(img.img, arr):
        raise Violation("fitted:input-modified", "the input image changed", tags)
    if case["ctor"] == "CoordinateTransformation":
        # labelled with the destination system
        if [float(d) for d in res.dimensions] != [float(d) for d in host.dimensions] or \
                not np.array_equal(np.asarray(res.origin, float), np.asarray(host.origin, float)):
            raise Violation("fitted:label", f"result dimensions / origin {list(res.dimensions)} / "
                            f"{np.asarray(res.origin).tolist()}, destination system {list(host.dimensions)} / "
                            f"{np.asarray(host.origin).tolist()}", tags)
    return Outcome(bool(np.any(shift != 0)) or not same, case,
                   (f"dim{dim}", maker, case["ctor"], "identity" if not np.any(shift) else "shift",
                    "isometry" if isometry else "plain-fit",
                    "same-system" if same else "different-system",
                    "all-outside" if n_valid == 0 else ("all-inside" if n_valid == len(V) else "partly-outside")))


# ---- 2. rotation_orthonormal ------------------------------------------------------------


def gen_rotation(tier):
    return st.fixed_dictionaries({
        "p": affine_params(),
        "obj": st.sampled_from(["affine", "affine", "rotationcorrection"]),
        "order": st.permutations([0, 1, 2]),
    })


def check_rotation_orthonormal(case):
    p = case["p"]
    dim = p["dim"]
    obj = case["obj"]
    tags = _ptags(p, obj=obj)
    if obj == "affine":
        T = _build_T(p)
        R, Rinv = np.asarray(T.rotation, float), np.asarray(T.rotation_inv, float)
    else:
        if dim == 2:
            rc = darsia.RotationCorrection(anchor=[1, 2], rotations=[p["angles"][0]])
        else:
            rots = [(p["angles"][a], "xyz"[a]) for a in case["order"] if p["angles"][a] != 0.0]
            rc = darsia.RotationCorrection(anchor=[1, 2, 1], rotations=rots)
        R, Rinv = np.asarray(rc.rotation, float), np.asarray(rc.rotation_inv, float)
    if R.shape != (dim, dim) or Rinv.shape != (dim, dim):
        raise Violation("rotation-shape", f"{R.shape} / {Rinv.shape}", tags)
    err = float(np.abs(R.T @ R - np.eye(dim)).max())
    if err > 1e-12:
        raise Violation(f"not-orthonormal:{obj}:dim{dim}", f"|R^T R - I| = {err:.3e} for angles "
                        f"{p['angles']}", tags)
    det = float(np.linalg.det(R))
    if abs(det - 1.0) > 1e-12:
        raise Violation(f"determinant:{obj}:dim{dim}", f"det R = {det!r}", tags)
    err = float(np.abs(Rinv - R.T).max())
    if err > 1e-12:
        raise Violation(f"rotation-inv:{obj}:dim{dim}:{_angle_class(p)}",
                        f"rotation_inv differs from rotation^T by {err:.3e} (|R rotation_inv - I| = "
                        f"{np.abs(R @ Rinv - np.eye(dim)).max():.3e}) for angles {p['angles']}", tags)
    return Outcome(nontrivial=_nnz(p) >= 1, key=[dim, p["angles"], obj,
                                                 case["order"] if obj != "affine" and dim == 3 else 0],
                   labels=(f"dim{dim}", _angle_class(p), obj))


# ---- 3. documented_action ---------------------------------------------------------------


def gen_action(tier):
    @st.composite
    def strat(draw):
        p = draw(affine_params())
        if p["dim"] == 3 and _nnz(p) >= 2:
            # the composition order of several axis rotations is not documented: keep one
            keep = draw(st.sampled_from([i for i, a in enumerate(p["angles"]) if a != 0.0]))
            p["angles"] = [a if i == keep else 0.0 for i, a in enumerate(p["angles"])]
        return {"p": p, "n": draw(st.integers(1, 6)), "pseed": draw(st.integers(0, 2**20)),
                "partial": draw(st.sampled_from(["none", "scaling", "translation", "rotation"]))}

    return strat()


def check_documented_action(case):
    p = case["p"]
    dim = p["dim"]
    T = _build_T(p)
    tags = _ptags(p)
    tr = np.array(p["translation"], dtype=float)
    s = 1.0 if (p["setter"] == "vector" and p["isometry"]) else float(p["scaling"])
    # parameters are stored as documented (vector layout: translation, [scaling], rotation)
    if not np.array_equal(np.asarray(T.translation, float), tr) or float(T.scaling) != s:
        raise Violation("parameters-stored", f"translation {np.asarray(T.translation).tolist()} / "
                        f"scaling {T.scaling!r} after setting {p['translation']} / {s}", tags)
    R = _std_rotation(dim, p["angles"])
    # optional arguments left out keep the earlier value
    if case["partial"] == "scaling":
        s = 3.0
        T.set_parameters(scaling=3.0)
    elif case["partial"] == "translation":
        tr = tr + 1.0
        T.set_parameters(translation=tr.copy())
    elif case["partial"] == "rotation":
        # only the rotation is replaced (3-D: about the axis that already was the non-zero one,
        # or about z) - translation and scaling keep their values
        new = [0.0] * len(p["angles"])
        nz = [i for i, a in enumerate(p["angles"]) if a != 0.0]
        new[nz[0] if nz else len(new) - 1] = 0.25
        R = _std_rotation(dim, new)
        T.set_parameters(rotation=np.array(new))
    x = _points(dim, case["n"], case["pseed"])
    X = darsia.CoordinateArray(x)
    T.set_dtype(X, X)
    want = tr[None, :] + s * (x @ R.T)
    got = np.asarray(T(X), dtype=float)
    tol = 32 * EPS * (np.abs(tr).sum() + s * np.abs(x).sum(axis=1, keepdims=True)) + 1e-300
    bad = np.abs(got - want) > tol
    if got.shape != want.shape or bad.any():
        i = int(np.argwhere(bad)[0][0]) if got.shape == want.shape else 0
        cls = "zero-angle" if _nnz(p) == 0 and case["partial"] != "rotation" else "rotated"
        raise Violation(f"action:{cls}:dim{dim}", f"T({x[i].tolist()}) = {got[i].tolist()}, documented "
                        f"t + s R x = {want[i].tolist()} (t {tr.tolist()}, s {s}, angles {p['angles']}, "
                        f"partial update {case['partial']})", tags)
    # the stored rotation is the standard matrix
    if np.abs(np.asarray(T.rotation, float) - R).max() > 1e-14:
        raise Violation(f"rotation-matrix:dim{dim}", f"rotation {np.asarray(T.rotation).tolist()} vs "
                        f"standard matrix {R.tolist()}", tags)
    return Outcome(nontrivial=True, key=[p, case["partial"], case["pseed"], case["n"]],
                   labels=_plabels(p, f"partial-{case['partial']}"), evals=len(x))


# ---- 4. array_vs_single -----------------------------------------------------------------


def gen_array_single(tier):
    @st.composite
    def strat(draw):
        p = draw(affine_params())
        exact = draw(st.booleans())
        if exact:  # lattice-preserving map: voxel-typed results are exact
            p["translation"] = [float(draw(st.integers(-30, 30))) for _ in range(p["dim"])]
            p["scaling"] = 1.0
            p["angles"] = [0.0] * len(p["angles"])
        return {"p": p, "in": draw(st.sampled_from(REPS)), "out": draw(st.sampled_from(REPS)),
                "n": draw(st.integers(1, 6)), "pseed": draw(st.integers(0, 2**20)), "exact": exact}

    return strat()


def check_array_vs_single(case):
    p = case["p"]
    dim = p["dim"]
    T = _build_T(p)
    rin, rout = case["in"], case["out"]
    tags = _ptags(p, **{"in": rin, "out": rout})
    raw = _points(dim, case["n"], case["pseed"], scale=50.0)
    X = ARRAY[rin](raw)
    T.set_dtype(X, ARRAY[rout](raw))
    s = float(p["scaling"])
    tn = float(np.abs(p["translation"]).sum())

    def compare(batch, single_fn, src, rep, direction, pre):
        """batch: typed result for all rows; single_fn(i): typed result for row i;
        pre: untyped float result (n, dim) of the array-level routine."""
        if not isinstance(batch, ARRAY[rep]):
            raise Violation("type", f"{direction}(batch) returned {type(batch).__name__}, I/O type "
                            f"set to {ARRAY[rep].__name__}", tags)
        b = np.asarray(batch)
        want = np.asarray(ARRAY[rep](pre))
        if b.shape != want.shape or not np.array_equal(b, want):
            raise Violation(f"typed-vs-array-level:{rep}", f"{direction}(batch) is not "
                            f"{ARRAY[rep].__name__} of the array-level result", tags)
        scale = 1 + tn + max(s, 1 / s) * np.abs(np.asarray(src, float)).sum(axis=1)
        for i in range(len(b)):
            one = single_fn(i)
            if not isinstance(one, SINGLE[rep]) or isinstance(one, ARRAY[rep]):
                raise Violation("type", f"{direction}(single) returned {type(one).__name__}, I/O type "
                                f"set to {SINGLE[rep].__name__}", tags)
            o = np.asarray(one)
            if o.shape != (dim,):
                raise Violation("single-shape", f"{direction}(single) has shape {o.shape}", tags)
            if rep == "coordinate":
                ok = np.all(np.abs(o - b[i]) <= 64 * EPS * scale[i])
            else:
                # floor of a float: rows may differ only if the value sits on an integer
                near = np.abs(pre[i] - np.round(pre[i])) <= 1e-9 * scale[i]
                ok = np.all((o == b[i]) | (near & ~np.array(case["exact"])))
            if not ok:
                raise Violation(f"batch-vs-single:{rep}", f"{direction}: row {i} of the batch is "
                                f"{b[i].tolist()}, the single call gives {o.tolist()}", tags)

    Xa = np.asarray(X, dtype=float)
    Y = T(X)
    compare(Y, lambda i: T(X[i]), Xa, rout, "T", T.call_array(Xa))
    Ya = np.asarray(Y, dtype=float)
    Z = T.inverse(Y)
    compare(Z, lambda i: T.inverse(Y[i]), Ya, rin, "T.inverse", T.inverse_array(Ya))
    if case["exact"]:
        # lattice map: x -> x + t exactly, in every representation
        shift = np.array(p["translation"])
        wantY = np.asarray(ARRAY[rout](Xa + shift))
        if not np.array_equal(np.asarray(Y), wantY):
            raise Violation("typed-translation", f"integer translation {shift.tolist()} of "
                            f"{ARRAY[rin].__name__} {Xa[0].tolist()} gives {np.asarray(Y)[0].tolist()}, "
                            f"expected {wantY[0].tolist()}", tags)
        # ... and back: inverse(y) = y - t in the input representation (computed here, not with
        # the code's inverse_array); with equal in/out types that is the original point set
        wantZ = np.asarray(ARRAY[rin](np.asarray(wantY, dtype=float) - shift))
        gotZ = np.asarray(Z)
        if rin == "coordinate":
            okZ = gotZ.shape == wantZ.shape and np.all(
                np.abs(gotZ - wantZ) <= 64 * EPS * (1 + tn + np.abs(wantZ)))
        else:
            okZ = gotZ.shape == wantZ.shape and np.array_equal(gotZ, wantZ)
        if okZ and rin == rout and rin != "coordinate":
            okZ = np.array_equal(gotZ, np.asarray(X))
        if not okZ:
            raise Violation("typed-translation-inverse", f"inverse of the integer translation "
                            f"{shift.tolist()} applied to {ARRAY[rout].__name__} {wantY[0].tolist()} gives "
                            f"{gotZ[0].tolist()}, expected {wantZ[0].tolist()} ({ARRAY[rin].__name__})", tags)
    return Outcome(nontrivial=rin != rout or not case["exact"],
                   key=[p, rin, rout, case["pseed"], case["n"]],
                   labels=_plabels(p, f"in-{rin}", f"out-{rout}", "lattice-map" if case["exact"] else "generic-map"),
                   evals=2 * len(raw))


# =======================================================================================
# image level: exact warps
# =======================================================================================


def _turn2(k):
    c, s = [(1, 0), (0, 1), (-1, 0), (0, -1)][k % 4]
    return np.array([[c, -s], [s, c]], dtype=int)


def _turn3(axis, k):
    c, s = [(1, 0), (0, 1), (-1, 0), (0, -1)][k % 4]
    i, j = [(1, 2), (2, 0), (0, 1)][axis]
    R = np.eye(3, dtype=int)
    R[i, i], R[i, j], R[j, i], R[j, j] = c, -s, s, c
    return R


@st.composite
def _jitter(draw, dim, big):
    out = [draw(st.sampled_from([0, 0, 1, -1, 1, -1, 2, -2])) for _ in range(dim)]
    if draw(st.integers(0, 7)) == 0:  # farther than the image is wide, along one axis
        out[draw(st.integers(0, dim - 1))] = draw(st.sampled_from([-1, 1])) * big
    return out


@st.composite
def warp_cases(draw, families=("identity", "shift", "quarter", "resample"), reps=REPS, dims=(2, 3)):
    dim = draw(st.sampled_from(list(dims)))
    mx = {2: 12, 3: 5}[dim]
    fam = draw(st.sampled_from(list(families)))
    rep = draw(st.sampled_from(list(reps)))
    src_shape = draw(gens.shapes(dim, mx))
    same_sys = fam == "identity" or draw(st.booleans())
    if fam == "quarter":
        hv = draw(gens.voxel_sizes(1, draw(st.sampled_from(["pow2", "generic", "unit"]))))[0]
        h = [hv] * dim
    else:
        h = draw(gens.voxel_sizes(dim, draw(st.sampled_from(["pow2", "generic", "unit"]))))
    k_src = None  # default origin
    if draw(st.booleans()):
        k_src = [draw(st.one_of(st.integers(-20, 20), st.integers(-10**4, 10**4))) for _ in range(dim)]
    ratio = [[1, 1]] * dim
    offset = [0] * dim
    dst_shape = list(src_shape)
    if not same_sys:
        dst_shape = draw(gens.shapes(dim, mx))
        offset = [draw(st.sampled_from([0, 0, 1, -1, 2, -2])) for _ in range(dim)]
        if fam in ("resample",) or (fam == "shift" and draw(st.booleans())):
            ratio = [[draw(st.sampled_from([1, 1, 3, 5])), draw(st.sampled_from([1, 1, 2, 3, 4]))]
                     for _ in range(dim)]
    if fam == "resample" and same_sys:
        ratio = [[draw(st.sampled_from([1, 3])), draw(st.sampled_from([1, 2, 3]))] for _ in range(dim)]
        dst_shape = draw(gens.shapes(dim, mx))
    if rep != "coordinate" and fam == "resample":
        fam = "shift"  # voxel-typed maps do not see the voxel size
    turns = [0] * (1 if dim == 2 else 3)
    if fam == "quarter":
        if dim == 2:
            turns = [draw(st.sampled_from([-1, 1, 2, 3]))]
        else:
            nnz = draw(st.sampled_from([1, 1, 2, 3]))
            for a in draw(st.permutations([0, 1, 2]))[:nnz]:
                turns[a] = draw(st.sampled_from([-1, 1, 2, 3]))
    jitter = [0] * dim if fam in ("identity", "resample") and draw(st.booleans()) else \
        draw(_jitter(dim, mx + 3))
    if fam == "identity":
        jitter = [0] * dim
    payload = draw(st.sampled_from(["scalar", "scalar", "vector", "series", "vector-series"]))
    return {
        "dim": dim, "family": fam, "rep": rep, "src_shape": list(src_shape), "dst_shape": list(dst_shape),
        "h": h, "k_src": k_src, "offset": offset, "ratio": ratio, "turns": turns, "jitter": jitter,
        "zero_rotation_set": draw(st.booleans()),
        "payload": payload, "ncomp": draw(st.integers(1, 3)), "nt": draw(st.integers(1, 3)),
        "dtype": draw(st.sampled_from(["float64", "float64", "uint8", "float32", "bool"])),
        "pseed": draw(st.integers(0, 2**16)),
        "form": draw(st.sampled_from(["image", "image", "array", "correct_array"])),
        # the third call through the same object hands over another kind of payload
        "payload3": draw(st.sampled_from(["same", "scalar", "vector", "series", "vector-series"])),
        "dtype3": draw(st.sampled_from(["same", "float64", "uint8", "float32", "bool"])),
    }


def _src_spec(case):
    dim = case["dim"]
    shape = case["src_shape"]
    h = case["h"]
    origin = None
    if case["k_src"] is not None:
        origin = [float(case["k_src"][c] * h[AXES[dim][c][0]]) for c in range(dim)]
    return {
        "dim": dim, "shape": list(shape), "dimensions": [shape[m] * h[m] for m in range(dim)],
        "origin": origin, "payload": "vector" if "vector" in case["payload"] else "scalar",
        "ncomp": case["ncomp"] if "vector" in case["payload"] else 0,
        "series": "series" in case["payload"], "nt": case["nt"] if "series" in case["payload"] else 0,
        "dtype": case["dtype"], "time": "time" if "series" in case["payload"] else "none",
        "t0": 1, "dt": 2, "pseed": case["pseed"], "name": "src",
    }


def _k_src_effective(case):
    """Origin of the source system in units of the voxel size of each Cartesian axis."""
    dim = case["dim"]
    if case["k_src"] is not None:
        return list(case["k_src"])
    return [0 if s > 0 else case["src_shape"][m] for (m, s) in AXES[dim]]


def _geometry(case):
    """-> dict with everything the model and the code under test need.  All quantities of the
    *model* are integers; the float quantities handed to the code are derived from them."""
    dim = case["dim"]
    fam = case["family"]
    D = case["dst_shape"]
    h = case["h"]
    ks = _k_src_effective(case)
    g = {"dim": dim}
    turns = list(case["turns"])
    # forward quarter-turn matrix in the composition order used for several angles is taken
    # from the object itself (see _check_warp); here only the single-axis / 2-D standard one
    g["turns"] = turns
    g["angles"] = [k * math.pi / 2 for k in turns]
    # destination system
    if fam == "quarter":
        hd = list(h)
        kd = [ks[c] + AXES[dim][c][1] * case["offset"][AXES[dim][c][0]] for c in range(dim)]
    else:
        hd = [h[m] * case["ratio"][m][0] / case["ratio"][m][1] for m in range(dim)]
        kd = None
    g["dst_dimensions"] = [D[m] * hd[m] for m in range(dim)]
    o_src = [float(ks[c] * h[AXES[dim][c][0]]) for c in range(dim)]
    g["dst_origin"] = [o_src[c] + AXES[dim][c][1] * case["offset"][AXES[dim][c][0]] * h[AXES[dim][c][0]]
                       for c in range(dim)]
    g["k_src"], g["k_dst"] = ks, kd
    return g


def _dst_voxels(D):
    dim = len(D)
    return np.indices(D).reshape(dim, -1).T.astype(np.int64)


def _model_map(case, g, Rint):
    """Integer pull-back: for every destination voxel the source voxel (may be out of range).
    Returns (V_dst, V_src, translation handed to the transformation)."""
    dim = case["dim"]
    fam, rep = case["family"], case["rep"]
    S, D = np.array(case["src_shape"]), np.array(case["dst_shape"])
    V = _dst_voxels(case["dst_shape"])
    jit = np.array(case["jitter"], dtype=np.int64)
    Vs = np.empty_like(V)
    if fam != "quarter":
        # axis-aligned: per matrix axis  u_src = a - tau + (v_dst + 1/2) p / q
        if rep == "coordinate":
            for m in range(dim):
                p, q = case["ratio"][m]
                Vs[:, m] = case["offset"][m] - jit[m] + ((2 * V[:, m] + 1) * p) // (2 * q)
            t = np.zeros(dim)
            for c, (m, s) in enumerate(AXES[dim]):
                t[c] = s * jit[m] * case["h"][m]
        else:
            Vs = V - jit
            t = jit.astype(float)
        return V, Vs, t
    # quarter turns: rotated source box is aligned with the destination box, plus jitter
    R = Rint.astype(np.int64)
    if rep == "coordinate":
        ks, kd = np.array(g["k_src"]), np.array(g["k_dst"])
        lo_s = np.array([ks[c] + (0 if s > 0 else -S[m]) for c, (m, s) in enumerate(AXES[dim])])
        hi_s = np.array([lo_s[c] + S[m] for c, (m, s) in enumerate(AXES[dim])])
        lo_d = np.array([kd[c] + (0 if s > 0 else -D[m]) for c, (m, s) in enumerate(AXES[dim])])
        corners = np.array(np.meshgrid(*[[lo_s[c], hi_s[c]] for c in range(dim)])).reshape(dim, -1).T
        lo_rot = (corners @ R.T).min(axis=0)
        jc = np.array([AXES[dim][c][1] * jit[AXES[dim][c][0]] for c in range(dim)])
        tau = lo_d - lo_rot + jc  # translation in voxel sizes, Cartesian components
        X = np.empty_like(V)
        for c, (m, s) in enumerate(AXES[dim]):
            X[:, c] = 2 * kd[c] + s * (2 * V[:, m] + 1)
        Xs = (X - 2 * tau) @ R  # row vectors: R^T y
        for c, (m, s) in enumerate(AXES[dim]):
            u2 = s * (Xs[:, c] - 2 * ks[c])
            assert np.all(u2 % 2 == 1)
            Vs[:, m] = (u2 - 1) // 2
        return V, Vs, tau.astype(float) * case["h"][0]
    if rep == "center":
        corners = np.array(np.meshgrid(*[[0, S[m]] for m in range(dim)])).reshape(dim, -1).T
        t = -(corners @ R.T).min(axis=0) + jit
        P = ((2 * V + 1) - 2 * t) @ R
        assert np.all(P % 2 == 1)
        return V, (P - 1) // 2, t.astype(float)
    corners = np.array(np.meshgrid(*[[0, S[m] - 1] for m in range(dim)])).reshape(dim, -1).T
    t = -(corners @ R.T).min(axis=0) + jit
    return V, (V - t) @ R, t.astype(float)


def _apply_model(arr, V, Vs, S, D):
    dim = len(S)
    out = np.zeros(tuple(D) + arr.shape[dim:], dtype=arr.dtype)
    valid = np.all((Vs >= 0) & (Vs < np.array(S)), axis=1)
    out[tuple(V[valid, m] for m in range(dim))] = arr[tuple(Vs[valid, m] for m in range(dim))]
    return out, int(valid.sum())


def _typed_pts(rep, dim):
    pts = np.array([[0.0] * dim, [1.0] * dim])
    return ARRAY[rep](pts)


def _quarter_matrix(T, case, tags):
    """Exact integer forward rotation of the transformation (signed permutation, det +1)."""
    dim = case["dim"]
    R = np.asarray(T.rotation, dtype=float)
    Rint = np.rint(R).astype(int)
    if np.abs(R - Rint).max() > 1e-12 or abs(np.linalg.det(Rint) - 1) > 1e-9 or \
            not np.array_equal(np.abs(Rint).sum(axis=0), np.ones(dim)):
        raise Violation("quarter-turn-matrix", f"rotation for angles {case['turns']} x pi/2 is "
                        f"{R.tolist()}", tags)
    nz = [a for a, k in enumerate(case["turns"]) if k % 4 != 0]
    if dim == 2:
        std = _turn2(case["turns"][0])
    elif len(nz) <= 1:
        std = _turn3(nz[0], case["turns"][nz[0]]) if nz else np.eye(3, dtype=int)
    else:
        std = None  # composition order of several axis rotations is not documented
    if std is not None and not np.array_equal(std, Rint):
        raise Violation("quarter-turn-matrix", f"rotation for quarter turns {case['turns']} is "
                        f"{Rint.tolist()}, standard matrix {std.tolist()}", tags)
    return Rint


def _warp_kind(case):
    fam, rep, dim = case["family"], case["rep"], case["dim"]
    nnz = sum(1 for k in case["turns"] if k % 4 != 0)
    if fam == "quarter" and rep == "voxel":
        return "warp:voxel-typed-rotation"
    if fam == "quarter" and dim == 3 and nnz >= 2:
        return "warp:dim3-multi-angle"
    return f"warp:{fam}:{rep}"


def _warp_tags(case):
    return {"dim": case["dim"], "family": case["family"], "rep": case["rep"],
            "nonzero_turns": sum(1 for k in case["turns"] if k % 4 != 0),
            "same_system": case["src_shape"] == case["dst_shape"] and case["offset"] == [0] * case["dim"]
            and all(r == [1, 1] for r in case["ratio"])}


def _warp_labels(case, n_valid, n_total):
    nnz = sum(1 for k in case["turns"] if k % 4 != 0)
    lab = [f"dim{case['dim']}", f"family-{case['family']}", f"rep-{case['rep']}",
           f"payload-{case['payload']}", f"dtype-{case['dtype']}", f"form-{case['form']}",
           "same-system" if _warp_tags(case)["same_system"] else "different-system"]
    if case["family"] == "quarter":
        lab.append(f"turned-axes-{nnz}")
        lab.append("square" if len(set(case["src_shape"])) == 1 else "non-square")
    if any(r != [1, 1] for r in case["ratio"]):
        lab.append("different-voxel-size")
    lab.append("all-outside" if n_valid == 0 else ("all-inside" if n_valid == n_total else "partly-outside"))
    if any(abs(j) > 2 for j in case["jitter"]):
        lab.append("shift-larger-than-image")
    return tuple(lab)


def _warp_nontrivial(case, n_valid):
    nnz = sum(1 for k in case["turns"] if k % 4 != 0)
    if n_valid == 0:
        return any(abs(j) > 2 for j in case["jitter"])  # shift beyond the image: all zeros expected
    return ((case["dim"] == 3 and nnz >= 2) or any(j != 0 for j in case["jitter"])
            or (nnz >= 1 and len(set(case["src_shape"])) > 1)
            or not _warp_tags(case)["same_system"])


def _setup_warp(case):
    dim = case["dim"]
    tags = _warp_tags(case)
    g = _geometry(case)
    spec = _src_spec(case)
    src = gens.build_image(spec)
    host = darsia.Image(np.zeros(case["dst_shape"]), space_dim=dim, scalar=True,
                        dimensions=list(g["dst_dimensions"]), origin=list(g["dst_origin"]))
    T = darsia.AffineTransformation(dim)
    pts = _typed_pts(case["rep"], dim)
    T.set_dtype(pts, pts)
    return tags, g, spec, src, host, T


def _set_exact(T, case, g, tags):
    """Give the transformation its exact parameters; return the integer model map."""
    dim = case["dim"]
    if case["family"] == "quarter":
        T.set_parameters(np.zeros(dim), 1.0, np.array(g["angles"], dtype=float))
        Rint = _quarter_matrix(T, case, tags)
    else:
        Rint = np.eye(dim, dtype=int)
    V, Vs, t = _model_map(case, g, Rint)
    rot = None
    if case["family"] == "quarter":
        rot = np.array(g["angles"], dtype=float)
    elif case["zero_rotation_set"]:
        rot = np.zeros(1 if dim == 2 else 3)
    T.set_parameters(np.array(t, dtype=float), 1.0, rot)
    return V, Vs


def _cmp(got, want, what, case, tags, V, Vs):
    if got.shape != want.shape or got.dtype != want.dtype:
        raise Violation("warp-shape", f"{what}: shape/dtype {got.shape}/{got.dtype}, expected "
                        f"{want.shape}/{want.dtype}", tags)
    if not np.array_equal(got, want):
        diff = (got != want).reshape(tuple(case["dst_shape"]) + (-1,)).any(axis=-1)
        v = np.argwhere(diff)[0]
        row = int(np.flatnonzero(np.all(V == v, axis=1))[0])
        raise Violation(_warp_kind(case),
                        f"{what}: destination voxel {v.tolist()} holds "
                        f"{np.ravel(got[tuple(v)])[:3].tolist()}, pull-back model: source voxel "
                        f"{Vs[row].tolist()} -> {np.ravel(want[tuple(v)])[:3].tolist()}; "
                        f"{int(diff.sum())}/{diff.size} voxels differ (family {case['family']}, "
                        f"representation {case['rep']}, turns {case['turns']}, src {case['src_shape']} "
                        f"-> dst {case['dst_shape']})", tags)


def _third_spec(case, spec):
    """Spec of the payload of the third call: same geometry, other values and (drawn) another
    payload kind / dtype - the per-object cache holds the voxel map only."""
    c3 = dict(case)
    if case.get("payload3", "same") != "same":
        c3["payload"] = case["payload3"]
    if case.get("dtype3", "same") != "same":
        c3["dtype"] = case["dtype3"]
    spec3 = _src_spec(c3)
    spec3["pseed"] = spec["pseed"] + 1
    return spec3


def check_warp_exact(case):
    tags, g, spec, src, host, T = _setup_warp(case)
    V, Vs = _set_exact(T, case, g, tags)
    tc = darsia.TransformationCorrection(src.coordinatesystem, host.coordinatesystem, T)
    arr = src.img.copy()
    want, n_valid = _apply_model(arr, V, Vs, case["src_shape"], case["dst_shape"])
    form = case["form"]

    def run(image, a):
        """a: the harness' own copy of the payload.  ``correction(array)`` is documented to work
        on a copy: it is handed a second array (no defensive copy in between), which must still
        hold the payload afterwards and must not be the memory of the result.  (correct_array
        itself is the in-place-capable routine of the correction framework: values only.)"""
        if form == "image":
            return tc(image).img
        handed = a.copy()
        if form == "correct_array":
            return tc.correct_array(handed)
        out = tc(handed)
        if not np.array_equal(handed, a):
            raise Violation("warp-mutates-input", "the array handed to correction(array) changed", tags)
        if np.shares_memory(out, handed):
            raise Violation("warp-aliases-input", "the result of correction(array) shares memory with "
                            "the array handed over", tags)
        return out

    got = run(src, arr)
    _cmp(got, want, "first call", case, tags, V, Vs)
    if not np.array_equal(src.img, arr):
        raise Violation("warp-mutates-input", "the input image array changed", tags)
    # second call on the same object: the cached map gives the same
    got2 = run(src, arr)
    _cmp(got2, want, "second call (cached map)", case, tags, V, Vs)
    if form != "correct_array" and np.shares_memory(got, got2):
        raise Violation("warp-aliases-result", "two calls returned the same memory", tags)
    # another payload of the same geometry (other values, possibly another payload kind / dtype)
    # through the same object
    spec3 = _third_spec(case, spec)
    src3 = gens.build_image(spec3)
    arr3 = src3.img.copy()
    want3, _ = _apply_model(arr3, V, Vs, case["src_shape"], case["dst_shape"])
    _cmp(run(src3, arr3), want3, "third call (other payload, cached map)", case, tags, V, Vs)
    if form != "correct_array":
        _cmp(got, want, "result of the first call after later calls", case, tags, V, Vs)
    other = spec3["payload"] != spec["payload"] or spec3["series"] != spec["series"] or \
        spec3["dtype"] != spec["dtype"]
    return Outcome(nontrivial=_warp_nontrivial(case, n_valid),
                   key=[{k: case[k] for k in case if k not in ("form", "payload3", "dtype3")}],
                   labels=_warp_labels(case, n_valid, len(V)) +
                   ("third-other-payload" if other else "third-same-payload",),
                   evals=3 * len(V))


# ---- 5b. generic maps against a float pull-back (centres away from faces only) -----------


def gen_warp_generic(tier):
    @st.composite
    def strat(draw):
        dim = draw(st.sampled_from([2, 3]))
        mx = {2: 10, 3: 5}[dim]
        nang = 1 if dim == 2 else 3
        nnz = 1 if dim == 2 else draw(st.sampled_from([1, 2, 2, 3]))
        angles = [0.0] * nang
        for a in draw(st.permutations(list(range(nang))))[:nnz]:
            angles[a] = draw(st.floats(-3.1, 3.1).filter(lambda z: abs(z) > 1e-2))
        return {
            "dim": dim, "rep": draw(st.sampled_from(["coordinate", "center"])),
            "src_shape": draw(gens.shapes(dim, mx, min_extent=2)),
            "dst_shape": draw(gens.shapes(dim, mx, min_extent=2)),
            "h": draw(gens.voxel_sizes(dim, draw(st.sampled_from(["pow2", "generic", "unit"])))),
            "hd": draw(gens.voxel_sizes(dim, draw(st.sampled_from(["pow2", "generic", "unit"])))),
            "same_h": draw(st.booleans()),
            "angles": angles,
            "scaling": draw(st.sampled_from([1.0, 1.0, 0.5, 2.0, draw(st.floats(0.4, 2.5))])),
            "delta": [draw(st.floats(-1.5, 1.5)) for _ in range(dim)],
            "pseed": draw(st.integers(0, 2**16)),
        }

    return strat()


def check_warp_generic(case):
    dim = case["dim"]
    rep = case["rep"]
    S, D = case["src_shape"], case["dst_shape"]
    h = case["h"]
    hd = h if case["same_h"] else case["hd"]
    nnz = sum(1 for a in case["angles"] if a != 0.0)
    tags = {"dim": dim, "rep": rep, "angles": "multi-angle" if nnz >= 2 else "single-angle"}
    rng = np.random.default_rng(case["pseed"])
    arr = rng.integers(1, 200, size=S).astype(float)
    src = darsia.Image(arr.copy(), space_dim=dim, scalar=True, dimensions=[S[m] * h[m] for m in range(dim)])
    host = darsia.Image(np.zeros(D), space_dim=dim, scalar=True,
                        dimensions=[D[m] * hd[m] for m in range(dim)])
    T = darsia.AffineTransformation(dim)
    pts = _typed_pts(rep, dim)
    T.set_dtype(pts, pts)
    s = float(case["scaling"])
    T.set_parameters(np.zeros(dim), s, np.array(case["angles"], dtype=float))
    R = np.asarray(T.rotation, dtype=float).copy()  # forward matrix; its inverse is taken here
    if np.abs(R.T @ R - np.eye(dim)).max() > 1e-12:
        raise Violation("not-orthonormal", "forward rotation is not orthonormal", tags)

    # points of the voxel centres in the representation's own space
    def centre_points(shape, hh, n_rows):
        Vv = _dst_voxels(shape)
        if rep == "center":
            return Vv, Vv + 0.5
        P = np.empty((len(Vv), dim))
        origin = [0.0 if sg > 0 else n_rows[m] * hh[m] for (m, sg) in AXES[dim]]
        for c, (m, sg) in enumerate(AXES[dim]):
            P[:, c] = origin[c] + sg * (Vv[:, m] + 0.5) * hh[m]
        return Vv, P

    V, Pd = centre_points(D, hd, D)
    _, Ps = centre_points(S, h, S)
    # map the source centre onto the destination centre, plus a small offset
    cs_, cd_ = Ps.mean(axis=0), Pd.mean(axis=0)
    unit = np.ones(dim) if rep == "center" else np.array([h[AXES[dim][c][0]] for c in range(dim)])
    t = cd_ - s * (R @ cs_) + np.array(case["delta"]) * unit
    T.set_parameters(translation=t.copy())
    # float pull-back
    Q = ((Pd - t) @ R) / s  # rows: R^T (p - t) / s
    U = np.empty_like(Q)
    if rep == "center":
        U = Q
    else:
        origin = [0.0 if sg > 0 else S[m] * h[m] for (m, sg) in AXES[dim]]
        for c, (m, sg) in enumerate(AXES[dim]):
            U[:, m] = sg * (Q[:, c] - origin[c]) / h[m]
    sure = np.all(np.abs(U - np.round(U)) > 1e-6, axis=1)
    Vs = np.floor(U).astype(np.int64)
    want, n_valid = _apply_model(arr, V, Vs, S, D)
    tc = darsia.TransformationCorrection(src.coordinatesystem, host.coordinatesystem, T)
    got = tc(src).img
    if got.shape != want.shape:
        raise Violation("warp-shape", f"{got.shape} vs {want.shape}", tags)
    bad = (got != want).reshape(-1)[np.ravel_multi_index(tuple(V[:, m] for m in range(dim)), D)] & sure
    if bad.any():
        i = int(np.flatnonzero(bad)[0])
        raise Violation(f"warp-generic:dim{dim}:{tags['angles']}",
                        f"destination voxel {V[i].tolist()}: centre pulled back to source position "
                        f"{U[i].tolist()} (voxel units), i.e. voxel {Vs[i].tolist()} -> expected "
                        f"{want[tuple(V[i])]!r}, got {got[tuple(V[i])]!r}; {int(bad.sum())} voxels differ "
                        f"(angles {case['angles']}, scaling {s})", tags)
    return Outcome(nontrivial=n_valid > 0, key=case,
                   labels=(f"dim{dim}", f"rep-{rep}", tags["angles"],
                           "scaled" if s != 1.0 else "unscaled",
                           "none-inside" if n_valid == 0 else "overlap",
                           "face-skips" if not sure.all() else "no-face-skips"),
                   evals=int(sure.sum()))


# ---- 6. metadata_labelled ---------------------------------------------------------------


def gen_metadata(tier):
    @st.composite
    def strat(draw):
        case = draw(warp_cases())
        case["form"] = "image"
        case["fit_isometry"] = draw(st.sampled_from([False, False, True]))
        case["fit_pts"] = case["rep"]
        if case["fit_isometry"]:
            # documented: with the isometry option the map operates on coordinates (of voxel
            # centres), whatever voxel-type the points are handed over in
            case["fit_pts"] = draw(st.sampled_from(["voxel", "center"]))
            case["rep"] = "coordinate"
        if case["family"] == "quarter" and case["rep"] == "voxel":
            case["rep"] = case["fit_pts"] = "center"  # voxel-typed rotations: see warp_exact
        return case

    return strat()


def check_metadata_labelled(case):
    dim = case["dim"]
    tags, g, spec, src, host, _ = _setup_warp(case)
    rep = case["rep"]
    # built normally: the constructor fits (capped at one Powell sweep; whatever it finds is
    # overwritten below through the public affine_correction.transformation)
    base = np.array([[0] * dim, [1] + [0] * (dim - 1), [0] * (dim - 1) + [1], [1] * dim], dtype=float)
    if case["fit_pts"] == "coordinate":
        pts_src = src.coordinatesystem.coordinate(base)
        pts_dst = host.coordinatesystem.coordinate(base)
    else:
        pts_src, pts_dst = ARRAY[case["fit_pts"]](base), ARRAY[case["fit_pts"]](base)
    opts = {"maxiter": 1, "isometry": bool(case["fit_isometry"])}
    ct = darsia.CoordinateTransformation(src.coordinatesystem, host.coordinatesystem, pts_src,
                                         pts_dst, fit_options=opts)
    T = ct.affine_correction.transformation
    if T.input_dtype is not SINGLE[rep] or T.output_dtype is not SINGLE[rep]:
        raise Violation("fit-io-type", f"transformation I/O types {T.input_dtype.__name__}/"
                        f"{T.output_dtype.__name__} for {case['fit_pts']} points "
                        f"(isometry={case['fit_isometry']})", tags)
    tags = _warp_tags(case)
    # every parameter is overwritten (the fit may have left any rotation / scaling behind)
    V, Vs = _set_exact(T, dict(case, zero_rotation_set=True), g, tags)
    before = gens.snapshot(src)
    out = ct(src)
    after = gens.snapshot(src)
    ok, why = gens.snapshot_equal(before, after)
    if not ok:
        raise Violation("input-modified", f"CoordinateTransformation changed its input: {why}", tags)
    if type(out) is not type(src):
        raise Violation("result-type", f"{type(out).__name__}", tags)
    want, n_valid = _apply_model(before["img"], V, Vs, case["src_shape"], case["dst_shape"])
    _cmp(out.img, want, "CoordinateTransformation(image).img", case, tags, V, Vs)
    meta = gens.snapshot(out)["meta"]
    dd = [float(x) for x in np.asarray(meta["dimensions"], dtype=float)]
    if dd != [float(x) for x in host.dimensions]:
        raise Violation("label-dimensions", f"result dimensions {dd}, destination system "
                        f"{list(host.dimensions)} (source {list(src.dimensions)})", tags)
    oo = np.asarray(out.origin, dtype=float)
    if oo.shape != (dim,) or not np.array_equal(oo, np.asarray(host.origin, dtype=float)):
        raise Violation("label-origin", f"result origin {oo.tolist()}, destination system "
                        f"{np.asarray(host.origin).tolist()}", tags)
    for k, v in before["meta"].items():
        if k in ("dimensions", "origin"):
            continue
        if k not in meta or meta[k] != v:
            raise Violation("metadata-changed", f"metadata[{k!r}]: {v!r} -> {meta.get(k)!r}", tags)
    if tuple(out.img.shape[:dim]) != tuple(case["dst_shape"]) or \
            tuple(out.coordinatesystem.shape) != tuple(case["dst_shape"]):
        raise Violation("label-shape", "result / coordinate system shape is not the destination shape",
                        tags)
    return Outcome(nontrivial=_warp_nontrivial(case, n_valid), key=[case],
                   labels=_warp_labels(case, n_valid, len(V)) +
                   ("fit-isometry" if case["fit_isometry"] else "fit-plain",), evals=len(V))


# =======================================================================================

_RULE = ("points: Hypothesis draws dimension 2/3, translation in +-1e3, scaling in (0.1,10) or "
         "isometry, 0-3 non-zero angles (generic, quarter turns, tiny), setter (set_parameters / "
         "set_parameters_as_vector), I/O type and 1-6 points in +-1e3; warps: source / destination "
         "systems (<= 12x12, <= 5^3; equal or different shape, origin offset, voxel-size ratio p/q), "
         "identity / whole-voxel shifts (incl. beyond the image) / quarter turns (2-D; about 1-3 axes "
         "in 3-D), expressed in coordinates, voxels or voxel centres, scalar / vector / series payload "
         "of 4 dtypes, correction(image) / correction(array) / correct_array(array) call, a third call "
         "through the same object with another payload kind / dtype; fitted maps: AffineCorrection / "
         "CoordinateTransformation fitted (isometry option on / off) from exact voxel, voxel-centre or "
         "coordinate pairs of a whole-voxel shift between equal or different systems; float- and "
         "integer-typed point arrays; non-trivial = non-zero angle or scaling (points), shift "
         ">= 1 voxel or quarter turn of a non-square image or src != dst system or >= 2 turned axes "
         "(warps); distinct = the case")

_N_PT = {"quick": 5000, "thorough": 64000}
_SH4 = {"quick": 2, "thorough": 16}

PROP = Prop(
    pid="C09",
    rule=_RULE,
    assumptions=[
        "maps are set exactly through set_parameters / set_parameters_as_vector; fitted maps "
        "(Powell, tol 1e-2) are held to exactness only for exact pairs of whole-voxel translations "
        "(the fit starts at the exact answer and the pulled-back centres are half a voxel away from "
        "any face); plain fits from Voxel-typed pairs pull integer positions (voxel faces) back and "
        "are not generated",
        "correction(array) is documented to work on a copy (argument unchanged, result not aliased); "
        "correct_array itself is only held to its values",
        "point arrays handed to the maps are arguments: unchanged afterwards",
        "warp oracle: integer pull-back model (destination voxel -> source voxel) written in the "
        "harness; for quarter turns about several axes the forward matrix (a signed permutation) "
        "is read from the object, its inverse is not",
        "2-D angle and single-axis 3-D angles act as the standard right-handed rotation matrix; "
        "the composition order of several 3-D angles is not asserted",
        "generic (non-quarter) rotations: only voxels whose pulled-back centre is >= 1e-6 voxel "
        "away from a face are compared",
        "roundtrip tolerance 1e-9 (1+|x|+|t|) max(s,1/s)",
    ],
    subs=[
        Sub("inverse_roundtrip", check_inverse_roundtrip, gen=gen_roundtrip, n=_N_PT, shards=_SH4),
        Sub("reparametrised_object", check_reparametrised, gen=gen_reparam,
            n={"quick": 1200, "thorough": 30000}, shards=_SH4),
        Sub("fitted_isometry_exact", check_fitted_isometry, gen=gen_fitted,
            n={"quick": 400, "thorough": 8000}, shards=_SH4),
        Sub("fitted_coordinate_isometry", check_fitted_isometry,
            gen=lambda tier: gen_fitted(tier, only="coordinate-isometry"),
            n={"quick": 60, "thorough": 1500}, shards={"quick": 1, "thorough": 4}),
        Sub("rotation_orthonormal", check_rotation_orthonormal, gen=gen_rotation, n=_N_PT, shards=_SH4),
        Sub("documented_action", check_documented_action, gen=gen_action, n=_N_PT, shards=_SH4),
        Sub("array_vs_single", check_array_vs_single, gen=gen_array_single, n=_N_PT, shards=_SH4),
        Sub("warp_exact", check_warp_exact, gen=lambda tier: warp_cases(),
            n={"quick": 2400, "thorough": 48000}, shards={"quick": 4, "thorough": 16}),
        Sub("warp_generic", check_warp_generic, gen=gen_warp_generic,
            n={"quick": 600, "thorough": 12000}, shards={"quick": 2, "thorough": 12}),
        Sub("metadata_labelled", check_metadata_labelled, gen=gen_metadata,
            n={"quick": 600, "thorough": 12000}, shards={"quick": 2, "thorough": 12}),
    ],
)
