"""C10 - every correction honours the copy / in-place / array / series contract.

Oracles: before/after snapshots, a *second, identically constructed* correction object applied to
the raw array (so caches cannot make the comparison circular), per-slice differential for series
(a fresh correction object per slice), neutral-element law, the constructor chain
``Image(arr, transformations=[a, b]) == b(a(Image))`` (members with ``active=False`` included) and
history-freeness: a correction object that has already been applied to other data gives the same
result as a fresh one.

Gap-analysis additions: every documented *call form* (``c(x)`` - the default must behave like
``overwrite=False`` -, ``c(x, overwrite=b)``, ``c(x, b)``); inputs whose array is Fortran-ordered or a
strided view into a larger array (the surrounding cells must stay untouched), signed / wide integer
dtypes for the dtype-agnostic corrections; an *independent* statement of the declared metadata
updates (curvature crop: ``[height, width]`` / origin ``[0, height]``; generalised perspective: the
destination coordinate system; a class that does not override ``correct_metadata`` declares
nothing); results and inputs of *earlier* applications of a correction object stay intact when it
is applied again; documented alternative construction forms (config dict / JSON file given as str
or Path, baseline as array or Image, matrix file as str or Path, colour checker through the config)
build the same correction.

Strengthening (round 4): the neutral law draws the *pixel data* of a deactivated ColorCorrection
independently of its configuration: besides the colour checker also arbitrary images of every
documented dtype, with floats inside [0, 1] or beyond (dyadic values in [-4, 4), as left behind by an
earlier balancing / scaling step) - whatever the remaining config keys (clip, balancing, white
balancing, reference checker) say, ``active=False`` must hand the values back unchanged.
"""
import contextlib
import copy
import datetime as _dt
import json
import os
import pathlib
import shutil

import cv2
import numpy as np
from hypothesis import strategies as st

import darsia
from vf import env, gens
from vf.runner import Outcome, Prop, Sub, Violation

ALL5 = ("float64", "float32", "uint8", "uint16", "bool")
# corrections that never hand the array to cv2 / skimage are dtype-agnostic: signed and wide integers
# (label / segmentation images, the int16 produced by TypeCorrection(int)) are part of "random dtypes"
INTS = ("int8", "int16", "int32", "int64", "uint32")
ALLX = ALL5 + ALL5 + INTS
NPT = {"bool": bool, "float": float, "float32": np.float32, "float64": np.float64, "int": int,
       "uint8": np.uint8, "uint16": np.uint16}

# what every correction accepts (read off the code; see the module docstrings of the corrections)
REQ = {
    "type": dict(dims=(1, 2, 3), mn=1, dtypes=ALLX, payloads=("scalar", "vector"), ncomps=(3, 3, 2, 1)),
    "rotation": dict(dims=(2, 2, 3), mn=1, dtypes=ALLX, payloads=("scalar", "vector"), ncomps=(3, 3, 2, 1)),
    # cv2.warpAffine: 2-D, not bool (-> rejected); a single-channel axis would be dropped by cv2
    "translation": dict(dims=(2,), mn=1, dtypes=("uint8", "uint16", "float32", "float64", "float64", "bool"),
                        payloads=("scalar", "vector"), ncomps=(3, 3, 2)),
    "translation_off": dict(dims=(2,), mn=1, dtypes=("uint8", "float64"), payloads=("scalar", "vector"),
                            ncomps=(3, 2)),
    # np.squeeze in _transform_image: keep every extent >= 3 and no 1-component vector payload
    "curvature": dict(dims=(2,), mn=4, dtypes=ALLX, payloads=("scalar", "vector"), ncomps=(3, 3, 2)),
    # geometry shared by the members of a constructor chain (cv2 members: no wide integers)
    "chain": dict(dims=(2,), mn=4, dtypes=ALL5, payloads=("scalar", "vector"), ncomps=(3, 3, 2)),
    "drift_off": dict(dims=(1, 2, 2, 3), mn=1, dtypes=ALLX, payloads=("scalar", "vector"), ncomps=(3, 3, 2, 1)),
    # ORB features: RGB input, >= 128 px
    "drift_on": dict(dims=(2,), mn=128, dtypes=("uint8", "uint8", "float32", "uint16", "bool"),
                     payloads=("vector",), ncomps=(3,)),
    "transformation": dict(dims=(2, 2, 3), mn=1, dtypes=ALLX, payloads=("scalar", "vector"), ncomps=(3, 3, 2, 1)),
    "affine_fit": dict(dims=(2, 2, 3), mn=3, dtypes=ALLX, payloads=("scalar", "vector"), ncomps=(3, 2, 1)),
    "gpersp": dict(dims=(2,), mn=3, dtypes=ALLX, payloads=("scalar", "vector"), ncomps=(3, 2, 1)),
    "illumination": dict(dims=(2,), mn=1, dtypes=("float64", "float32", "uint8"), payloads=("vector",),
                         ncomps=(3,)),
    "color": dict(dims=(2,), mn=0, dtypes=("uint8", "float32", "float64", "uint16"), payloads=("vector",),
                  ncomps=(3,)),
}
MAXEXT = {1: 12, 2: 8, 3: 4}

KINDS = ["type", "type", "rotation", "rotation", "translation", "translation", "curvature", "curvature",
         "drift_off", "drift_on", "transformation", "transformation", "affine_fit", "gpersp",
         "illumination", "illumination", "color"]
# the metadata law gets more of the corrections that declare an update (crop, destination system)
META_KINDS = KINDS + ["curvature", "curvature", "gpersp"]
NEUTRAL_KINDS = ["type", "rotation", "rotation", "translation", "translation_off", "curvature", "curvature",
                 "drift_off", "transformation", "affine_fit", "illumination", "color", "color", "color"]
# (the deactivated colour correction has the largest configuration space of the neutral elements -
# balancing mode, white balancing, clipping, reference checker - times the class of pixel data)
# not in the neutral law: a GeneralizedPerspectiveCorrection fitted on identical source / destination
# points.  Its Powell fit is not robust (a trial step c = -+1 makes the perspective denominator c.x + 1
# vanish for a point with coordinate +-1, the objective becomes nan and so do the fitted parameters:
# 1 of ~4400 thorough cases) - an optimiser matter, not one of the copy / in-place contract.

# ---------------------------------------------------------------------------------------------
# scratch files (TranslationCorrection reads its matrix from an .npy file)
# ---------------------------------------------------------------------------------------------


def _scratch():
    d = os.path.join(env.VERIF, ".cache", f"run-{os.getpid()}", "c10")
    os.makedirs(d, exist_ok=True)
    return d


def _cleanup():
    shutil.rmtree(os.path.join(env.VERIF, ".cache", f"run-{os.getpid()}"), ignore_errors=True)


# ---------------------------------------------------------------------------------------------
# generators
# ---------------------------------------------------------------------------------------------


@st.composite
def _spec(draw, kind, mode, classes=None):
    rq = REQ[kind]
    dim = draw(st.sampled_from(rq["dims"]))
    if kind == "drift_on":
        shape = [draw(st.integers(128, 150)), draw(st.integers(128, 150))]
    elif kind == "color":
        shape = [draw(st.integers(150, 170)), draw(st.integers(215, 240))]
    else:
        shape = draw(gens.shapes(dim, max(MAXEXT[dim], rq["mn"] + 3), rq["mn"]))
    vox = draw(gens.voxel_sizes(dim, draw(st.sampled_from(["pow2", "generic", "unit"]))))
    dimensions = [shape[i] * vox[i] for i in range(dim)]
    origin = None
    if draw(st.booleans()):
        origin = [float(draw(st.integers(-6, 6)) * vox[i % dim]) for i in range(dim)]
    payload = draw(st.sampled_from(rq["payloads"]))
    ncomp = draw(st.sampled_from(rq["ncomps"])) if payload == "vector" else 0
    if mode == "series":
        series = True
    elif mode == "single":
        series = False
    else:
        series = draw(st.sampled_from([False, False, True]))
    big = kind in ("drift_on", "color")
    nt = draw(st.integers(1, 2 if big else 3)) if series else 0
    cand = ["Image"]
    if not series and mode != "image":
        cand.append("array")
    if payload == "scalar":
        cand.append("ScalarImage")
    if dim == 2 and payload == "vector" and ncomp == 3:
        cand += ["OpticalImage", "OpticalImage"]
    if classes is not None:
        cand = [c for c in cand if c in classes] or ["Image"]
    return {
        "dim": dim, "shape": shape, "dimensions": dimensions, "origin": origin, "payload": payload,
        "ncomp": ncomp, "series": bool(series), "nt": nt,
        "dtype": draw(st.sampled_from(rq["dtypes"])),
        "time": draw(st.sampled_from(["none", "date", "time", "both"])),
        "t0": draw(st.integers(0, 5)), "dt": draw(st.integers(1, 4)),
        "pseed": draw(st.integers(0, 2**16)), "name": draw(st.sampled_from([None, "img", "a b"])),
        "cls": draw(st.sampled_from(cand)),
        "cspace": draw(st.sampled_from(["RGB", "RGB", "BGR", "HSV"])),
        # memory layout of the array handed in: C-contiguous, Fortran-ordered, or a strided view
        # into a larger array (whose other cells must never be touched)
        "layout": draw(st.sampled_from(["C", "C", "C", "F", "view"])),
    }


_SMALL = [0.0, 1e-3, -1e-3, 5e-3, -5e-3, 2e-2]
# pixel data handed to a ColorCorrection whose ``active`` flag is off
# (integer dtypes: the checker or the whole range of the type; floats: the checker, dyadic values in
# [0, 1] or in [-4, 4))
_OFF_DATA = {False: ["checker", "wide"], True: ["checker", "unit", "wide", "wide", "wide"]}


@st.composite
def _block(draw, a, b, neutral):
    return {f"horizontal_{a}": 0.0 if neutral else draw(st.sampled_from(_SMALL)),
            "horizontal_center_offset": draw(st.integers(-1, 1)),
            f"vertical_{a}": 0.0 if neutral else draw(st.sampled_from(_SMALL)),
            "vertical_center_offset": draw(st.integers(-1, 1))}


@st.composite
def _corr(draw, kind, spec, neutral=False, keep_shape=False):
    dim, shape = spec["dim"], spec["shape"]
    if kind == "type":
        # neutral: the target that is the input's own dtype (``int`` is skimage's int16)
        to = {"int16": "int"}.get(spec["dtype"], spec["dtype"]) if neutral else draw(st.sampled_from(sorted(NPT)))
        return {"kind": kind, "to": to}
    if kind == "rotation":
        anchor = [draw(st.integers(-2, n + 1)) for n in shape]
        ang = st.just(0.0) if neutral else st.sampled_from([0.3, -0.7, 1.5707963267948966, 3.0, 0.05])
        if dim == 2:
            rot = [draw(ang)]
        else:
            rot = [[draw(ang), draw(st.sampled_from("xyz"))] for _ in range(draw(st.integers(1, 3)))]
        return {"kind": kind, "anchor": anchor, "rot": rot}
    if kind == "translation":
        t = st.just(0.0) if neutral else st.sampled_from([1.0, -1.0, 2.0, -3.0, 0.5, 0.25, 0.0])
        return {"kind": kind, "t": [draw(t), draw(t)]}
    if kind == "translation_off":
        return {"kind": kind}
    if kind == "curvature":
        cfg = {}
        blocks = draw(st.sampled_from([["bulge"], ["stretch"], ["bulge", "stretch"], ["init", "bulge"],
                                       ["crop"], ["crop", "bulge", "stretch"], ["init", "crop"],
                                       ["crop", "stretch"], []]))
        if neutral:
            blocks = draw(st.sampled_from([[], ["bulge"], ["bulge", "stretch"], ["init"]]))
        if keep_shape:
            blocks = [b for b in blocks if b != "crop"]
        h, w = shape
        for b in blocks:
            if b == "crop":
                r0, c0 = draw(st.integers(0, 1)), draw(st.integers(0, 1))
                r1, c1 = draw(st.integers(h - 2, h - 1)), draw(st.integers(w - 2, w - 1))
                aspect = draw(st.sampled_from([w / h, 1.0, 2.0, 0.5]))
                hp = draw(st.sampled_from([1.0, 0.75, 3.0]))
                cfg["crop"] = {"pts_src": [[c0, r0], [c0, r1], [c1, r1], [c1, r0]],
                               "width": aspect * hp, "height": hp}
                if draw(st.integers(0, 7)) == 0:
                    # a crop without physical size declares no metadata update
                    del cfg["crop"][draw(st.sampled_from(["width", "height"]))]
            elif b == "stretch":
                cfg["stretch"] = draw(_block("stretch", None, neutral))
            else:
                cfg[b] = draw(_block("bulge", None, neutral))
        return {"kind": kind, "config": cfg,
                "order": draw(st.sampled_from([1, 1, 0] if neutral else [1, 1, 0, 3]))}
    if kind == "drift_off":
        return {"kind": kind, "with_base": draw(st.booleans())}
    if kind == "drift_on":
        h, w = shape
        roi = draw(st.sampled_from(["none", "none", "slices", "points"]))
        cp = {"kind": kind, "bseed": draw(st.integers(0, 2**16)),
              "shift": [draw(st.integers(-5, 5)), draw(st.integers(-5, 5))], "roi": roi}
        if roi != "none":
            cp["r"] = [draw(st.integers(0, 6)), h - draw(st.integers(0, 6))]
            cp["c"] = [draw(st.integers(0, 6)), w - draw(st.integers(0, 6))]
            cp["padding"] = draw(st.sampled_from([0.0, 0.02]))
        return cp
    if kind in ("transformation", "affine_fit", "gpersp"):
        cp = {"kind": kind, "typ": draw(st.sampled_from(["voxel", "coord"]))}
        same = neutral or keep_shape or draw(st.booleans())
        if same:
            cp["dst"] = None
        else:
            dshape = draw(gens.shapes(dim, MAXEXT[dim], 1 if kind == "transformation" else 3))
            dvox = draw(gens.voxel_sizes(dim, "pow2"))
            cp["dst"] = {"shape": dshape, "dimensions": [dshape[i] * dvox[i] for i in range(dim)]}
        if kind == "transformation":
            if neutral:
                cp.update(translation=[0.0] * dim, scaling=1.0, rotation=None)
            else:
                cp.update(
                    translation=[draw(st.sampled_from([0.0, 1.0, -1.0, 2.0, 0.5, -2.5])) for _ in range(dim)],
                    scaling=draw(st.sampled_from([1.0, 1.0, 2.0, 0.5, 1.25])),
                    rotation=draw(st.sampled_from([None, [0.3], [1.5707963267948966], [-0.9]]))
                    if dim == 2 else
                    draw(st.sampled_from([None, [0.3, 0.0, 0.0], [0.0, 1.5707963267948966, 0.0],
                                          [0.2, -0.4, 0.9]])))
        else:
            npts = draw(st.integers(4, 6))
            pts = [[draw(st.integers(0, n - 1)) for n in shape] for _ in range(npts)]
            # make the point set non-degenerate: add the corners of the source image
            pts[0] = [0] * dim
            pts[1] = [n - 1 for n in shape]
            pts[2] = [shape[0] - 1] + [0] * (dim - 1)
            pts[3] = [0] * (dim - 1) + [shape[-1] - 1]
            shift = [0] * dim if neutral else [draw(st.integers(-1, 1)) for _ in range(dim)]
            cp.update(pts=pts, shift=shift)
            if kind == "affine_fit":
                cp["isometry"] = draw(st.booleans())
            else:
                cp["strategy"] = draw(st.sampled_from([["perspective"], ["perspective+bulge"]]))
        return cp
    if kind == "illumination":
        return {"kind": kind, "colorspace": draw(st.sampled_from(["rgb", "hsl-scalar", "lab"])),
                "sseed": draw(st.integers(0, 2**16)), "unit": bool(neutral)}
    if kind == "color":
        return {"kind": kind, "active": not neutral,
                "cseed": draw(st.integers(0, 2**16)),
                "balancing": draw(st.sampled_from(["darsia", "darsia", "colour"])),
                "colorbalancing": draw(st.sampled_from(["affine", "linear"])),
                "whitebalancing": draw(st.booleans()),
                "clip": draw(st.booleans()),
                "corner": draw(st.integers(0, 3)),
                "base": draw(st.sampled_from(["default", "custom"])),
                # an active correction needs the colour checker in its ROI; a deactivated one is
                # documented for any uint8 / uint16 / float32 / float64 image: arbitrary data, floats
                # in [0, 1] or floats beyond it (the output of an earlier balancing / scaling step)
                "data": draw(st.sampled_from(_OFF_DATA[spec["dtype"] in ("float32", "float64")]))
                if neutral else "checker"}
    raise AssertionError(kind)


@st.composite
def _call(draw):
    """overwrite flag + the call form: ``c(x, overwrite=b)``, ``c(x, b)`` or - the signature
    documents ``overwrite: bool = False`` - plain ``c(x)``."""
    overwrite = draw(st.booleans())
    form = draw(st.sampled_from(["kw", "pos"] if overwrite else ["kw", "pos", "default", "default"]))
    return overwrite, form


def gen(mode, kinds=None, classes=None):
    kinds = kinds or (NEUTRAL_KINDS if mode == "neutral" else KINDS)

    @st.composite
    def strat(draw):
        kind = draw(st.sampled_from(kinds))
        spec = draw(_spec(kind, "any" if mode == "neutral" else mode, classes))
        if mode == "neutral" and kind == "type" and spec["dtype"] in INTS and spec["dtype"] != "int16":
            # TypeCorrection has no target for these: the neutral type correction does not exist
            spec["dtype"] = draw(st.sampled_from(ALL5 + ("int16",)))
        cp = draw(_corr(kind, spec, neutral=(mode == "neutral")))
        overwrite, form = draw(_call())
        return {"inp": spec, "corr": cp, "overwrite": overwrite, "call": form}

    return lambda tier: strat()


# corrections that fit / cache something at call time get more weight in the re-use law
REUSE_KINDS = ["type", "rotation", "translation", "curvature", "curvature", "drift_off", "drift_on",
               "drift_on", "transformation", "affine_fit", "gpersp", "illumination", "color", "color",
               "color"]


def gen_reuse(tier):
    @st.composite
    def strat(draw):
        kind = draw(st.sampled_from(REUSE_KINDS))
        spec = draw(_spec(kind, "any"))
        cp = draw(_corr(kind, spec))
        # the input the correction object is applied to *before* the one that is compared: same
        # geometry, other data (other illumination of the colour checker, other drift)
        w_over, w_form = draw(_call())
        warm = {"pseed": draw(st.integers(0, 2**16)),
                "shift": [draw(st.integers(-5, 5)), draw(st.integers(-5, 5))],
                "overwrite": w_over, "call": w_form}
        overwrite, form = draw(_call())
        return {"inp": spec, "corr": cp, "overwrite": overwrite, "call": form, "warm": warm}

    return strat()


# documented alternative ways of handing a correction its configuration (canonical form: config
# dict / file name as str / baseline as ndarray)
FORMS = {"curvature": ["json-str", "json-path", "json-path"],  # "config (dict, str, Path)"
         "translation": ["path"],                                # Optional[Union[str, Path]]
         "drift_off": ["base-image"],                            # "base (array or Image): baseline."
         "drift_on": ["base-image"]}
FORM_KINDS = ["curvature", "curvature", "curvature", "curvature", "translation", "translation",
              "drift_off", "drift_on"]


def gen_forms(tier):
    @st.composite
    def strat(draw):
        kind = draw(st.sampled_from(FORM_KINDS))
        spec = draw(_spec(kind, "any"))
        cp = draw(_corr(kind, spec))
        if kind == "drift_off":
            cp["with_base"] = True
        overwrite, form = draw(_call())
        return {"inp": spec, "corr": cp, "overwrite": overwrite, "call": form,
                "form": draw(st.sampled_from(FORMS[kind]))}

    return strat()


CHAIN_FIRST = ["type", "rotation", "translation", "curvature", "drift_off", "transformation",
               "illumination"]
CHAIN_SECOND = CHAIN_FIRST + ["curvature", "transformation", "gpersp"]
# corrections carrying an ``active`` flag that is switched off: the constructor has to treat them
# like any other member (an inactive ColorCorrection still converts to float32 in [0, 1])
CHAIN_FIRST = CHAIN_FIRST + ["color_off"]
CHAIN_SECOND = CHAIN_SECOND + ["color_off", "translation_off"]
_COLOR_DTYPES = REQ["color"]["dtypes"]


def gen_chain(tier):
    @st.composite
    def strat(draw):
        # 2-D images with extents >= 4 are in the domain of every member; every member but the
        # last keeps the shape, so that the second one can be built for the same geometry
        k1 = draw(st.sampled_from(CHAIN_FIRST))
        k2 = draw(st.sampled_from(CHAIN_SECOND))
        spec = draw(_spec("chain", "image"))
        if "illumination" in (k1, k2) or "color_off" in (k1, k2):
            spec["payload"], spec["ncomp"] = "vector", 3
            ok = [d for d in _COLOR_DTYPES if "color_off" in (k1, k2)] or list(REQ["illumination"]["dtypes"])
            if "illumination" in (k1, k2):
                ok = [d for d in ok if d in REQ["illumination"]["dtypes"]]
            if spec["dtype"] not in ok:
                spec["dtype"] = draw(st.sampled_from(ok))
            if spec["cls"] == "ScalarImage":
                spec["cls"] = "Image"

        def member(k, **kw):
            if k == "color_off":
                return draw(_corr("color", spec, neutral=True))
            return draw(_corr(k, spec, **kw))

        c1 = member(k1, keep_shape=True)
        c2 = member(k2)
        return {"inp": spec, "chain": [c1, c2], "with_none": draw(st.booleans())}

    return strat()


# ---------------------------------------------------------------------------------------------
# building inputs and corrections from a case
# ---------------------------------------------------------------------------------------------


def _texture(h, w, seed):
    rng = np.random.default_rng(seed)
    img = np.zeros((h, w, 3), np.uint8)
    img[:] = rng.integers(0, 256, 3)
    for _ in range(100):
        hh, ww = rng.integers(4, h // 3), rng.integers(4, w // 3)
        r0, c0 = rng.integers(0, h - hh), rng.integers(0, w - ww)
        img[r0:r0 + hh, c0:c0 + ww] = rng.integers(0, 256, 3)
    return img


def _as_dtype(u8, dtype):
    if dtype == "uint8":
        return u8
    if dtype == "uint16":
        return u8.astype(np.uint16) * 257
    if dtype == "bool":
        return u8 > 127
    return (u8 / 255.0).astype(dtype)


# --- synthetic colour checker: 24 uniform swatches placed where _extract_from_image samples them
_SW_ROW = [12, 93, 175, 255]
_SW_COL = [12, 95, 177, 260, 344, 427]


def _checker_colors(seed):
    rng = np.random.default_rng(seed)
    return rng.integers(30, 226, size=(4, 6, 3)).astype(np.uint8)


def _checker_image(h, w, colors, corner):
    """(h, w, 3) uint8 image that *is* the checker (box ROI = whole image), with the brown
    swatch (colors[0, 0]) in the given corner (0 upper left, 1 upper right, 2 lower right,
    3 lower left), matching ColorCorrection._restrict_to_roi."""
    H, W = (h, w) if corner in (0, 2) else (w, h)  # size of the upright checker
    # _extract_from_image resizes to 500 x int(Ny/Nx*500) after a warp to the Xrite aspect ratio
    # (27.3 x 17.8): build the upright checker in that frame and resize nearest to (H, W)
    fh = int(17.8 / 27.3 * 500) + 1
    frame = np.zeros((max(fh, 320), 500, 3), np.uint8)
    frame[:] = 20
    for i, r in enumerate(_SW_ROW):
        for j, c in enumerate(_SW_COL):
            frame[max(0, r - 10):r + 60, max(0, c - 10):c + 60] = colors[i, j]
    frame = frame[:fh]
    up = cv2.resize(frame, (W, H), interpolation=cv2.INTER_NEAREST)
    # inverse of the rotation applied by _restrict_to_roi
    if corner == 0:
        return up
    if corner == 1:
        return np.ascontiguousarray(np.rot90(up, -1))
    if corner == 2:
        return np.ascontiguousarray(np.rot90(up, 2))
    return np.ascontiguousarray(np.rot90(up, 1))


def _color_roi(h, w, corner):
    pts = [[0, 0], [0, w], [h, w], [h, 0]]  # UL, UR, LR, LL (row, col)
    first = pts[corner]
    rest = [p for p in pts if p is not first]
    return [first] + rest


def _full_shape(spec):
    return gens.full_shape(spec)


def _payload(spec, cp):
    """Deterministic raw array of the input."""
    kind = cp["kind"]
    shape = _full_shape(spec)
    rng = np.random.default_rng(spec["pseed"])
    if kind == "drift_on":
        h, w = spec["shape"]
        base = _texture(h, w, cp["bseed"])
        n = spec["nt"] if spec["series"] else 1
        slices = []
        for t in range(n):
            dr, dc = cp["shift"][0] + t, cp["shift"][1] - t
            slices.append(_as_dtype(np.roll(np.roll(base, dr, axis=0), dc, axis=1), spec["dtype"]))
        return np.stack(slices, axis=2) if spec["series"] else slices[0]
    if kind == "color" and cp.get("data", "checker") != "checker":
        # deactivated colour correction: no checker needed.  "wide": the whole range of the integer
        # types, dyadic floats in [-4, 4); "unit": dyadic floats in [0, 1]
        if cp["data"] == "unit" and spec["dtype"] in ("float32", "float64"):
            return (rng.integers(0, 9, size=shape) / 8.0).astype(spec["dtype"])
        return gens.payload_array(shape, spec["dtype"], spec["pseed"], dyadic=True)
    if kind == "color":
        h, w = spec["shape"]
        cols = _checker_colors(cp["cseed"])
        n = spec["nt"] if spec["series"] else 1
        slices = []
        for t in range(n):
            c = np.clip(cols.astype(int) + rng.integers(-25, 26, size=(1, 1, 3)) + 3 * t, 5, 250)
            slices.append(_as_dtype(_checker_image(h, w, c.astype(np.uint8), cp["corner"]), spec["dtype"]))
        return np.stack(slices, axis=2) if spec["series"] else slices[0]
    dt = spec["dtype"]
    if dt in ("float64", "float32") and kind in ("type", "illumination", "chain"):
        return (rng.integers(0, 9, size=shape) / 8.0).astype(dt)  # [0, 1]: valid skimage floats
    if dt in INTS:
        # the whole range of the narrow types; +-2**40 (exact in float64) for the 64-bit one
        info = np.iinfo(dt)
        return rng.integers(max(info.min, -2**40), min(info.max, 2**40), size=shape,
                            endpoint=True).astype(dt)
    return gens.payload_array(shape, dt, spec["pseed"], dyadic=True)


def _image_kwargs(spec):
    kw = gens.image_kwargs(spec)
    if spec["cls"] == "OpticalImage":
        kw["color_space"] = spec.get("cspace", "RGB")
    return kw


_GUARD = {"b": True, "u": 7, "i": 7, "f": 0.625}


def _laid_out(spec, arr):
    """-> (a, base): a fresh array equal to arr in the memory layout of the spec; ``base`` is
    the larger array a strided view lives in (None otherwise), its other cells hold a guard value."""
    lay = spec.get("layout", "C")
    if lay == "F":
        return np.asfortranarray(arr.copy()), None
    if lay == "view" and arr.ndim >= 1:
        nax = min(2, arr.ndim)
        big = np.full(tuple(2 * n + 1 for n in arr.shape[:nax]) + arr.shape[nax:],
                      _GUARD[arr.dtype.kind], dtype=arr.dtype)
        sl = tuple(slice(1, 2 * n, 2) for n in arr.shape[:nax])
        big[sl] = arr
        return big[sl], big
    return arr.copy(), None


def _mk_input2(spec, arr):
    """Fresh input object around a *copy* of arr (+ the base array of a strided view)."""
    a, base = _laid_out(spec, arr)
    if spec["cls"] == "array":
        return a, base
    cls = getattr(darsia, spec["cls"])
    return cls(a, **_image_kwargs(spec)), base


def _mk_input(spec, arr):
    return _mk_input2(spec, arr)[0]


def _guard_cells_intact(spec, base):
    """The cells of the base array that do not belong to the view still hold the guard value."""
    if base is None:
        return True
    nax = min(2, base.ndim)
    mask = np.ones(base.shape, bool)
    mask[tuple(slice(1, n - 1, 2) for n in base.shape[:nax])] = False
    return bool(np.all(base[mask] == np.asarray(_GUARD[base.dtype.kind], dtype=base.dtype)))


def _geom_image(dim, shape, dimensions, origin=None):
    kw = dict(space_dim=dim, dimensions=[float(d) for d in dimensions], scalar=True)
    if origin is not None:
        kw["origin"] = list(origin)
    return darsia.Image(np.zeros(tuple(shape)), **kw)


def _typed(typ, pts, cs):
    v = darsia.VoxelArray(np.array(pts, dtype=int))
    if typ == "voxel":
        return v
    return v.to_voxel_center().to_coordinate(cs)


_COUNTER = [0]


def build_corr(cp, spec, form=None):
    """A fresh correction object from the JSON description (called twice per case).  ``form``
    selects a documented alternative way of passing the same configuration (see FORMS)."""
    kind = cp["kind"]
    dim, shape = spec["dim"], spec["shape"]
    if kind == "type":
        return darsia.TypeCorrection(NPT[cp["to"]])
    if kind == "rotation":
        rot = cp["rot"] if dim == 2 else [tuple(r) for r in cp["rot"]]
        return darsia.RotationCorrection(anchor=list(cp["anchor"]), rotations=rot)
    if kind == "translation":
        _COUNTER[0] += 1
        path = os.path.join(_scratch(), f"t{_COUNTER[0]}.npy")
        np.save(path, np.array([[1.0, 0.0, cp["t"][0]], [0.0, 1.0, cp["t"][1]]]))
        return darsia.TranslationCorrection(pathlib.Path(path) if form == "path" else path)
    if kind == "translation_off":
        return darsia.TranslationCorrection()
    if kind == "curvature":
        config = copy.deepcopy(cp["config"])
        if form in ("json-str", "json-path"):
            _COUNTER[0] += 1
            path = os.path.join(_scratch(), f"curvature{_COUNTER[0]}.json")
            with open(path, "w") as f:
                json.dump(config, f)
            config = path if form == "json-str" else pathlib.Path(path)
        return darsia.CurvatureCorrection(config=config, interpolation_order=cp.get("order", 1))
    if kind == "drift_off":
        base = np.zeros((4, 4, 3), np.uint8) if cp.get("with_base") else None
        if form == "base-image":
            base = darsia.Image(base, dimensions=[1.0, 1.0])
        return darsia.DriftCorrection(base, {"active": False})
    if kind == "drift_on":
        h, w = shape
        base = _as_dtype(_texture(h, w, cp["bseed"]), spec["dtype"])
        cfg = {}
        if cp["roi"] == "slices":
            cfg["roi"] = (slice(*cp["r"]), slice(*cp["c"]))
        elif cp["roi"] == "points":
            cfg["roi"] = [[cp["r"][0], cp["c"][0]], [cp["r"][1], cp["c"][1]]]
            cfg["padding"] = cp["padding"]
        if form == "base-image":
            base = darsia.Image(base, dimensions=[float(d) for d in spec["dimensions"]])
        return darsia.DriftCorrection(base, cfg)
    if kind in ("transformation", "affine_fit", "gpersp"):
        src = _geom_image(dim, shape, spec["dimensions"], spec["origin"])
        cs_src = src.coordinatesystem
        if cp["dst"] is None:
            cs_dst = _geom_image(dim, shape, spec["dimensions"], spec["origin"]).coordinatesystem
        else:
            cs_dst = _geom_image(dim, cp["dst"]["shape"], cp["dst"]["dimensions"]).coordinatesystem
        if kind == "transformation":
            t = darsia.AffineTransformation(dim)
            p = _typed(cp["typ"], [[0] * dim], cs_src)
            t.set_dtype(p, p)
            t.set_parameters(np.array(cp["translation"], dtype=float), float(cp["scaling"]),
                             None if cp["rotation"] is None else list(cp["rotation"]))
            return darsia.TransformationCorrection(cs_src, cs_dst, t)
        pts_src = _typed(cp["typ"], cp["pts"], cs_src)
        pts_dst = _typed(cp["typ"], (np.array(cp["pts"]) + np.array(cp["shift"])).tolist(), cs_dst)
        if kind == "affine_fit":
            if cp["isometry"]:  # documented to start from voxels
                pts_src = darsia.VoxelArray(np.array(cp["pts"], dtype=int))
                pts_dst = darsia.VoxelArray(np.array(cp["pts"], dtype=int) + np.array(cp["shift"]))
            return darsia.AffineCorrection(cs_src, cs_dst, pts_src, pts_dst,
                                           {"tol": 1e-2, "maxiter": 20, "isometry": cp["isometry"]})
        return darsia.GeneralizedPerspectiveCorrection(
            cs_src, cs_dst, pts_src, pts_dst,
            {"tol": 1e-2, "maxiter": 2, "strategy": list(cp["strategy"])})
    if kind == "illumination":
        c = darsia.IlluminationCorrection()
        c.colorspace = cp["colorspace"]
        rng = np.random.default_rng(cp["sseed"])
        n = 3 if cp["colorspace"] == "rgb" else 1
        c.local_scaling = []
        for _ in range(n):
            s = np.ones(tuple(shape)) if cp["unit"] else rng.integers(4, 13, size=tuple(shape)) / 8.0
            c.local_scaling.append(darsia.ScalarImage(s, dimensions=[float(d) for d in spec["dimensions"]]))
        return c
    if kind == "color":
        h, w = shape
        cfg = {"roi": _color_roi(h, w, cp["corner"]), "active": cp["active"],
               "balancing": cp["balancing"], "colorbalancing": cp["colorbalancing"],
               "whitebalancing": cp["whitebalancing"], "clip": cp["clip"]}
        base = None
        if cp["base"] == "custom":
            ref = _checker_colors(cp["cseed"] + 1).astype(np.float32) / 255.0
            base = _custom_checker(ref)
        return reseed_kmeans(darsia.ColorCorrection(base=base, config=cfg))
    raise AssertionError(kind)


def reseed_kmeans(corr):
    """Harness-side wrapping of the *instance's* correct_array: the colour correction extracts the
    swatch colours with cv2.kmeans(KMEANS_RANDOM_CENTERS), which draws from cv2's global RNG.  Its
    result therefore depends (at the 1e-5 level, amplified to ~2e-4 by the Powell fit) on how many
    k-means calls preceded it - e.g. on the position of a slice in a series.  Resetting the RNG
    before every array-level call makes each application a pure function of its input, so that
    exact comparisons are sound."""
    inner = corr.correct_array

    def correct_array(img):
        cv2.setRNGSeed(0)
        return inner(img)

    corr.correct_array = correct_array
    return corr


def _custom_checker(ref):
    from darsia.corrections.color.colorcorrection import CustomColorChecker

    return CustomColorChecker(reference_colors=ref)


# ---------------------------------------------------------------------------------------------
# rejections the code documents / cv2 dtype limits
# ---------------------------------------------------------------------------------------------


class _Rejected(Exception):
    pass


_CV2_KINDS = ("translation", "drift_on", "color")


@contextlib.contextmanager
def _guard(kinds, bool_possible):
    """Documented rejections only: cv2 refusing a bool array; ORB not finding an alignment;
    skimage refusing floats outside [-1, 1] (chains, where a correction feeds another)."""
    try:
        yield
    except cv2.error:
        if bool_possible and any(k in _CV2_KINDS for k in kinds):
            raise _Rejected() from None
        raise
    except ValueError as e:
        msg = str(e)
        if "drift_on" in kinds and "cannot be aligned" in msg:
            raise _Rejected() from None
        if len(kinds) > 1 and "type" in kinds and "between -1 and 1" in msg:
            raise _Rejected() from None
        if "color" in kinds and bool_possible and "Provide image in" in msg:
            raise _Rejected() from None
        raise


def _seed_cv2():
    cv2.setRNGSeed(0)


def _apply(corr, x, overwrite, form="kw"):
    _seed_cv2()
    if form == "default" and not overwrite:
        return corr(x)
    if form == "pos":
        return corr(x, overwrite)
    return corr(x, overwrite=overwrite)


def _form(case, overwrite=None):
    """Call form of the case, as far as it is compatible with the overwrite flag used."""
    f = case.get("call", "kw")
    if f == "default" and (case["overwrite"] if overwrite is None else overwrite):
        return "kw"
    return f


def _apply_array(corr, a):
    _seed_cv2()
    return corr.correct_array(a)


# ---------------------------------------------------------------------------------------------
# comparisons
# ---------------------------------------------------------------------------------------------


def _norm(v):
    if isinstance(v, np.ndarray):
        return ["nd", np.asarray(v).tolist()]
    if isinstance(v, (list, tuple)):
        return [_norm(x) for x in v]
    if isinstance(v, (np.floating, np.integer, np.bool_)):
        return v.item()
    if isinstance(v, _dt.datetime):
        return ["dt", v.isoformat()]
    return v


def _norm_meta(meta):
    out = {}
    for k, v in meta.items():
        n = _norm(v)
        # Coordinate / list / tuple holding the same numbers are the same metadata value
        if isinstance(n, list) and len(n) == 2 and n[0] == "nd":
            n = n[1]
        out[k] = n
    return out


def _meta_diff(a, b):
    if a.keys() != b.keys():
        return f"keys {sorted(a)} vs {sorted(b)}"
    for k in a:
        if a[k] != b[k]:
            return f"[{k}]: {a[k]!r} vs {b[k]!r}"
    return ""


def _same_array(a, b, atol=0.0):
    a, b = np.asarray(a), np.asarray(b)
    if a.shape != b.shape:
        return f"shape {a.shape} vs {b.shape}"
    if a.dtype != b.dtype:
        return f"dtype {a.dtype} vs {b.dtype}"
    if atol > 0.0:
        if np.allclose(a, b, rtol=0.0, atol=atol, equal_nan=True):
            return ""
        i = tuple(np.argwhere(np.abs(a.astype(float) - b.astype(float)) > atol)[0])
        return f"values differ by more than {atol} at {i}: {a[i]!r} vs {b[i]!r}"
    if not np.array_equal(a, b, equal_nan=a.dtype.kind == "f"):
        bad = np.argwhere(~(np.isclose(a.astype(float), b.astype(float), rtol=0, atol=0, equal_nan=True)))
        i = tuple(bad[0]) if len(bad) else ()
        return f"values differ at {i}: {a[i]!r} vs {b[i]!r} ({len(bad)} entries)"
    return ""


def _arr(x):
    return x if isinstance(x, np.ndarray) else x.img


def _tags(case):
    spec = case["inp"]
    kinds = [c["kind"] for c in case["chain"]] if "chain" in case else [case["corr"]["kind"]]
    return {"corr": "+".join(kinds), "cls": spec["cls"], "series": spec["series"],
            "payload": spec["payload"], "dim": spec["dim"], "dtype": spec["dtype"]}


def _labels(case):
    spec = case["inp"]
    t = _tags(case)
    lab = (f"corr-{t['corr']}", f"cls-{spec['cls']}",
           "series" if spec["series"] else "single",
           f"payload-{spec['payload']}",
           "overwrite" if case.get("overwrite") else "copy",
           f"layout-{spec.get('layout', 'C')}",
           "dtype-int" if spec["dtype"] in INTS else f"dtype-{spec['dtype']}")
    if "call" in case:
        lab += (f"call-{case['call']}",)
    return lab


def _is_neutral(cp):
    k = cp["kind"]
    if k == "rotation":
        return all((r if not isinstance(r, list) else r[0]) == 0.0 for r in cp["rot"])
    if k == "translation":
        return cp["t"] == [0.0, 0.0]
    if k in ("drift_off", "translation_off"):
        return True
    if k == "curvature":
        return not any(b in cp["config"] for b in ("crop",)) and all(
            v == 0.0 for b in cp["config"].values() for kk, v in b.items() if "offset" not in kk)
    if k == "color":
        return not cp["active"]
    if k == "illumination":
        return cp["unit"]
    return False


def _inactive(cp):
    """The correction object carries ``active == False``."""
    return cp["kind"] in ("drift_off", "translation_off") or (cp["kind"] == "color" and not cp["active"])


def _outcome(case, evals=1, neutral_ok=False):
    spec = case["inp"]
    rich = spec["series"] or spec["payload"] == "vector" or bool(case.get("overwrite"))
    if "corr" in case and not neutral_ok:
        rich = rich and not _is_neutral(case["corr"])
    return Outcome(rich, None, _labels(case), evals=evals)


def _wrap(fn):
    def check(case):
        spec = case["inp"]
        kinds = [c["kind"] for c in case["chain"]] if "chain" in case else [case["corr"]["kind"]]
        bool_possible = spec["dtype"] == "bool" or any(
            c["kind"] == "type" and c["to"] == "bool" for c in case.get("chain", []))
        try:
            with _guard(kinds, bool_possible):
                return fn(case)
        except _Rejected:
            return Outcome(False, None, _labels(case) + ("rejected",), status="rejected")
        except Violation:
            raise
        except Exception as e:  # noqa - re-raised: the runner buckets it as a crash, tags name the class
            e.vf_tags = _tags(case)
            raise
        finally:
            _cleanup()

    check.__name__ = fn.__name__
    return check


def _setup(case):
    spec, cp = case["inp"], case["corr"]
    arr = _payload(spec, cp)
    return spec, cp, arr


# ---------------------------------------------------------------------------------------------
# 1. overwrite=False leaves the input untouched and returns a separate object
# ---------------------------------------------------------------------------------------------


def check_no_overwrite(case):
    spec, cp, arr = _setup(case)
    t = _tags(case)
    x, base = _mk_input2(spec, arr)
    is_arr = isinstance(x, np.ndarray)
    before = x.copy() if is_arr else gens.snapshot(x)
    # whatever the case says about overwrite: this law is about the non-overwriting call forms
    r = _apply(build_corr(cp, spec), x, False, _form(case, False))
    if not _guard_cells_intact(spec, base):
        raise Violation(f"input-modified:{cp['kind']}", "overwrite=False wrote into the array the input "
                        "is a strided view of (cells outside the view changed)", t)
    if is_arr:
        d = _same_array(x, before)
    else:
        ok, d = gens.snapshot_equal(before, gens.snapshot(x))
    if d:
        raise Violation(f"input-modified:{cp['kind']}", f"overwrite=False changed the input: {d}", t)
    if not _same_array(x if is_arr else x.img, arr) == "":
        raise Violation(f"input-modified:{cp['kind']}", "input array differs from the raw data", t)
    if r is x:
        raise Violation(f"result-is-input:{cp['kind']}", "overwrite=False returned the input object", t)
    if np.shares_memory(_arr(r), _arr(x)):
        raise Violation(f"shares-memory:{cp['kind']}", "result array shares memory with the input", t)
    if base is not None and np.shares_memory(_arr(r), base):
        raise Violation(f"shares-memory:{cp['kind']}", "result array shares memory with the array the "
                        "input is a view of", t)
    return _outcome(case)


# ---------------------------------------------------------------------------------------------
# 2. result is of the same kind as the input
# ---------------------------------------------------------------------------------------------


def check_same_kind(case):
    spec, cp, arr = _setup(case)
    x = _mk_input(spec, arr)
    r = _apply(build_corr(cp, spec), x, case["overwrite"], _form(case))
    if type(r) is not type(x):
        raise Violation(f"kind-changed:{cp['kind']}", f"{type(x).__name__} in, {type(r).__name__} out",
                        _tags(case))
    if not isinstance(r, np.ndarray):
        ref = _mk_input(spec, arr)
        attrs = ("series", "scalar", "space_dim") + (("color_space",) if spec["cls"] == "OpticalImage" else ())
        for attr in attrs:
            if getattr(r, attr) != getattr(ref, attr):
                raise Violation(f"kind-changed:{cp['kind']}", f"attribute {attr}: {getattr(ref, attr)!r} -> "
                                f"{getattr(r, attr)!r}", _tags(case))
    return _outcome(case)


# ---------------------------------------------------------------------------------------------
# 3. pixel data == correct_array(raw array) of an identically built second correction
# ---------------------------------------------------------------------------------------------


def check_data(case):
    spec, cp, arr = _setup(case)
    x = _mk_input(spec, arr)
    want = _apply_array(build_corr(cp, spec), arr.copy())
    r = _apply(build_corr(cp, spec), x, case["overwrite"], _form(case))
    d = _same_array(_arr(r), want)
    if d:
        raise Violation(f"data-mismatch:{cp['kind']}", f"result vs correct_array(raw): {d}", _tags(case))
    return _outcome(case)


# ---------------------------------------------------------------------------------------------
# 4. metadata == input's metadata updated with correct_metadata(...)
# ---------------------------------------------------------------------------------------------


def _declared(cp, spec, corr):
    """The metadata update a correction declares, stated independently of ``correct_metadata``:
    * CurvatureCorrection with a crop stage that carries the physical size: "Dimensions of Image
      uses matrix convention, i.e. (rows, cols)" -> [height, width], origin [0, height];
    * GeneralizedPerspectiveCorrection ("Cache reference metadata"): dimensions and origin of the
      destination coordinate system;
    * a class that does not override BaseCorrection.correct_metadata declares nothing.
    None = no independent statement available for this class."""
    if type(corr).correct_metadata is darsia.BaseCorrection.correct_metadata:
        return {}
    if cp["kind"] == "curvature":
        crop = cp["config"].get("crop")
        if crop is None or "width" not in crop or "height" not in crop:
            return {}
        return {"dimensions": [crop["height"], crop["width"]], "origin": [0, crop["height"]]}
    if cp["kind"] == "gpersp":
        if cp["dst"] is None:
            dst = _geom_image(spec["dim"], spec["shape"], spec["dimensions"], spec["origin"])
        else:
            dst = _geom_image(spec["dim"], cp["dst"]["shape"], cp["dst"]["dimensions"])
        return {"dimensions": list(dst.dimensions), "origin": np.asarray(dst.origin).tolist()}
    return None


def check_metadata(case):
    spec, cp, arr = _setup(case)
    x = _mk_input(spec, arr)
    ref = _mk_input(spec, arr)
    base = ref.metadata()
    upd = build_corr(cp, spec).correct_metadata(ref.metadata())
    want = dict(base)
    want.update(upd)
    corr = build_corr(cp, spec)
    r = _apply(corr, x, case["overwrite"], _form(case))
    d = _meta_diff(_norm_meta(r.metadata()), _norm_meta(want))
    if d:
        raise Violation(f"metadata-mismatch:{cp['kind']}",
                        f"overwrite={case['overwrite']}: result metadata vs input+update {d}", _tags(case))
    # ... and against the declaration stated independently of correct_metadata
    decl = _declared(cp, spec, corr)
    if decl is not None:
        want2 = dict(_mk_input(spec, arr).metadata())
        want2.update(decl)
        d = _meta_diff(_norm_meta(r.metadata()), _norm_meta(want2))
        if d:
            raise Violation(f"metadata-declared:{cp['kind']}", f"overwrite={case['overwrite']}: result "
                            f"metadata vs input + documented update {sorted(decl)}: {d}", _tags(case))
    # ... and the constructor keywords the input was built with survive (independent of metadata())
    kw = _image_kwargs(spec)
    for key in ("name", "color_space", "series", "scalar", "space_dim"):
        if key in kw and key not in upd and getattr(r, key) != kw[key]:
            raise Violation(f"metadata-attribute:{cp['kind']}", f"overwrite={case['overwrite']}: {key} was "
                            f"{kw[key]!r}, result has {getattr(r, key)!r}", _tags(case))
    # the metadata must describe the array that is actually stored
    sd = r.space_dim
    n_expected = sd + (1 if r.series else 0) + (0 if r.scalar else 1)
    if r.img.ndim != n_expected and not (not r.scalar and r.img.ndim > n_expected):
        raise Violation(f"metadata-shape:{cp['kind']}",
                        f"array of shape {r.img.shape} but space_dim={sd}, series={r.series}, "
                        f"scalar={r.scalar}", _tags(case))
    out = _outcome(case)
    out.labels = tuple(out.labels) + (("meta-update" if upd else "meta-unchanged"),) + (
        ("shape-changed",) if tuple(r.img.shape) != tuple(arr.shape) else ())
    return out


# ---------------------------------------------------------------------------------------------
# 5. overwrite=True returns the very same object, with the same result as overwrite=False
# ---------------------------------------------------------------------------------------------


def check_overwrite(case):
    spec, cp, arr = _setup(case)
    t = _tags(case)
    x = _mk_input(spec, arr)
    y = _mk_input(spec, arr)
    f = case.get("call", "kw")
    want = _apply(build_corr(cp, spec), y, False, f)
    r = _apply(build_corr(cp, spec), x, True, "kw" if f == "default" else f)
    if not isinstance(x, np.ndarray):
        if r is not x:
            raise Violation(f"overwrite-new-object:{cp['kind']}", "overwrite=True did not return the input object", t)
    d = _same_array(_arr(r), _arr(want))
    if d:
        raise Violation(f"overwrite-data:{cp['kind']}", f"overwrite=True vs overwrite=False: {d}", t)
    if not isinstance(x, np.ndarray):
        d = _meta_diff(_norm_meta(r.metadata()), _norm_meta(want.metadata()))
        if d:
            raise Violation(f"overwrite-metadata:{cp['kind']}", f"overwrite=True vs overwrite=False metadata {d}", t)
    c = dict(case)
    c["overwrite"] = True
    return _outcome(c)


# ---------------------------------------------------------------------------------------------
# 6. series == per-slice
# ---------------------------------------------------------------------------------------------


def check_series(case):
    spec, cp, arr = _setup(case)
    t = _tags(case)
    x = _mk_input(spec, arr)
    r = _apply(build_corr(cp, spec), x, case["overwrite"], _form(case))
    if not r.series or r.time_num != spec["nt"]:
        raise Violation(f"series-lost:{cp['kind']}", f"series={r.series} time_num={r.time_num}", t)
    if r.img.shape[r.space_dim] != spec["nt"]:
        raise Violation(f"series-axis:{cp['kind']}", f"result shape {r.img.shape}: time axis is not axis "
                        f"{r.space_dim} with {spec['nt']} slices", t)
    ref = _mk_input(spec, arr)
    for k in range(spec["nt"]):
        # a *fresh* correction per slice: "each time slice separately" means that slice k must not
        # depend on what the correction object has seen in slices 0..k-1 (fitted state kept on
        # the object would otherwise be shared by both sides of the comparison)
        want = _apply(build_corr(cp, spec), ref.time_slice(k), False)
        got = r.time_slice(k)
        d = _same_array(got.img, want.img)
        if d:
            raise Violation(f"series-slice-data:{cp['kind']}", f"slice {k} of the corrected series vs "
                            f"correction of time_slice({k}): {d}", t)
        d = _meta_diff(_norm_meta(got.metadata()), _norm_meta(want.metadata()))
        if d:
            raise Violation(f"series-slice-metadata:{cp['kind']}", f"slice {k}: {d}", t)
    out = _outcome(case, evals=spec["nt"])
    out.labels = tuple(out.labels) + (f"nt-{spec['nt']}",)
    return out


# ---------------------------------------------------------------------------------------------
# 7. neutral parameters leave the values unchanged
# ---------------------------------------------------------------------------------------------


def check_neutral(case):
    spec, cp, arr = _setup(case)
    t = _tags(case)
    x = _mk_input(spec, arr)
    r = _apply(build_corr(cp, spec), x, case["overwrite"], _form(case))
    got = _arr(r)
    if cp["kind"] == "color":
        # inactive colour correction documents a conversion to float32 in [0, 1]
        want = arr if arr.dtype.kind == "f" else None
        if got.dtype != np.float32:
            raise Violation("neutral-dtype:color", f"inactive ColorCorrection returned {got.dtype}", t)
        if want is None:
            import skimage

            back = skimage.img_as_ubyte(got) if arr.dtype == np.uint8 else skimage.img_as_uint(got)
            ok = got.shape == arr.shape and np.array_equal(back, arr)
        else:
            ok = got.shape == arr.shape and np.array_equal(got, arr.astype(np.float32))
        if not ok:
            msg = "inactive ColorCorrection changed the colours"
            if want is not None and got.shape == arr.shape:
                bad = np.argwhere(got != arr.astype(np.float32))
                i = tuple(bad[0])
                msg += (f" (config clip={cp['clip']}, whitebalancing={cp['whitebalancing']}, balancing="
                        f"{cp['balancing']}): {len(bad)} values, e.g. at {i}: {arr[i]!r} -> {got[i]!r}")
            raise Violation("neutral-changed:color", msg, t)
        out = _outcome(case, neutral_ok=True)
        beyond = want is not None and bool(arr.min() < 0.0 or arr.max() > 1.0)
        out.labels = tuple(out.labels) + (f"off-data-{cp.get('data', 'checker')}",
                                          "off-clip" if cp["clip"] else "off-noclip") + (
            ("off-float-beyond-unit-range",) + (("off-clip-float-beyond-unit-range",) if cp["clip"] else ())
            if beyond else ())
        return out
    if got.shape != arr.shape:
        raise Violation(f"neutral-shape:{cp['kind']}", f"shape {arr.shape} -> {got.shape}", t)
    if not np.array_equal(got.astype(np.float64), arr.astype(np.float64)):
        bad = np.argwhere(got.astype(np.float64) != arr.astype(np.float64))
        i = tuple(bad[0])
        raise Violation(f"neutral-changed:{cp['kind']}", f"neutral {cp['kind']} correction changed "
                        f"{len(bad)} values, e.g. at {i}: {arr[i]!r} -> {got[i]!r}", t)
    if cp["kind"] in ("type", "translation", "translation_off", "curvature", "drift_off",
                      "illumination", "transformation", "affine_fit") and got.dtype != arr.dtype:
        raise Violation(f"neutral-dtype:{cp['kind']}", f"dtype {arr.dtype} -> {got.dtype}", t)
    return _outcome(case, neutral_ok=True)


# ---------------------------------------------------------------------------------------------
# 8. Image(arr, transformations=[a, b]) == b(a(Image(arr)))
# ---------------------------------------------------------------------------------------------


def check_chain(case):
    spec = case["inp"]
    t = _tags(case)
    c1, c2 = case["chain"]
    pc = dict(c1)
    if c1["kind"] in ("type", "illumination", "color") or c2["kind"] in ("type", "illumination", "color"):
        pc = {"kind": "chain"}  # floats in [0, 1]
    arr = _payload(spec, pc)
    a2, b2 = build_corr(c1, spec), build_corr(c2, spec)
    _seed_cv2()
    mid = a2(_mk_input(spec, arr))
    _seed_cv2()
    want = b2(mid)
    a, b = build_corr(c1, spec), build_corr(c2, spec)
    chain = [a, None, b] if case["with_none"] else [a, b]
    cls = getattr(darsia, spec["cls"])
    _seed_cv2()
    got = cls(_laid_out(spec, arr)[0], transformations=chain, **_image_kwargs(spec))
    if type(got) is not type(want):
        raise Violation("chain-kind", f"{type(got).__name__} vs {type(want).__name__}", t)
    d = _same_array(got.img, want.img)
    if d:
        raise Violation(f"chain-data:{t['corr']}", f"constructor chain vs b(a(image)): {d}", t)
    d = _meta_diff(_norm_meta(got.metadata()), _norm_meta(want.metadata()))
    if d:
        raise Violation(f"chain-metadata:{t['corr']}", f"constructor chain vs b(a(image)): {d}", t)
    lab = _labels(case) + (f"first-{c1['kind']}", f"second-{c2['kind']}")
    if any(_inactive(c) for c in (c1, c2)):
        lab += ("inactive-member",)
        if any(c["kind"] == "color" for c in (c1, c2)) and spec["dtype"] != "float32":
            lab += ("inactive-member-converts",)
    return Outcome(True, None, lab)


# ---------------------------------------------------------------------------------------------
# 9. a correction object that has been used before gives the same result as a fresh one
# ---------------------------------------------------------------------------------------------


def check_reuse(case):
    """"pixel data equals the correction applied to the raw array" holds for *every* application
    of a correction object, not only for the first one: c(A); c(B) == fresh(B), data and metadata."""
    spec, cp, arr = _setup(case)
    t = _tags(case)
    w = case["warm"]
    spec0 = dict(spec, pseed=w["pseed"])
    cp0 = dict(cp, shift=list(w["shift"])) if cp["kind"] == "drift_on" else cp
    arr0 = _payload(spec0, cp0)
    differs = arr0.shape == arr.shape and not np.array_equal(arr0, arr)
    want = _apply(build_corr(cp, spec), _mk_input(spec, arr), case["overwrite"], _form(case))
    c = build_corr(cp, spec)
    x0 = _mk_input(spec0, arr0)
    r0 = _apply(c, x0, w["overwrite"], _form(w))
    # what the first application handed out / left behind ...
    r0_data, x0_data = _arr(r0).copy(), _arr(x0).copy()
    r0_meta = None if isinstance(r0, np.ndarray) else _norm_meta(gens.snapshot(r0)["meta"])
    x = _mk_input(spec, arr)
    r = _apply(c, x, case["overwrite"], _form(case))
    # ... is not touched by the second one: every application returns its own result
    d = _same_array(_arr(r0), r0_data)
    if d:
        raise Violation(f"reuse-earlier-result-changed:{cp['kind']}", "the result of the first application "
                        f"changed when the correction object was applied to another input: {d}", t)
    if r0_meta is not None:
        d = _meta_diff(_norm_meta(gens.snapshot(r0)["meta"]), r0_meta)
        if d:
            raise Violation(f"reuse-earlier-result-changed:{cp['kind']}", "metadata of the first result "
                            f"changed with the second application: {d}", t)
    d = _same_array(_arr(x0), x0_data)
    if d:
        raise Violation(f"reuse-earlier-input-changed:{cp['kind']}", "the input of the first application "
                        f"changed when the correction object was applied to another input: {d}", t)
    if np.shares_memory(_arr(r), _arr(r0)):
        raise Violation(f"reuse-results-share-memory:{cp['kind']}", "results of two applications of one "
                        "correction object to two separate inputs share memory", t)
    d = _same_array(_arr(r), _arr(want))
    if d:
        raise Violation(f"reuse-data:{cp['kind']}", "second application of a correction object vs a fresh, "
                        f"identically built correction on the same input: {d}", t)
    if not isinstance(r, np.ndarray):
        d = _meta_diff(_norm_meta(r.metadata()), _norm_meta(want.metadata()))
        if d:
            raise Violation(f"reuse-metadata:{cp['kind']}", f"second application vs fresh correction: {d}", t)
    out = _outcome(case, evals=2)
    out.nontrivial = bool(differs)
    out.labels = tuple(out.labels) + ("warm-differs" if differs else "warm-same",)
    return out


# ---------------------------------------------------------------------------------------------
# 10. documented alternative construction forms build the same correction
# ---------------------------------------------------------------------------------------------


def check_forms(case):
    """A correction that is handed its configuration in another documented form (JSON file instead
    of the dict - as str or Path -, Path instead of str, Image instead of ndarray as baseline)
    obeys the same contract: same pixel data, same metadata as the canonically built one."""
    spec, cp, arr = _setup(case)
    t = dict(_tags(case), form=case["form"])
    want = _apply(build_corr(cp, spec), _mk_input(spec, arr), case["overwrite"], _form(case))
    x = _mk_input(spec, arr)
    try:
        with _guard([cp["kind"]], spec["dtype"] == "bool"):
            r = _apply(build_corr(cp, spec, form=case["form"]), x, case["overwrite"], _form(case))
    except _Rejected:
        raise Violation(f"form-rejected:{cp['kind']}:{case['form']}", "the canonically built correction "
                        "accepts the input, the one built from the alternative form rejects it", t) from None
    if type(r) is not type(want):
        raise Violation(f"form-kind:{cp['kind']}:{case['form']}", f"{type(r).__name__} vs "
                        f"{type(want).__name__}", t)
    d = _same_array(_arr(r), _arr(want))
    if d:
        raise Violation(f"form-data:{cp['kind']}:{case['form']}", "correction built from the alternative "
                        f"form vs the canonically built one: {d}", t)
    if not isinstance(r, np.ndarray):
        d = _meta_diff(_norm_meta(r.metadata()), _norm_meta(want.metadata()))
        if d:
            raise Violation(f"form-metadata:{cp['kind']}:{case['form']}", d, t)
        if case["overwrite"] and r is not x:
            raise Violation(f"overwrite-new-object:{cp['kind']}", "overwrite=True did not return the input "
                            "object", t)
    out = _outcome(case)
    out.labels = tuple(out.labels) + (f"form-{case['form']}",)
    return out


_RULE = ("Hypothesis draws a correction (type, rotation 2-D/3-D, translation, curvature with "
         "init/crop/bulge/stretch blocks, drift active/inactive, TransformationCorrection with an exact "
         "affine map, fitted AffineCorrection / GeneralizedPerspectiveCorrection, IlluminationCorrection, "
         "ColorCorrection on a synthetic colour checker) and an input the correction accepts "
         "(ndarray / Image / ScalarImage / OpticalImage, single or series, dtype, metadata); "
         "non-trivial = (series or vector payload or overwrite=True) and non-neutral parameters "
         "(neutral sub-check: series or vector or overwrite; re-use sub-check: the correction object "
         "has first been applied to other data of the same geometry); constructor chains also contain "
         "members whose ``active`` flag is off (inactive ColorCorrection / Drift / Translation); the "
         "per-slice reference of a series comes from a fresh correction object per slice; "
         "every case also draws the call form (c(x) / c(x, overwrite=b) / c(x, b)), the memory layout "
         "of the array handed in (C, Fortran, strided view into a guarded larger array) and, for the "
         "corrections that do not go through cv2 / skimage, signed and 32/64-bit integer dtypes; the "
         "metadata law states the declared updates independently of correct_metadata; the re-use law "
         "also keeps the first result and the first input and demands that the second application "
         "leaves them alone; the neutral law gives a deactivated ColorCorrection (all combinations of "
         "clip / balancing / white balancing / reference checker) the checker image, arbitrary "
         "integer images, floats in [0, 1] or floats in [-4, 4); construction_forms_agree builds the same correction from a JSON file "
         "(str / Path), a Path to the matrix file, an Image as drift baseline; "
         "distinct = the whole case")

_SH = {"quick": 4, "thorough": 16}


def _n(q, t):
    return {"quick": q, "thorough": t}


PROP = Prop(
    pid="C10",
    rule=_RULE,
    assumptions=[
        "inputs are restricted to what each correction's code accepts (2-D for cv2/curvature/drift, "
        "RGB >= 128 px for active drift, 3-channel for illumination/colour, no 1-component vector "
        "payload for cv2-based corrections, extents >= 4 for curvature)",
        "cv2 refusing bool arrays, ORB failing to align, skimage refusing floats outside [-1, 1] in "
        "chains are counted as rejected",
        "array inputs with overwrite=True: only the returned values are compared (identity is not "
        "demanded, a dtype/shape changing correction cannot work in place)",
        "expected data always come from a second, identically constructed correction object",
        "a class that does not override BaseCorrection.correct_metadata declares no metadata update; "
        "CurvatureCorrection declares [height, width] / origin [0, height] of its crop stage (only if both "
        "are configured), GeneralizedPerspectiveCorrection the dimensions and origin of its destination "
        "coordinate system",
        "cv2.setRNGSeed(0) before every application; the colour correction's instance is wrapped so "
        "that this also happens before each slice of a series (k-means draws from cv2's global RNG)",
    ],
    subs=[
        Sub("no_overwrite_leaves_input", _wrap(check_no_overwrite), gen=gen("any"), n=_n(2400, 60000), shards=_SH),
        Sub("same_kind", _wrap(check_same_kind), gen=gen("any"), n=_n(2400, 60000), shards=_SH),
        Sub("data_equals_correct_array", _wrap(check_data), gen=gen("single"), n=_n(2400, 60000), shards=_SH),
        Sub("metadata_is_input_plus_update", _wrap(check_metadata), gen=gen("image", kinds=META_KINDS), n=_n(2400, 60000), shards=_SH),
        Sub("overwrite_same_object", _wrap(check_overwrite), gen=gen("any"), n=_n(2400, 60000), shards=_SH),
        Sub("series_equals_per_slice", _wrap(check_series), gen=gen("series"), n=_n(1800, 45000), shards=_SH),
        Sub("neutral_is_identity", _wrap(check_neutral), gen=gen("neutral"), n=_n(2400, 60000), shards=_SH),
        Sub("constructor_chain", _wrap(check_chain), gen=gen_chain, n=_n(1800, 45000), shards=_SH),
        Sub("reuse_is_history_free", _wrap(check_reuse), gen=gen_reuse, n=_n(400, 12000), shards=_SH),
        Sub("construction_forms_agree", _wrap(check_forms), gen=gen_forms, n=_n(320, 8000), shards=_SH),
    ],
)
